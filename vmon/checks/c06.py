"""C06 — validation is tamper-evident: signatures bind what their hash type commits."""
import io

from vmon.probe import shard_rng, observe
from vmon.refs import script as RS
from vmon.gen import scriptgen as G
from vmon.checks import c05

PROPERTY = "C06"
PRELOAD_NETWORK_ORDERS = [["btc", "xtn", "ltc", "bch", "grs", "doge", "dash", "btg"], ["btg", "grs", "bch", "doge", "ltc", "xtn", "btc"]]
LEVEL = "exploration"
TECHNIQUE = "offline checker over mutate/re-validate histories on live signed transactions: pycoin's per-input verdict vs the reference interpreter's re-verification of the mutated transaction, a digest-commitment consistency layer, and a fresh-object comparison after every step"
RULE = ("histories: a fully signed transaction (generator of C05: all standard puzzle kinds x hash types ALL/NONE/SINGLE x ANYONECANPAY, "
        "BTC/LTC/BCH/BTG/GRS and others) followed by a sequence of mutations applied to the live object - single-bit flips of version, lock "
        "time, every outpoint hash/index, every sequence, every output amount/script, every recorded spent amount/script; insertion, removal "
        "and reordering of inputs (with their spent outputs) and of outputs; swapping unlocking data between inputs; dropping a spent output "
        "- each followed by is_solution_ok for every input and bad_solution_count, with undo or accumulation. Three histories of every "
        "shard are stratified (each core network x each of the six hash types once per run: at least two inputs and outputs, a legacy "
        "and a witness input on the non-fork coins, every mutation of the list applied with undo) so that the commitment table of the "
        "statement - signature version x hash type x field class x outcome, counters cell:* - is reached whatever the seed; the other "
        "histories are random and also sign different inputs, or the signatures of one multisig input, with different hash types. "
        "Distinct by (puzzle kind, signature version, hash type, mutated field class); both outcomes (stays valid / becomes invalid) "
        "must be seen for every hash type, and every cell of REQUIRED_CELLS must be seen with the outcome the statement gives it. "
        "Round 4, drawn from a second random stream so that the older histories stay as they were, every such step undone: the null "
        "outpoint (zero hash AND index 2^32-1) written into the first / a later input of a transaction of two or more inputs, or inserted "
        "as a new first / later input with its spent output unknown or recorded; every field set to the special constants of its wire type "
        "(0, 1, 2^31-1, 2^31, 2^32-2, 2^32-1, the lock-time threshold, relative-lock-time bits, all-zero / all-one hashes, 2^63, 2^64-1, "
        "empty scripts); script lengths, output counts and input counts put on the compact-size boundaries 252/253/254/65535/65536, also "
        "inside the material that gets signed; refused calls (a value that does not fit its wire field or has the wrong type in every "
        "field of the transaction and of the recorded spent outputs, bytearray fields, unusable flags, an unknown spent output) made on "
        "the live object, on a twin, on a twin under another coin's class, right before judged validations - of the unchanged state, of "
        "the mutated state, and of the one transaction that would complete what the interrupted call had begun to serialise.")
ASSUMPTIONS = [
    "the expected verdict for a mutated transaction is the reference interpreter's verdict on the same bytes (vmon/refs/script.py + refs/sighash.py); "
    "'committed' is defined as: the reference digest of the input's signatures changes",
    "validation flags: pycoin's default (P2SH|WITNESS) and the standard set, alternating per history",
    "spent amounts are non-zero so that the appended-unspents serialisation used for the fresh-object comparison can represent them",
    "signed bytes re-loaded under another coin's class: on fork-id coins a legacy-path signature without the fork-id bit is refused "
    "(spend fails); witness-v0 checks on those coins use the BIP143 digest with the hash-type byte as given (BTG: fork id folded in) "
    "without a fork-id requirement, as the coins themselves have no segwit rule to compare with",
    "a transaction whose ONLY input carries the null outpoint is a coinbase transaction: it spends nothing, pycoin validates none of its "
    "inputs by design (bad_solution_count() == 0), and the statement's signed inputs are not there to be judged - such a state is skipped; "
    "with two or more inputs the null outpoint is an outpoint like any other and the reference interpreter decides",
    "a refused call (or one the library answers although a field holds an unusable value) is never judged itself; judged are the "
    "validations that follow it, and that the object handed in looks afterwards as it did before (validation is a read: the caller's "
    "lists and fields, and the dictionary handed to unspents_from_db, are the caller's)",
    "no long-run (2^16 operations) shard: the anchors hold no per-object or per-process counter, cache or memo (a checker is built per "
    "call, the sighash cache lives for one CHECKSIG); the only process-wide resource a validation touches is the EC generator (C01/C02/C10 "
    "run it past 2^16), and one judged validation costs >= 1.2 ms of native EC work, i.e. > 100 s CPU for 2^16+100 of them",
]
EXPLANATION = ("per-input verdicts of the live object == reference verdicts == verdicts of a fresh object parsed from as_bin(include_unspents=True); "
               "inputs with missing spent output are never valid; refused calls in between change no later verdict; validation leaves the object as it was")
TIMEOUT = {"quick": 900, "thorough": 4 * 3600}

HT_NAMES = {None: "all", 1: "all", 2: "none", 3: "single", 0x81: "all+acp", 0x82: "none+acp", 0x83: "single+acp"}
SIX = ("all", "none", "single", "all+acp", "none+acp", "single+acp")
STRATA = (1, 2, 3, 0x81, 0x82, 0x83)
MUTATION_CLASSES = ("version", "lock_time", "outpoint_hash", "outpoint_index", "sequence", "out_amount", "out_script", "out_script_append",
                    "spent_amount", "spent_script", "unlock_script", "add_output", "del_output", "swap_outputs", "add_input", "del_input",
                    "swap_inputs", "swap_unlock", "drop_unspent", "truncate_unspents",
                    # round 4: special constants / two rare conditions at once, compact-size boundaries, error-path state
                    "null_outpoint", "add_null_input", "special_value", "compact_size", "after_refusal")
SPECIAL_FIELDS = ("version", "lock_time", "sequence", "outpoint_index", "outpoint_hash", "out_amount", "out_script", "spent_amount")
COMPACT_KINDS = ("out_script_len", "out_count", "in_count")
REFUSAL_KINDS = ("out_amount", "out_script", "sequence", "outpoint_index", "outpoint_hash", "spent_amount", "spent_script", "version",
                 "lock_time", "unlock_script", "witness_item", "bytearray_fields", "flags", "unknown_unspent")
ZERO32 = bytes(32)
INPUT_FIELDS = ("outpoint_hash", "outpoint_index", "sequence", "spent_amount", "spent_script", "unlock_script")
OUTPUT_FIELDS = ("out_amount", "out_script", "out_script_append")
PUZZLE_KINDS = sorted(set(c05.KINDS))


def stratum_for(shard, k):
    """histories 0..2 of every shard are stratified: shards 0-7 (one per core network) take ALL/NONE/SINGLE, shards 8-15 (the
    second pass over the core networks) the ANYONECANPAY variants - every (core network, hash type) pair once per run"""
    return STRATA[k + 3 * ((shard // 8) % 2)] if k < 3 else None


def cell_label(cls, j, i):
    """field class of a single-field mutation as seen from input i"""
    if cls in ("version", "lock_time"):
        return cls
    if cls in INPUT_FIELDS:
        return cls + (".own" if j == i else ".other")
    if cls in OUTPUT_FIELDS:
        return ("out_script" if cls == "out_script_append" else cls) + (".same" if j == i else ".diff")
    return None


def required_cells():
    """the commitment table the statement spells out, as (signature version, hash type, field class, outcome) that must have been
    observed. The outcome of every evaluation is decided by the reference interpreter; this list only says which decided outcomes
    have to be present for the run to count (a reference that disagreed with the statement would leave a cell empty -> inconclusive)"""
    cells = []
    for sv in ("legacy", "witness", "forkid"):
        amount = "valid" if sv == "legacy" else "invalid"
        T = {
            # SIGHASH_ALL: the statement's list, plus what lies outside every commitment
            "all": {"invalid": ["version", "lock_time", "outpoint_hash.own", "outpoint_hash.other", "outpoint_index.own", "outpoint_index.other",
                                "sequence.own", "sequence.other", "out_amount.same", "out_amount.diff", "out_script.same", "out_script.diff",
                                "spent_script.own"],
                    "valid": ["spent_amount.other", "spent_script.other", "unlock_script.other"]},
            "none": {"invalid": ["version", "lock_time", "outpoint_hash.own", "outpoint_hash.other", "sequence.own", "spent_script.own"],
                     "valid": ["sequence.other", "out_amount.same", "out_amount.diff", "out_script.same", "out_script.diff", "unlock_script.other"]},
            "single": {"invalid": ["version", "lock_time", "outpoint_index.other", "sequence.own", "out_amount.same", "out_script.same"],
                       "valid": ["sequence.other", "out_amount.diff", "out_script.diff", "unlock_script.other"]},
            "all+acp": {"invalid": ["version", "lock_time", "outpoint_hash.own", "outpoint_index.own", "sequence.own", "out_amount.same",
                                    "out_amount.diff", "out_script.diff", "spent_script.own"],
                        "valid": ["outpoint_hash.other", "outpoint_index.other", "sequence.other", "spent_amount.other"]},
            "none+acp": {"invalid": ["version", "lock_time", "outpoint_hash.own", "sequence.own", "spent_script.own"],
                         "valid": ["outpoint_hash.other", "sequence.other", "out_amount.same", "out_amount.diff", "out_script.diff"]},
            "single+acp": {"invalid": ["version", "lock_time", "outpoint_index.own", "sequence.own", "out_amount.same", "out_script.same"],
                           "valid": ["outpoint_hash.other", "sequence.other", "out_amount.diff", "out_script.diff"]},
        }
        for ht, d in T.items():
            for outcome, labels in d.items():
                cells += ["cell:%s:%s:%s:%s" % (sv, ht, lab, outcome) for lab in labels]
            cells.append("cell:%s:%s:spent_amount.own:%s" % (sv, ht, amount))
    return cells


def plan(tier, seed):
    q = tier == "quick"
    return [{"kind": "hist", "n": 10 if q else 160, "slot": i, "env": {"PYTHONHASHSEED": str(i % 5)}} for i in range(16 if q else 64)]


def selftest(rec):
    return c05.selftest(rec)


def flip(v, bit):
    return v ^ (1 << bit)


class Tamper(c05.History):
    def __init__(self, rec, net, netcode, rng, keys, std_flags, stratum=None):
        c05.History.__init__(self, rec, net, netcode, rng, keys)
        self.use_flags = self.flags if std_flags else None
        self.ref_flags = self.flags if std_flags else (RS.P2SH | RS.WITNESS)
        self.mlog = []
        self.stratum = stratum
        self.sign_mode = "uniform"
        self.hash_types = []
        self.forkcoin = self.fork[0] in ("bch", "btg")
        self.rng2 = None            # second stream (set by history_for): everything added in round 4 draws from it, the older draws stay as they were
        self.poisoned = None

    def case(self, extra=None):
        d = c05.History.case(self, {"sign_mode": self.sign_mode, "hash_types": list(self.hash_types), "stratum": self.stratum})
        d.update(extra or {})
        return d

    def build(self):
        """C05's generator; a stratified history redraws until the composition its cells need is there"""
        for _ in range(2000):
            c05.History.build(self)
            if self.stratum is None or self.stratum_ok():
                break
        else:
            raise RuntimeError("stratified composition not drawn")
        if self.stratum is not None:
            self.hash_type = self.stratum
        self.signed_boundary()

    def signed_boundary(self):
        """exact boundary values inside the material that gets SIGNED (not only reached by tampering): an output script whose
        length sits on a compact-size boundary, an output amount at the edge of its 8-byte field"""
        rng = self.rng2
        if rng is None or rng.random() >= 0.25:
            return
        to = rng.choice(self.tx.txs_out)
        if rng.random() < 0.65:
            n = rng.choice([253, 253, 253, 252, 254, 253, 65535, 65536])      # 253: the first length that needs the three-byte form
            to.script = b"\x6a" + bytes([rng.randrange(256)]) * (n - 1)
            self.rec.ev("signed_boundary:out_script_len")
        else:
            to.coin_value = rng.choice([2 ** 64 - 1, 2 ** 63, 2 ** 32, 2 ** 32 - 1])
            self.rec.ev("signed_boundary:out_amount")

    def stratum_ok(self):
        n_in, n_out = len(self.puzzles), len(self.tx.txs_out)
        if not (2 <= n_in <= 3 and n_out >= 2):
            return False
        if self.forkcoin:
            return True
        low = [("w" in p.kind) for p in self.puzzles[:n_out]]      # inputs that have an output of their own index
        return (True in low) and (False in low)

    # ----------------------------------------------------------------------------------------------
    def attach_sources(self):
        """give every input a real source transaction (so that spent outputs can also be looked up in a database)"""
        Tx = self.net.tx
        self.sources = {}
        for k, (ti, p) in enumerate(zip(self.tx.txs_in, self.puzzles)):
            idx = self.rng.randrange(3)
            outs = [Tx.TxOut(7 + j, b"\x51") for j in range(idx)] + [Tx.TxOut(p.amount, p.spk)]
            src = Tx(1, [Tx.TxIn(G.rand_prev(self.rng), k, b"\x51")], outs)
            ti.previous_hash, ti.previous_index = src.hash(), idx
            self.sources[src.hash()] = src

    def database_check(self):
        """spent outputs fetched from a transaction database: with an honest database every input validates; an entry filed
        under an outpoint's hash that is NOT that transaction leaves the spent output unknown - never reported valid"""
        rec, Tx = self.rec, self.net.tx
        plain = self.tx.as_bin()
        st, t2 = observe(Tx.from_bin, plain)
        if st != "ok":
            return
        db0 = dict(self.sources)
        keys0, vals0 = list(db0), [(id(v), v.as_bin()) for v in db0.values()]
        st, _ = observe(t2.unspents_from_db, db0)
        rec.ev("Tx.unspents_from_db")
        # the caller's dictionary (and the transactions in it) is the caller's: a lookup leaves it as it was, and asking again
        # with the same object gives the same spent outputs
        rec.ev("database_argument_unchanged_checked")
        if list(db0) != keys0 or [(id(v), v.as_bin()) for v in db0.values()] != vals0:
            rec.violation("database.lookup_modifies_callers_dictionary", self.case(), sorted(k.hex() for k in db0), sorted(k.hex() for k in keys0))
        elif st == "ok":
            first = [(u.coin_value, bytes(u.script)) for u in t2.unspents]
            st2, _ = observe(t2.unspents_from_db, db0)
            if st2 != "ok" or [(u.coin_value, bytes(u.script)) for u in t2.unspents] != first:
                rec.violation("database.second_lookup_with_same_dictionary_differs", self.case(), st2, first)
        kw = {} if self.use_flags is None else {"flags": self.use_flags}
        if st != "ok" or not all(t2.is_solution_ok(i, **kw) for i in range(len(t2.txs_in))):
            rec.violation("database.honest_db_not_valid", self.case(), st, "all inputs valid")
            return
        k = self.rng.randrange(len(self.tx.txs_in))
        ti = self.tx.txs_in[k]
        real = self.sources[ti.previous_hash]
        variant = self.rng.choice(["same_outputs_other_version", "amount_changed", "other_tx_same_script"])
        outs = [Tx.TxOut(o.coin_value, o.script) for o in real.txs_out]
        if variant == "amount_changed":
            outs[ti.previous_index] = Tx.TxOut(outs[ti.previous_index].coin_value + 1, outs[ti.previous_index].script)
        fake = Tx(2 if variant != "other_tx_same_script" else 1, [Tx.TxIn(G.rand_prev(self.rng), 9, b"\x52")], outs)
        db = dict(self.sources)
        db[ti.previous_hash] = fake
        t3 = Tx.from_bin(plain)
        st, r = observe(t3.unspents_from_db, db, ignore_missing=True)
        rec.ev("Tx.unspents_from_db(poisoned)")
        case = self.case({"poisoned_input": k, "variant": variant})
        if st != "ok":
            # refusing the database outright is one way of not reporting the input valid (the statement asks no more)
            rec.ev("database.poisoned_lookup_refused")
        else:
            stv, v = observe(t3.is_solution_ok, k, **kw)
            rec.ev("database.poisoned_input_validated")
            if stv == "ok" and v:
                rec.violation("database.unknown_spent_output_reported_valid." + variant, case, v, False)
        t4 = Tx.from_bin(plain)
        st, r = observe(t4.unspents_from_db, db)
        if st == "ok":
            stv, v = observe(t4.is_solution_ok, k, **kw)
            if stv == "ok" and v:
                rec.violation("database.unknown_spent_output_reported_valid.strict." + variant, case, v, False)

    def other_type(self, base):
        b = base or 1
        if self.rng.random() < 0.5:
            return b ^ 0x80         # same base type, other ANYONECANPAY bit
        return self.rng.choice([t for t in STRATA if t != (b & ~0x40)]) | (b & 0x40)

    def sign_all(self):
        """sign everything: with one hash type (stratified histories always), or with two - split over the inputs, or over the
        signatures of one multisig input (the rest of the transaction takes the first type)"""
        rng = self.rng
        self.build()
        self.attach_sources()
        chosen = [set(rng.sample(p.key_idx, p.m)) if p.m is not None else set(p.key_idx) for p in self.puzzles]
        every = set().union(*chosen)
        n = len(self.puzzles)
        multi = [i for i, p in enumerate(self.puzzles) if p.m is not None and p.m >= 2]
        mode = "uniform"
        if self.stratum is None:
            r = rng.random()
            if r < 0.2 and n >= 2:
                mode = "per_input"
            elif r < 0.4 and multi:
                mode = "per_signature"
        self.sign_mode = mode
        self.hash_types = [self.hash_type]
        if mode == "uniform":
            ok = self.sign_with(every, "dict")
        else:
            second = self.other_type(self.hash_type)
            self.hash_types.append(second)
            if mode == "per_input":
                first = set(rng.sample(range(n), rng.randrange(1, n)))
                rest = set(range(n)) - first
                ok = self.sign_with(set().union(*[chosen[i] for i in first]), "dict", idx_set=first)
                self.hash_type = second
                ok = ok and self.sign_with(set().union(*[chosen[i] for i in rest]), "dict", idx_set=rest)
            else:
                ks = sorted(chosen[rng.choice(multi)])
                rng.shuffle(ks)
                late = set(ks[rng.randrange(1, len(ks)):])
                ok = self.sign_with(every - late, "dict")
                self.hash_type = second
                ok = ok and self.sign_with(late, "dict")
        if not ok:
            return False
        self.rec.ev("sign_mode:" + mode)
        self.spks = [p.spk for p in self.puzzles]
        self.amounts = [p.amount for p in self.puzzles]
        self.kinds = [p.kind for p in self.puzzles]
        for kind in self.kinds:
            self.rec.ev("kind:" + kind)
        return True

    def label_inputs(self):
        """signature version and hash type of every signed input, read off what the reference interpreter was asked to check
        (fork-id coins: the fork-id bit is not part of the name). Keyed by TxIn object: structural mutations move the objects"""
        self._keep = list(self.tx.txs_in)       # keeps the ids unique for the whole history
        self.sv, self.ht = {}, {}
        for ti, log in zip(self.tx.txs_in, self.last_logs):
            types = {(e[1] & ~0x40) if self.forkcoin else e[1] for e in log or ()}
            if len(types) == 1:
                name = HT_NAMES.get(next(iter(types)), "other")
            else:
                name = "mixed" if types else "nosig"
            self.ht[id(ti)] = name
            witness = any(e[0] == RS.SIGVERSION_WITNESS_V0 for e in log or ())
            self.sv[id(ti)] = "forkid" if self.forkcoin else ("witness" if witness else "legacy")
            if name == "mixed":
                self.rec.ev("mixed_hash_types_in_one_input")
        if len({self.ht[id(ti)] for ti in self.tx.txs_in} - {"mixed"}) > 1:
            self.rec.ev("inputs_of_different_hash_types")

    def live_verdicts(self, tx=None):
        tx = tx or self.tx
        out = []
        for i in range(len(tx.txs_in)):
            kw = {} if self.use_flags is None else {"flags": self.use_flags}
            st, ok = observe(tx.is_solution_ok, i, **kw)
            out.append(bool(ok) if st == "ok" else "EXC:%s" % type(ok).__name__)     # "reported valid" = any true value
        return out

    def ref_verdicts(self):
        t = self.tx
        ref_tx = {"version": t.version & 0xffffffff, "lock_time": t.lock_time,
                  "ins": [{"prev": i.previous_hash, "index": i.previous_index, "script": bytes(i.script), "sequence": i.sequence,
                           "witness": [bytes(w) for w in i.witness]} for i in t.txs_in],
                  "outs": [{"value": o.coin_value, "script": bytes(o.script)} for o in t.txs_out]}
        out, digests = [], []
        self.last_logs = []
        for i, ti in enumerate(ref_tx["ins"]):
            u = t.unspents[i] if i < len(t.unspents) else None
            if u is None:
                out.append(False)
                digests.append(None)
                self.last_logs.append(None)
                continue
            log = []
            chk = c05.ForkChecker(ref_tx, i, u.coin_value, self.fork)
            chk.sighash_log = log
            r = RS.result_of(RS.verify_script, ti["script"], bytes(u.script), ti["witness"], self.ref_flags, chk)
            out.append(r == "OK")
            digests.append(frozenset(e[3] for e in log))
            self.last_logs.append(log)
        return out, digests

    def fresh_verdicts(self):
        fresh = self.net.tx.from_bin(self.tx.as_bin(include_unspents=True))
        return self.live_verdicts(fresh)

    # ----------------------------------------------------------------------------------------------
    def mutations(self):
        """list of (field class, touches(i) -> bool for own-data, apply, undo)"""
        tx, rng = self.tx, self.rng
        n_in, n_out = len(tx.txs_in), len(tx.txs_out)
        M = []

        def setter(obj, attr, new):
            old = getattr(obj, attr)
            return (lambda: setattr(obj, attr, new)), (lambda: setattr(obj, attr, old))

        def flip_bytes(b, pos=None):
            b = bytearray(b)
            pos = rng.randrange(len(b)) if pos is None else pos
            b[pos] ^= 1 << rng.randrange(8)
            return bytes(b)

        for bit in rng.sample(range(32), 3):
            M.append(("version",) + setter(tx, "version", flip(tx.version, bit)))
            M.append(("lock_time",) + setter(tx, "lock_time", flip(tx.lock_time, bit)))
        for i, ti in enumerate(tx.txs_in):
            M.append(("outpoint_hash:%d" % i,) + setter(ti, "previous_hash", flip_bytes(ti.previous_hash)))
            M.append(("outpoint_index:%d" % i,) + setter(ti, "previous_index", flip(ti.previous_index, rng.randrange(32))))
            M.append(("sequence:%d" % i,) + setter(ti, "sequence", flip(ti.sequence, rng.randrange(32))))
            # unlocking data is outside every commitment: an extra leading push changes this input's own fate at most
            M.append(("unlock_script:%d" % i,) + setter(ti, "script", b"\x00" + bytes(ti.script)))
        for j, to in enumerate(tx.txs_out):
            M.append(("out_amount:%d" % j,) + setter(to, "coin_value", flip(to.coin_value, rng.randrange(50))))
            if len(to.script):
                M.append(("out_script:%d" % j,) + setter(to, "script", flip_bytes(to.script)))
            M.append(("out_script_append:%d" % j,) + setter(to, "script", bytes(to.script) + b"\x61"))
        for i, u in enumerate(tx.unspents):
            M.append(("spent_amount:%d" % i,) + setter(u, "coin_value", max(1, flip(u.coin_value, rng.randrange(40)))))
            M.append(("spent_script:%d" % i,) + setter(u, "script", flip_bytes(u.script)))
        # structural mutations
        Tx = self.net.tx

        def list_op(name, fn):
            saved = {}

            def apply():
                saved["ins"], saved["outs"], saved["uns"] = list(tx.txs_in), list(tx.txs_out), list(tx.unspents)
                fn()

            def undo():
                tx.txs_in[:], tx.txs_out[:], tx.unspents[:] = saved["ins"], saved["outs"], saved["uns"]
            M.append((name, apply, undo))

        def add_output():
            tx.txs_out.insert(rng.randrange(n_out + 1), Tx.TxOut(rng.choice([1, 5000]), b"\x51"))

        def del_output():
            if len(tx.txs_out) > 0:
                del tx.txs_out[rng.randrange(len(tx.txs_out))]

        def swap_outputs():
            if len(tx.txs_out) > 1:
                a, b = rng.sample(range(len(tx.txs_out)), 2)
                tx.txs_out[a], tx.txs_out[b] = tx.txs_out[b], tx.txs_out[a]

        def add_input():
            k = rng.randrange(n_in + 1)
            tx.txs_in.insert(k, Tx.TxIn(G.rand_prev(rng), 0, b"\x51", 0xffffffff))
            tx.unspents.insert(k, Tx.TxOut(1000, b"\x51"))

        def del_input():
            if len(tx.txs_in) > 1:
                k = rng.randrange(len(tx.txs_in))
                del tx.txs_in[k]
                del tx.unspents[k]

        def swap_inputs():
            if len(tx.txs_in) > 1:
                a, b = rng.sample(range(len(tx.txs_in)), 2)
                tx.txs_in[a], tx.txs_in[b] = tx.txs_in[b], tx.txs_in[a]
                tx.unspents[a], tx.unspents[b] = tx.unspents[b], tx.unspents[a]

        def swap_unlock():
            if len(tx.txs_in) > 1:
                a, b = rng.sample(range(len(tx.txs_in)), 2)
                A, B = tx.txs_in[a], tx.txs_in[b]
                A.script, B.script = B.script, A.script
                A.witness, B.witness = B.witness, A.witness

        def drop_unspent():
            k = rng.randrange(len(tx.unspents))
            tx.unspents[k] = None

        def truncate_unspents():
            del tx.unspents[-1]

        for name, fn in (("add_output", add_output), ("del_output", del_output), ("swap_outputs", swap_outputs), ("add_input", add_input),
                         ("del_input", del_input), ("swap_inputs", swap_inputs), ("swap_unlock", swap_unlock), ("drop_unspent", drop_unspent),
                         ("truncate_unspents", truncate_unspents)):
            list_op(name, fn)
        # swap_unlock mutates TxIn objects in place: its undo must restore them too
        return M

    # ---------------------------------------------------------------------------------------------- round 4
    @staticmethod
    def _v(x):
        return bytes(x) if isinstance(x, (bytes, bytearray)) else (x if isinstance(x, int) and not isinstance(x, bool) else repr(x))

    def frame6(self, tx=None):
        """everything the caller can see of the transaction object, field by field (tolerant of the unusable values the refused calls plant)"""
        t, v = tx or self.tx, self._v
        return {"version": v(t.version), "lock_time": v(t.lock_time),
                "outpoints": [(v(i.previous_hash), v(i.previous_index)) for i in t.txs_in],
                "sequences": [v(i.sequence) for i in t.txs_in],
                "unlock": [(v(i.script), None if i.witness is None else [v(w) for w in i.witness]) for i in t.txs_in],
                "outs": [(v(o.coin_value), v(o.script)) for o in t.txs_out],
                "unspents": [None if u is None else (v(u.coin_value), v(u.script)) for u in t.unspents]}

    @staticmethod
    def frame_diff(a, b):
        return sorted(k for k in a if a[k] != b[k])

    def coinbase_shaped(self):
        """exactly one input and it carries the null outpoint: a coinbase transaction. It spends nothing, pycoin validates no input of
        it by design, and the statement's 'signed inputs' are not there to be judged"""
        ins = self.tx.txs_in
        return len(ins) == 1 and ins[0].previous_hash == ZERO32 and ins[0].previous_index == 0xffffffff

    def twin(self, where):
        """the same transaction and recorded spent outputs in brand-new objects, of this network's class or of another coin's"""
        tx = self.tx
        cls = self.net.tx
        if where == "foreign":
            from pycoin.networks.registry import network_for_netcode
            cls = network_for_netcode(self.rng2.choice([c for c in ("BTC", "LTC", "BCH", "BTG", "GRS", "DOGE") if c != self.netcode])).tx
        t = cls.from_bin(tx.as_bin())
        t.unspents = [None if u is None else cls.TxOut(u.coin_value, u.script) for u in tx.unspents]
        return t

    def refused_call(self, kind=None, site=None):
        """ERROR-PATH STATE: plant a value the library cannot process (it does not fit its wire field, or is of the wrong type) in
        the live object, in a twin of it, or in a twin under another coin's class; call every validation entry point (a refusal -
        or none - is never judged); take the value out again. Whatever the library left behind anywhere in the process must not
        change the verdicts of the judged validation that follows. Returns a short description."""
        rec, rng, tx = self.rec, self.rng2, self.tx
        where = rng.choice(["same", "copy", "copy", "foreign"])
        t = tx
        if where != "same":
            st, t = observe(self.twin, where)
            if st != "ok":
                where, t = "same", tx
        kind = kind or rng.choice(REFUSAL_KINDS)
        n_in, n_out = len(t.txs_in), len(t.txs_out)
        if (kind in ("out_amount", "out_script") and not n_out) or not n_in:
            kind = "version"
        # (sites biased to the later positions: the refusal then comes part-way through, after something was already processed)
        i = max(rng.randrange(n_in), rng.randrange(n_in)) if site is None or site >= n_in else site
        j = (max(rng.randrange(n_out), rng.randrange(n_out)) if site is None or site >= n_out else site) if n_out else 0
        if kind in ("spent_amount", "spent_script") and (i >= len(t.unspents) or t.unspents[i] is None):
            kind = "sequence"
        unusable_int = [2 ** 64, 2 ** 64 + rng.randrange(1, 9), -1, None, 1.5, "7"]
        unusable_u32 = [2 ** 32, 2 ** 32 + rng.randrange(1, 9), -1, None, 0.5, "1"]
        unusable_bytes = [None, "text", 7, [1, 2]]
        plan, kw = [], {} if self.use_flags is None else {"flags": self.use_flags}
        if kind == "out_amount":
            plan = [(t.txs_out[j], "coin_value", rng.choice(unusable_int))]
        elif kind == "out_script":
            plan = [(t.txs_out[j], "script", rng.choice(unusable_bytes))]
        elif kind == "sequence":
            plan = [(t.txs_in[i], "sequence", rng.choice(unusable_u32))]
        elif kind == "outpoint_index":
            plan = [(t.txs_in[i], "previous_index", rng.choice(unusable_u32))]
        elif kind == "outpoint_hash":
            plan = [(t.txs_in[i], "previous_hash", rng.choice([None, "00" * 32, 5]))]
        elif kind == "spent_amount":
            plan = [(t.unspents[i], "coin_value", rng.choice(unusable_int))]
        elif kind == "spent_script":
            plan = [(t.unspents[i], "script", rng.choice(unusable_bytes))]
        elif kind == "version":
            plan = [(t, "version", rng.choice(unusable_u32))]
        elif kind == "lock_time":
            plan = [(t, "lock_time", rng.choice(unusable_u32))]
        elif kind == "unlock_script":
            plan = [(t.txs_in[i], "script", rng.choice(unusable_bytes))]
        elif kind == "witness_item":
            w = list(t.txs_in[i].witness)
            plan = [(t.txs_in[i], "witness", rng.choice([None, [None] + w, w + ["text"], [7]]))]
        elif kind == "bytearray_fields":
            plan = ([(x, "script", bytearray(x.script)) for x in list(t.txs_in) + list(t.txs_out) + [u for u in t.unspents if u is not None]]
                    + [(x, "previous_hash", bytearray(x.previous_hash)) for x in t.txs_in]
                    + [(x, "witness", [bytearray(w) for w in x.witness]) for x in t.txs_in])
        elif kind == "flags":
            kw = {"flags": rng.choice(["x", 1.5, [1]])}
        saved_unspents = list(t.unspents)
        if kind == "unknown_unspent":
            if rng.random() < 0.5 and i < len(t.unspents):
                t.unspents[i] = None
            elif t.unspents:
                del t.unspents[-1]
        old = [(o, a, getattr(o, a)) for o, a, _ in plan]
        for o, a, val in plan:
            setattr(o, a, val)
        before = self.frame6(t)
        order = list(range(n_in)) + [n_in + rng.randrange(3)]
        rng.shuffle(order)
        raised = 0
        for k in order:
            st, _ = observe(t.is_solution_ok, k, **kw)
            raised += st != "ok"
        if rng.random() < 0.5:
            st, _ = observe(t.bad_solution_count, **kw)
            raised += st != "ok"
        rec.ev("refused_call")
        rec.ev("refused_call:" + ("raised" if raised else "answered"))
        rec.ev("refused_kind:" + kind)
        rec.ev("refused_on:" + where)
        after = self.frame6(t)
        desc = "%s@%d/%d on %s" % (kind, i, j, where)
        if after != before:
            # a refused (or answered) validation is a read: the object handed in looks afterwards as it did before
            rec.violation("refused_validation_edits_object." + ".".join(self.frame_diff(before, after)), self.case({"mutations": list(self.mlog), "refused": desc}),
                          {k: after[k] for k in self.frame_diff(before, after)}, {k: before[k] for k in self.frame_diff(before, after)})
        for o, a, val in old:
            setattr(o, a, val)
        t.unspents[:] = saved_unspents
        return desc, kind, i, j

    def verdicts_after_refused_call(self, state_ref, hts):
        """between two steps (the object is in a state whose reference verdicts are known): a refused call somewhere in the process,
        then the verdicts of the live object - the ones it had before, whatever was refused in between"""
        rec = self.rec
        desc = self.refused_call()[0]
        live = self.live_verdicts()
        rec.ev("Tx.is_solution_ok", len(live))
        rec.ev("unchanged_state_judged_right_after_refused_call")
        if len(live) != len(state_ref):
            rec.ev("inconclusive:harness.state_reference_out_of_step")
            rec.note("state reference out of step: %d verdicts, %d expected, coord %r after %r" % (len(live), len(state_ref), getattr(self, "coord", None), self.mlog))
            return
        for i, (lv, rv) in enumerate(zip(live, state_ref)):
            u = self.tx.unspents[i] if i < len(self.tx.unspents) else None
            if u is None and lv is not True:
                continue        # spent output unknown: "never reported valid" is all the statement asks (a refusal is fine)
            if lv is not rv:
                direction = "accepts_tampered" if lv is True else ("rejects_untouched" if lv is False else "raises")
                rec.violation("%s.right_after_refused_call" % direction, self.case({"mutations": list(self.mlog), "refused": desc, "hash_type_names": hts}),
                              {"input": i, "pycoin": lv}, {"reference": rv})

    def extra_mutations(self):
        """round 4. (D) special constants and two rare conditions at once: the null outpoint (all-zero hash AND index 2^32-1) written
        into an input or inserted as a new input, first position or not, its spent output unknown or recorded; every field set to
        the extreme / special constants of its wire type; script lengths, output and input counts moved onto the compact-size
        boundaries. (A) error-path state: a refused call, then the untouched transaction - or the one tampering that would
        'complete' what the interrupted call had begun to serialise (the leading outputs / inputs removed)."""
        tx, rng, rec = self.tx, self.rng2, self.rec
        Tx = self.net.tx
        n_in, n_out = len(tx.txs_in), len(tx.txs_out)
        E = []

        def fields(name, plan):
            old = []

            def apply():
                # (the values to go back to are those of the moment: an accumulating history may have changed them since)
                old[:] = [(o, a, getattr(o, a)) for o, a, _ in plan]
                for o, a, val in plan:
                    setattr(o, a, val)

            def undo():
                for o, a, val in old:
                    setattr(o, a, val)
            E.append((name, apply, undo))

        def lists(name, fn):
            saved = {}

            def apply():
                saved["ins"], saved["outs"], saved["uns"] = list(tx.txs_in), list(tx.txs_out), list(tx.unspents)
                fn()

            def undo():
                tx.txs_in[:], tx.txs_out[:], tx.unspents[:] = saved["ins"], saved["outs"], saved["uns"]
            E.append((name, apply, undo))

        # -- the null outpoint --------------------------------------------------------------------
        if n_in >= 2:
            for k in sorted({0, rng.randrange(1, n_in)} if rng.random() < 0.3 else {0}):
                fields("null_outpoint:%d" % k, [(tx.txs_in[k], "previous_hash", ZERO32), (tx.txs_in[k], "previous_index", 0xffffffff)])

        def add_null_input():
            k = 0 if rng.random() < 0.7 else rng.randrange(len(tx.txs_in) + 1)
            known = rng.random() < 0.5
            tx.txs_in.insert(k, Tx.TxIn(ZERO32, 0xffffffff, rng.choice([b"\x51", b"\x51\x51", b""]), rng.choice([0xffffffff, 0])))
            while len(tx.unspents) < k:
                tx.unspents.append(None)
            tx.unspents.insert(k, Tx.TxOut(1000, b"\x51") if known else None)
            rec.ev("add_null_input:%s:%s" % ("first" if k == 0 else "later", "spent_output_known" if known else "spent_output_unknown"))
        lists("add_null_input", add_null_input)

        # -- special constants --------------------------------------------------------------------
        field = rng.choice(SPECIAL_FIELDS)
        i, j = rng.randrange(n_in), rng.randrange(n_out)
        u32 = [0, 1, 0x7fffffff, 0x80000000, 0xfffffffe, 0xffffffff]
        if field == "version":
            plan = [(tx, "version", rng.choice(u32))]
        elif field == "lock_time":
            plan = [(tx, "lock_time", rng.choice(u32 + [499999999, 500000000]))]
        elif field == "sequence":
            plan = [(tx.txs_in[i], "sequence", rng.choice(u32 + [1 << 22, 1 << 31 | 1 << 22]))]
        elif field == "outpoint_index":
            plan = [(tx.txs_in[i], "previous_index", rng.choice(u32))]
        elif field == "outpoint_hash":
            plan = [(tx.txs_in[i], "previous_hash", rng.choice([ZERO32, b"\xff" * 32, bytes(31) + b"\x01", b"\x01" + bytes(31)]))]
        elif field == "out_amount":
            plan = [(tx.txs_out[j], "coin_value", rng.choice([0, 1, 2 ** 32 - 1, 2 ** 32, 2 ** 63 - 1, 2 ** 63, 2 ** 64 - 1, 21 * 10 ** 14]))]
        elif field == "out_script":
            plan = [(tx.txs_out[j], "script", rng.choice([b"", b"\x00", b"\x6a", b"\xff"]))]
        else:
            i = rng.choice([k for k, u in enumerate(tx.unspents) if u is not None])
            plan = [(tx.unspents[i], "coin_value", rng.choice([1, 2 ** 32 - 1, 2 ** 32, 2 ** 63, 2 ** 64 - 1]))]
        if all(getattr(o, a) != val for o, a, val in plan):
            fields("special_value:%d:%s" % (i if field in ("sequence", "outpoint_index", "outpoint_hash", "spent_amount") else j, field), plan)

        # -- compact-size boundaries ---------------------------------------------------------------
        r = rng.random()
        if r < 0.2:
            n = rng.choice([252, 253, 254, 252, 253, 254, 65535, 65536])
            fields("compact_size:%d:out_script_len" % j, [(tx.txs_out[j], "script", b"\x6a" + bytes([rng.randrange(256)]) * (n - 1))])
        elif r < 0.36:
            n = rng.choice([252, 253, 254])
            lists("compact_size:%d:out_count" % n, lambda: tx.txs_out.extend(Tx.TxOut(k, b"\x51") for k in range(n - len(tx.txs_out))))
        elif r < 0.4:
            n = rng.choice([252, 253, 254])

            def in_count():
                for k in range(n - len(tx.txs_in)):
                    tx.txs_in.append(Tx.TxIn(bytes([1 + k % 255]) * 32, k, b"", 0xffffffff))
                    tx.unspents.append(Tx.TxOut(1000, b"\x51"))
            lists("compact_size:%d:in_count" % n, in_count)

        # -- a refused call, then a judged validation ------------------------------------------------
        # (the untouched transaction right after a refused call is judged between the steps: verdicts_after_refused_call)
        def completion():
            kind = rng.choice(["out_amount", "out_amount", "sequence", "outpoint_index"])
            n = len(tx.txs_out) if kind == "out_amount" else len(tx.txs_in)
            site = rng.randrange(1, n) if n > 1 else 0
            self.poisoned, _, i, j = self.refused_call(kind, site)
            if kind == "out_amount":
                del tx.txs_out[:j]
            else:
                del tx.txs_in[:i]
                del tx.unspents[:i]
        if rng.random() < 0.8:
            lists("after_refusal:1:completion", completion)
        return E

    def snapshot_unlock(self):
        return [(ti, bytes(ti.script), tuple(ti.witness)) for ti in self.tx.txs_in]

    def restore_unlock(self, snap):
        for ti, s, w in snap:
            ti.script, ti.witness = s, list(w)

    def foreign_network_check(self, ht):
        """the same signed bytes loaded under another coin's transaction class: signatures made for one coin validate under
        another exactly when that coin's digest and hash-type rules say so (a BTC signature never validates on BCH/BTG/GRS)"""
        from pycoin.networks.registry import network_for_netcode
        rec = self.rec
        blob = self.tx.as_bin(include_unspents=True)
        for code in self.rng.sample(["BTC", "LTC", "BCH", "BTG", "GRS", "DOGE"], 2):
            if code == self.netcode:
                continue
            other = network_for_netcode(code)
            fork = c05.FORK.get(code, ("grs", 0) if code in c05.GRS_NETS else ("", 0))
            st, tx2 = observe(other.tx.from_bin, blob)
            if st != "ok":
                rec.violation("foreign_network.parse_raises", self.case({"other": code}), tx2, "transaction")
                continue
            flags = (self.flags & ~RS.STRICTENC) if fork[0] in ("bch", "btg") else self.flags
            rt = {"version": tx2.version & 0xffffffff, "lock_time": tx2.lock_time,
                  "ins": [{"prev": i.previous_hash, "index": i.previous_index, "script": bytes(i.script), "sequence": i.sequence,
                           "witness": [bytes(w) for w in i.witness]} for i in tx2.txs_in],
                  "outs": [{"value": o.coin_value, "script": bytes(o.script)} for o in tx2.txs_out]}
            for i, p in enumerate(self.puzzles):
                chk = c05.ForkChecker(rt, i, p.amount, fork)
                ref = RS.result_of(RS.verify_script, rt["ins"][i]["script"], p.spk, rt["ins"][i]["witness"], flags, chk) == "OK"
                stv, got = observe(tx2.is_solution_ok, i, flags=flags)
                rec.ev("foreign_network_validation")
                rec.ev("foreign_network.%s" % ("valid" if ref else "invalid"))
                plain_on_forkid = fork[0] in ("bch", "btg") and not self.forkcoin
                if plain_on_forkid:
                    rec.ev("foreign_network.signature_without_fork_id_on_fork_id_coin")
                if stv != "ok" or bool(got) is not ref:
                    rec.violation("foreign_network.%s_signature_%s_on_%s" % (
                        self.fork[0] or "btc", "accepted" if (stv == "ok" and got) else "rejected_or_raises", fork[0] or "btc"),
                        self.case({"other": code, "input": i, "hash_type_name": ht}), got, ref)

    # ----------------------------------------------------------------------------------------------
    def run(self):
        rec, rng = self.rec, self.rng
        if not self.sign_all():
            return
        base_live = self.live_verdicts()
        base_ref, base_dig = self.ref_verdicts()
        if not all(v is True for v in base_live) or not all(base_ref):
            rec.violation("setup.signed_tx_not_valid", self.case(), [base_live, base_ref], "all inputs valid")
            return
        self.label_inputs()
        tx = self.tx
        hts = "/".join(self.ht[id(ti)] for ti in tx.txs_in)
        self.foreign_network_check(hts)
        self.database_check()
        muts = self.mutations()
        rng.shuffle(muts)
        if self.stratum is not None:
            budget, accumulate = len(muts), False       # the whole list, each step undone: the cells are per single-field change
            rec.ev("stratified_history:%s" % HT_NAMES[self.stratum])
        else:
            budget, accumulate = min(len(muts), 40), rng.random() < 0.45
        rec.ev("flags:" + ("standard" if self.use_flags is not None else "default"))
        rec.ev("history:" + ("accumulating" if accumulate else "undoing"))
        steps = [(m, False) for m in muts[:budget]]
        if self.rng2 is not None:
            # round 4 steps: drawn from the second stream, spread over the history, always undone (also in an accumulating
            # history, whose own course they leave as it was)
            for m in self.extra_mutations():
                steps.insert(self.rng2.randrange(len(steps) + 1), (m, True))
        state_ref = list(base_ref)       # reference verdicts of the state the object is in between two steps
        for (name, apply, undo), extra in steps:
            cls = name.split(":")[0]
            target = int(name.split(":")[1]) if ":" in name else None
            usnap = self.snapshot_unlock()
            self.poisoned = None
            if self.rng2 is not None and state_ref is not None and self.rng2.random() < 0.2:
                self.verdicts_after_refused_call(state_ref, hts)
            try:
                apply()
            except (IndexError, ValueError):
                # the shape changed under an accumulated history; this mutation no longer applies (it may have been applied in part:
                # the state's reference verdicts are unknown until the next accumulated step)
                if extra:
                    observe(undo)
                else:
                    state_ref = None
                continue
            if self.coinbase_shaped():
                # (reached when an accumulating history has cut the transaction down to one input)
                rec.ev("coinbase_shape:not_judged")
                if extra or not accumulate:
                    undo()
                    self.restore_unlock(usnap)
                else:
                    state_ref = None
                continue
            if self.rng2 is not None and self.poisoned is None and self.rng2.random() < 0.1:
                # error-path state: a refused call on this object / a twin / a twin under another coin's class right before
                # the judged validation of this step
                self.poisoned = self.refused_call()[0]
            self.mlog.append(name if self.poisoned is None else "%s after refused call %s" % (name, self.poisoned))
            rec.ev("mutation:" + cls)
            if self.poisoned is not None:
                rec.ev("judged_right_after_refused_call")
            if cls == "null_outpoint" and target == 0:
                rec.ev("null_outpoint_first_of_many_judged")
            if cls in ("special_value", "compact_size"):
                rec.ev("%s:%s" % (cls, name.split(":")[2]))
            frame0 = self.frame6()
            live = self.live_verdicts()
            ref, dig = self.ref_verdicts()
            rec.ev("Tx.is_solution_ok", len(live))
            if not extra and len(live) > 1 and all(u is not None for u in tx.unspents) and len(tx.unspents) == len(tx.txs_in):
                # (the round 4 steps leave the shared-instance entry point out: budget)
                order = list(range(len(live)))
                self.rng.shuffle(order)
                shared = self.shared_checker_verdicts(self.ref_flags if self.use_flags is None else self.use_flags, order)
                # shared_checker_verdicts returns verdicts indexed by input
                if shared != live:
                    rec.violation("shared_checker_instance_differs." + cls, self.case({"mutations": list(self.mlog), "order": order}), shared, live)
            case = self.case({"mutations": list(self.mlog), "hash_type_names": hts, "flags": "standard" if self.use_flags is not None else "default"})
            rec.case((self.netcode, tuple(sorted(self.kinds)), hts, cls, accumulate and len(self.mlog)), nontrivial=True)
            same_shape = len(live) == len(base_live)
            for i, (lv, rv) in enumerate(zip(live, ref)):
                u = tx.unspents[i] if i < len(tx.unspents) else None
                if u is None:
                    rec.ev("missing_unspent_checked")
                    rec.ev("missing_unspent:" + ("none" if i < len(tx.unspents) else "list_too_short"))
                    if lv is True:      # "never reported valid": a refusal by exception does not report it valid either
                        rec.violation("missing_spent_output_reported_valid", case, lv, False)
                    continue
                ht = self.ht.get(id(tx.txs_in[i]), "unsigned")
                rec.ev("outcome:%s:%s" % (ht, "valid" if rv else "invalid"))
                if not accumulate and same_shape:
                    lab = cell_label(cls, target, i)
                    if lab is not None:
                        rec.ev("cell:%s:%s:%s:%s" % (self.sv.get(id(tx.txs_in[i]), "unsigned"), ht, lab, "valid" if rv else "invalid"))
                if lv is not rv:
                    direction = "accepts_tampered" if lv is True else ("rejects_untouched" if lv is False else "raises")
                    rec.violation("%s.%s.%s%s" % (direction, cls, ht, ".after_refused_call" if self.poisoned and cls != "after_refusal" else ""),
                                  case, {"input": i, "pycoin": lv}, {"reference": rv})
            # digest-commitment consistency of the oracle itself (same shape only): unchanged digests + untouched own data => still valid
            if same_shape and not accumulate and cls not in ("swap_unlock", "swap_inputs", "add_input", "del_input"):
                for i in range(len(live)):
                    own = (name in ("spent_script:%d" % i, "spent_amount:%d" % i, "unlock_script:%d" % i, "special_value:%d:spent_amount" % i)
                           or cls in ("drop_unspent", "truncate_unspents"))
                    if base_dig[i] is not None and dig[i] is not None and not own:
                        if dig[i] == base_dig[i] and base_ref[i] and not ref[i]:
                            rec.ev("inconclusive:oracle.commitment_inconsistent.unchanged_digest_but_invalid")
                            rec.note("reference oracle contradicts itself (unchanged digest but invalid): %s input %d coord %r" % (name, i, case.get("coord")))
                        if dig[i] and base_dig[i] and not (dig[i] & base_dig[i]) and ref[i]:
                            rec.ev("inconclusive:oracle.commitment_inconsistent.changed_digest_but_valid")
                            rec.note("reference oracle contradicts itself (changed digest but valid): %s input %d coord %r" % (name, i, case.get("coord")))
            # statelessness: a fresh object gives the same verdicts
            if all(u is not None for u in tx.unspents) and len(tx.unspents) == len(tx.txs_in) and len(tx.txs_in) > 0:
                st, fresh = observe(self.fresh_verdicts)
                rec.ev("fresh_object_compared")
                if st != "ok":
                    rec.violation("fresh_object.raises.%s" % type(fresh).__name__, case, fresh, live)
                elif fresh != live:
                    rec.violation("fresh_object.verdict_differs.%s" % cls, case, {"live": live}, {"fresh": fresh})
            st, bad = observe(tx.bad_solution_count, **({} if self.use_flags is None else {"flags": self.use_flags}))
            rec.ev("Tx.bad_solution_count")
            want = sum(1 for v in live if v is not True)
            if st == "ok" and bad != want:
                rec.violation("bad_solution_count_inconsistent", case, bad, want)
            # validation is a read: the caller's object (its lists, every field) is afterwards what the caller made it
            frame1 = self.frame6()
            rec.ev("object_unchanged_by_validation_checked")
            if frame1 != frame0:
                d = self.frame_diff(frame0, frame1)
                rec.violation("validation_edits_object." + ".".join(d), case, {k: frame1[k] for k in d}, {k: frame0[k] for k in d})
            if extra or not accumulate:
                undo()
                self.restore_unlock(usnap)
                self.mlog.pop()
            else:
                state_ref = list(ref)
        # after undoing everything the live object must be valid again (repeating validation gives the fresh verdict)
        if not accumulate:
            again = self.live_verdicts()
            rec.ev("revalidated_after_undo")
            if again != base_live:
                rec.violation("stateful.verdict_after_undo_differs", self.case(), again, base_live)
        rec.ev("net:" + self.netcode)


def history_for(rec, seed, tier, shard, k, code):
    """the k-th history of a shard is a function of (seed, tier, shard, k) and its network alone, so a stored case re-runs exactly"""
    from pycoin.networks.registry import network_for_netcode
    rng = shard_rng(seed, PROPERTY, tier, shard, salt=k)
    if not _KEYS:
        _KEYS.append(G.Keys(24))
    h = Tamper(rec, network_for_netcode(code), code, rng, _KEYS[0], std_flags=((k + shard) % 2 == 0), stratum=stratum_for(shard, k))
    h.coord = [seed, tier, shard, k]
    h.rng2 = shard_rng(seed, PROPERTY, tier, shard, salt="round4:%d" % k)
    return h


_KEYS = []


def run_shard(spec, rec):
    rec.require("Tx.is_solution_ok", "Tx.bad_solution_count", "fresh_object_compared", "revalidated_after_undo",
                "missing_unspent_checked", "missing_unspent:none", "missing_unspent:list_too_short",
                "foreign_network_validation", "foreign_network.valid", "foreign_network.invalid",
                "foreign_network.signature_without_fork_id_on_fork_id_coin",
                "Tx.unspents_from_db(poisoned)", "SolutionChecker.check_solution(shared instance)",
                "flags:standard", "flags:default", "history:accumulating", "history:undoing",
                "sign_mode:uniform", "sign_mode:per_input", "sign_mode:per_signature",
                "mixed_hash_types_in_one_input", "inputs_of_different_hash_types")
    rec.require(*["mutation:" + c for c in MUTATION_CLASSES])
    rec.require("null_outpoint_first_of_many_judged", "add_null_input:first:spent_output_unknown", "add_null_input:first:spent_output_known",
                "judged_right_after_refused_call", "unchanged_state_judged_right_after_refused_call", "refused_call:raised", "refused_on:same", "refused_on:copy", "refused_on:foreign",
                "object_unchanged_by_validation_checked", "database_argument_unchanged_checked",
                "signed_boundary:out_script_len", "signed_boundary:out_amount")
    rec.require(*["special_value:" + f for f in SPECIAL_FIELDS])
    rec.require(*["compact_size:" + f for f in COMPACT_KINDS])
    rec.require(*["refused_kind:" + f for f in REFUSAL_KINDS])
    rec.require(*["kind:" + k for k in PUZZLE_KINDS])
    core, o1, o2 = c05.networks_for_slot(spec["slot"] + spec["seed"])
    nets = [core] * 6 + [o1]        # histories 0..2 (the stratified ones) are always on the shard's core network
    for k in range(spec["n"]):
        code = nets[k % len(nets)]
        h = history_for(rec, spec["seed"], spec["tier"], spec["shard"], k, code)
        try:
            h.run()
        except Exception as e:
            import traceback
            rec.violation("history.crash.%s" % type(e).__name__, h.case({"tb": traceback.format_exc()[-1500:], "mutations": h.mlog}), repr(e), "no exception")
        if k in (0, 3):
            rec.sample({"net": code, "puzzles": [p.brief() for p in getattr(h, "puzzles", [])], "hash_types": h.hash_types, "sign_mode": h.sign_mode,
                        "stratum": h.stratum, "mutations_applied": h.mlog[:8]})


def post_merge_requirements():
    """both outcomes for each hash type, and every cell of the statement's commitment table with its outcome (checked by the
    runner on the merged counters)"""
    return (["outcome:%s:%s" % (ht, o) for ht in SIX + ("mixed",) for o in ("valid", "invalid")]
            + ["stratified_history:" + ht for ht in SIX] + required_cells())


def replay_case(case, rec):
    """re-run exactly the stored history: its generator is a function of (seed, tier, shard, k)"""
    seed, tier, shard, k = case["coord"]
    h = history_for(rec, seed, tier, shard, k, case["net"])
    try:
        h.run()
    except Exception as e:
        rec.violation("history.crash.%s" % type(e).__name__, h.case(), repr(e), "no exception")
    rec.note("mutations replayed: %d" % len(h.mlog))
