"""C01 - ECDSA: deterministic signatures verify for the signer and for nobody else.

Monitors (oracles at the API boundary, reference = vmon/refs/{ec,rfc6979,ecdsa}.py):
  sign / sign_with_recid   (d, z) -> (r, s[, recid]) vs the reference RFC 6979 signature, range, reference verification
  deterministic_generate_k called directly on every signing event and tapped as signing calls it: (n, d, z) -> k vs the
                           reference nonce; nonce reuse table (tapped k) and r reuse table (always) on 256-bit curves
  verify                   truth table vs the literal verification equation, incl. out-of-range r/s, forgery families
                           and the degenerate r = -z/d whose verification point is the point at infinity
                           and the doubling case z = r*d (both terms the same point), hand-built nonce x >= n
  recovery                 every returned key reference-verifies; signer present when x(R) < n (also for the (r, n-s)
                           twin, for z = r*d, and when the other candidate is the point at infinity); y_parity selects R
  Key.sign / Key.verify    the DER layer on top
on secp256k1 / secp256r1 (OpenSSL worker, PYCOIN_NATIVE=none worker, in-process pure Generator) and exhaustively on
toy curves; plus the valgrind memcheck leg over the ctypes/libcrypto path.
"""
import hashlib
import itertools

from vmon.probe import shard_rng, observe
from vmon.refs import ec, ecdsa as RE, rfc6979 as RN
from vmon import memcheck

PROPERTY = "C01"
LEVEL = "exploration"
TECHNIQUE = ("differential runtime monitor vs independent RFC 6979 / SEC 1 reference on independent curve arithmetic; "
             "exhaustive truth tables on toy curves; nonce tap + reuse table; valgrind memcheck on the libcrypto path")
RULE = ("a case is one monitored call: a signing event (curve, configuration, d, z), a verification event (Q, z, r, s), a "
        "recovery event (z, r, s, y_parity) or a Key-layer event. Keys d from {1, 2, 3, n-1, n-2, 2^k, 2^k+-1, random}, hashes z "
        "from {1, 2, n-1, n, n+1, 2^255, 2^256-1, random}; every valid signature spawns forgeries (other key, other hash, "
        "r/s in {0, n, n+r, 2^256-1}, swapped, s->n-s, Q->-Q, z->z+-n, r+1, degenerate r=-z/d); every 4th family adds hand-built "
        "valid signatures with z = r*d (verification sum is a doubling) and z = -r*d/2 (one recovery candidate is infinity), "
        "every 6th one with nonce x in [n, p). Toy curves: every d, z over "
        "every residue and every top-bit pattern, every (r, s) in [0, n+1]^2. Distinct by (kind, curve, configuration, "
        "operands); all counted cases are non-trivial (none is a fixed vector of the repository's suite except d=z=1).")
ASSUMPTIONS = [
    "reference arithmetic vmon/refs/ec.py, nonce vmon/refs/rfc6979.py and ECDSA vmon/refs/ecdsa.py are correct; each is "
    "self-tested on every run (RFC 6979 A.1 / A.2.3 / A.2.5 vectors, sign->verify->recover closure and verification "
    "formula == signer-side definition exhaustively on toy curves)",
    "the hash z is the big-endian integer of a 32-byte digest (z in [1, 2^256-1]); the RFC 6979 nonce input is "
    "bits2octets of that 32-byte string: leftmost qlen bits, then reduced mod n (for 256-bit n: z, minus n once if z >= n) - "
    "pycoin's single conditional subtraction is a legitimate reading because bits2int(h1) < 2^qlen < 2n",
    "the signature equation uses e = z mod n, as the property's verification equation ((z/s)G + (r/s)Q on the integer z) "
    "prescribes. SEC 1 / RFC 6979 2.4 would truncate z to its leftmost qlen bits first; for 256-bit orders the two are "
    "identical, they differ only on toy curves, where the property's reading is used",
    "when the first RFC 6979 nonce yields r = 0 or s = 0 (toy curves only) only range and validity are demanded, as the "
    "statement allows (pycoin retries with k+1, the RFC with the next DRBG output)",
    "a signing call that raises is a violation only if some k in [1, n-1] yields a valid signature for (d, z) at all "
    "(on the smallest toy curves a few (d, z) have none)",
    "recovery: a returned point is judged by evaluating the verification equation literally (the identity element as a "
    "'key' is evaluated as the group identity); with y_parity given, returned keys must come from a nonce point of that "
    "parity (the documented meaning of the parameter); exceptions from recovery are judged only when the signer's key had "
    "to be returned",
    "Key.verify is compared with the reference only for well-formed DER; malformed DER is not generated here (C10)",
    "how signing reaches the nonce function (which module attribute, positional or keyword arguments) is not part of the "
    "statement: the nonce function is judged by calling it directly and, when the tap sees signing's own call, on that call; "
    "a call path the tap cannot see is tallied only - the signature itself is always compared with the RFC 6979 signature",
    "every clause / listed kind has a required counter (REQUIRED_*): one that stays at 0 makes the run INCONCLUSIVE, as does "
    "an OpenSSL-planned shard that found the pure arithmetic active (config_active:<curve>/openssl)",
    "libsecp256k1 is not installed in this environment: that configuration is recorded absent",
]
EXPLANATION = ("every signing, verification, recovery and Key-layer call on the real library is compared with the reference; "
               "toy curves are swept exhaustively in-process with the pure Generator; 256-bit curves run in three "
               "configurations; memcheck counts error blocks with libcrypto/ctypes frames")
TIMEOUT = {"quick": 600, "thorough": 3 * 3600}
NONE_ENV = {"PYCOIN_NATIVE": "none"}


def exhaustive(tier):
    return False


def configurations(tier):
    return ["secp256k1+secp256r1 / OpenSSL (default worker)", "secp256k1+secp256r1 / pure Python worker (PYCOIN_NATIVE=none)",
            "secp256k1+secp256r1 / in-process pure Generator(p,a,b,G,n)", "toy curves / in-process pure Generator",
            "valgrind memcheck over the OpenSSL path", "libsecp256k1: absent (not installed)"]


# ---------------------------------------------------------------------------------------------
# plan

def _toy_params(c):
    return [c.p, c.a, c.b, c.G[0], c.G[1], c.n]


def plan(tier, seed):
    shards = []

    def big(cv, gen, families, mode, env=None, count=1):
        label = "%s/%s" % (cv, "pure-env" if env else "inproc-pure" if gen == "inproc" else "openssl")
        for _ in range(count):
            d = {"kind": "big", "curve": cv, "gen": gen, "families": families, "forgeries": mode, "label": label}
            if env:
                d["env"] = env
            shards.append(d)

    if tier == "quick":
        toys = ec.toy_curves(24)
        by_n = {}
        for c in toys:
            by_n.setdefault(c.n, []).append(c)
        rot = seed % 3
        picks = [(by_n[5][rot % len(by_n[5])], 1, True), (by_n[7][rot % len(by_n[7])], 1, True), (by_n[7][-1 - rot], 1, True),
                 (by_n[11][rot % len(by_n[11])], 3, True), (by_n[13][rot % len(by_n[13])], 4, True),
                 (by_n[17][rot % len(by_n[17])], 1, False)]
        # curves whose order is below the field size AND that have points with n <= x < p and x mod n != 0: the only
        # place where "x-coordinate reduced mod n" differs from the x-coordinate itself (r = x - n), and where recovery must
        # refuse / miss the signer (nonce point's x >= n)
        wrap = [c for c in toys if c.n < c.p and any(P[0] >= c.n and P[0] % c.n for P in c.all_points())]
        nplain = len(picks)
        picks.append((wrap[seed % len(wrap)], 1, True))
        picks.append((wrap[(seed * 7 + 11) % len(wrap)], 1, True))
        for j, (c, parts, full) in enumerate(picks):
            for part in range(parts):
                shards.append({"kind": "toy", "curve": _toy_params(c), "part": part, "parts": parts, "full": full, "wrap": j >= nplain,
                               "budget": 6000 if full else 3000, "label": "toy n=%d %d/%d" % (c.n, part + 1, parts)})
        big("secp256k1", "module", 70, "mixed", count=2)
        big("secp256r1", "module", 70, "mixed", count=2)
        big("secp256k1", "module", 8, "lite", env=NONE_ENV, count=3)
        big("secp256r1", "module", 8, "lite", env=NONE_ENV, count=2)
        big("secp256k1", "inproc", 8, "lite", count=2)
        big("secp256r1", "inproc", 8, "lite", count=1)
        shards.append({"kind": "memcheck", "iterations": 12, "vg_timeout": 400, "label": "memcheck"})
        shards.sort(key=lambda s: {"memcheck": 0, "big": 1, "toy": 2}[s["kind"]])
    else:
        toys = ec.toy_curves(80)
        small = [c for c in toys if c.n <= 13]
        rest = [c for c in toys if c.n > 13]
        rng = shard_rng(seed, PROPERTY, tier, "plan")
        for c in small:
            shards.append({"kind": "toy", "curve": _toy_params(c), "part": 0, "parts": 1, "full": True, "budget": 10 ** 9, "wrap": True,
                           "label": "toy n=%d" % c.n})
        for c in rng.sample(rest, 72):
            shards.append({"kind": "toy", "curve": _toy_params(c), "part": 0, "parts": 1, "full": False, "budget": 30000,
                           "label": "toy n=%d sampled" % c.n})
        big("secp256k1", "module", 1000, "mixed", count=8)
        big("secp256r1", "module", 1000, "mixed", count=8)
        big("secp256k1", "module", 80, "lite", env=NONE_ENV, count=10)
        big("secp256r1", "module", 80, "lite", env=NONE_ENV, count=6)
        big("secp256k1", "inproc", 80, "lite", count=6)
        big("secp256r1", "inproc", 80, "lite", count=5)
        shards.append({"kind": "memcheck", "iterations": 300, "vg_timeout": 3000, "label": "memcheck"})
        # long shards first so the tail is short
        shards.sort(key=lambda s: {"memcheck": 0, "big": 1, "toy": 2}[s["kind"]])
    return shards


def selftest(rec):
    out = {"ec": ec.selftest(), "rfc6979": RN.selftest(), "ecdsa": RE.selftest(), "memcheck_parser": memcheck.selftest()}
    return out


# ---------------------------------------------------------------------------------------------
# context: the real generator, its reference curve, the nonce tap

_STATE = {"ctx": {}, "tap": None}
BIG = {"secp256k1": ec.SECP256K1, "secp256r1": ec.SECP256R1}


NONCE_FN = "deterministic_generate_k"


class Tap:
    """records every call of the library's nonce function, wherever signing looks it up (the name imported into
    pycoin.ecdsa.Generator, or the attribute of pycoin.ecdsa.rfc6979). The property does not prescribe HOW signing
    reaches the function, so a call path the tap cannot see is tallied, never reported; the function is also
    called directly (self.fn, the unwrapped original) on every signing event."""

    def __init__(self, rec):
        import pycoin.ecdsa.Generator as GM
        import pycoin.ecdsa.rfc6979 as RM
        self.calls = []
        self.rec = rec
        self.fn = getattr(RM, NONCE_FN, None)
        self.sites = 0
        for mod in (RM, GM):
            orig = mod.__dict__.get(NONCE_FN)
            if callable(orig) and not getattr(orig, "_vmon_tap", False):
                setattr(mod, NONCE_FN, self._wrap(orig))
                self.sites += 1

    def _wrap(self, orig):
        me = self

        def wrapper(*a, **kw):
            me.rec.ev("tap:" + NONCE_FN)
            try:
                r = orig(*a, **kw)
            except BaseException as e:
                me.calls.append((a, kw, None, e))
                raise
            me.calls.append((a, kw, r, None))
            return r
        wrapper.__wrapped__ = orig
        wrapper._vmon_tap = True
        return wrapper

    def bind(self, a, kw):
        """(n, d, z) of a tapped call, or None when the call cannot be read as (order, key, hash[, sha256])."""
        import hashlib
        import inspect
        try:
            ba = inspect.signature(self.fn).bind(*a, **kw)
            ba.apply_defaults()
            vals = list(ba.arguments.values())
        except Exception:
            return None
        if len(vals) < 3 or not all(isinstance(v, int) for v in vals[:3]):
            return None
        if len(vals) > 3 and vals[3] is not hashlib.sha256:
            return None
        return tuple(vals[:3])

    def take(self):
        c, self.calls = self.calls, []
        return c


class Ctx:
    pass


class GeneratorUnavailable(Exception):
    pass


def get_ctx(curve, gen, rec):
    """the generator under test; if the library cannot even build / import it, that is reported as a violation
    (no operation of the property can succeed in that configuration) and the shard ends."""
    try:
        return _get_ctx(curve, gen, rec)
    except GeneratorUnavailable:
        raise
    except Exception as e:
        rec.violation("generator.construction_raises", {"kind": "import", "curve": curve, "gen": gen}, e, "a usable generator object")
        raise GeneratorUnavailable(str(e))


def _get_ctx(curve, gen, rec):
    key = (repr(curve), gen)
    if key in _STATE["ctx"]:
        ctx = _STATE["ctx"][key]
        ctx.rec = rec
        return ctx
    from pycoin.ecdsa.Generator import Generator
    from pycoin.key.Key import Key
    if _STATE["tap"] is None:
        _STATE["tap"] = Tap(rec)
    _STATE["tap"].rec = rec
    ctx = Ctx()
    ctx.rec = rec
    ctx.tap = _STATE["tap"]
    ctx.curve_id = curve
    ctx.gen = gen
    if isinstance(curve, str):
        c = BIG[curve]
        if gen == "module":
            if curve == "secp256k1":
                from pycoin.ecdsa.secp256k1 import secp256k1_generator as g
            else:
                from pycoin.ecdsa.secp256r1 import secp256r1_generator as g
        else:
            g = Generator(c.p, c.a % c.p, c.b, c.G, c.n)
    else:
        p, a, b, gx, gy, n = curve
        c = ec.Curve(p, a, b, (gx, gy), n, "toy(p=%d,a=%d,b=%d,n=%d)" % (p, a, b, n))
        g = Generator(p, a, b, (gx, gy), n)
    ctx.c, ctx.g = c, g
    ctx.toy = not isinstance(curve, str)
    ctx.native_sign = type(g).sign is not Generator.sign
    # "accelerated" = point multiplication is not the pure Curve.multiply any more (whatever the mix-in class is called)
    from pycoin.ecdsa.Curve import Curve as _PureCurve
    ctx.native_mul = (getattr(type(g), "multiply", None) is not _PureCurve.multiply or
                      any(k.__name__ == "Optimizations" and k.__module__.startswith("pycoin.ecdsa.native") for k in type(g).__mro__))
    ctx.cfg = "%s/%s" % (gen, "native-sign" if ctx.native_sign else "openssl" if ctx.native_mul else "pure")
    ctx.KeyClass = Key.make_subclass("VM", None, g)
    ctx.sg_cache = (None, None)
    ctx.nonce_by_k = {}
    ctx.nonce_by_r = {}
    _STATE["ctx"][key] = ctx
    return ctx


def base_case(ctx, kind, **kw):
    d = {"kind": kind, "curve": ctx.curve_id, "gen": ctx.gen}
    d.update(kw)
    return d


# ---------------------------------------------------------------------------------------------
# judges (each takes a plain case dict; replay_case goes through the same functions)

def ref_sign(ctx, d, z):
    key = (d, z)
    if ctx.sg_cache[0] != key:
        ctx.sg_cache = (key, RE.rfc6979_sign(ctx.c, d, z))
    return ctx.sg_cache[1]


def judge_sign(ctx, case):
    """returns (r, s, recid, sg) of a valid pycoin signature, or None."""
    rec, g, c = ctx.rec, ctx.g, ctx.c
    n = c.n
    d, z = case["d"], case["z"]
    ctx.tap.take()
    rec.ev("Generator.sign_with_recid")
    st, out = observe(g.sign_with_recid, d, z)
    taps = ctx.tap.take()
    rec.ev("Generator.sign")
    st2, out2 = observe(g.sign, d, z)
    taps2 = ctx.tap.take()
    rec.case(("sign", ctx.curve_id, ctx.cfg, d, z))
    sg = ref_sign(ctx, d, z)
    e = z % n
    if st != "ok" or st2 != "ok":
        if ctx.toy and not RE.signable(c, d, e):
            rec.ev("sign.no_signature_exists_skipped")
            return None
        mech = "sign.raises"
        exc = out if st != "ok" else out2
        if ctx.toy and isinstance(exc, TypeError) and all(0 in RE.raw_sign(c, d, e, k)[:2] for k in range(sg["k"], n)):
            mech = "sign.raises.retry_reaches_order"      # k += 1 walked from the first nonce up to k = n (point at infinity)
        rec.violation(mech, case, exc, "a signature (one exists, e.g. %r)" % (sg["valid"],))
        return None
    ok = True
    try:
        r, s, recid = out
        r2, s2 = out2
    except Exception:
        rec.violation("sign.malformed_result", case, [out, out2], "(r, s, recid) / (r, s)")
        return None
    if (r, s) != (r2, s2) and not ctx.native_sign and sg["first_ok"]:
        # (on the retry path the statement demands range and validity only, of each call separately)
        rec.violation("sign.sign_and_sign_with_recid_differ", case, [out, out2], "same (r, s)")
        ok = False
    Q = c.mul(d, c.G)
    for (rr, ss, api) in ((r, s, "sign_with_recid"), (r2, s2, "sign")):
        if not (isinstance(rr, int) and isinstance(ss, int) and 1 <= rr < n and 1 <= ss < n):
            rec.violation("sign.out_of_range" + (".s_zero" if ss == 0 else ".r_zero" if rr == 0 else ""), case, [rr, ss], "1 <= r, s < n")
            ok = False
        elif not RE.verify(c, Q, e, rr, ss):
            rec.violation("sign.does_not_verify", case, [rr, ss], "a signature valid under d*G")
            ok = False
    if sg["first_ok"] and ok:
        want = (sg["r"], sg["s"])
        if (r, s) != want:       # sign_with_recid is never overridden natively
            rec.violation("sign.differs_from_rfc6979", dict(case, api="sign_with_recid"), [r, s], want)
            ok = False
        if (r2, s2) != want and not (ctx.native_sign and (r2, n - s2) == want):
            rec.violation("sign.differs_from_rfc6979", dict(case, api="sign"), [r2, s2], want)
            ok = False
    if not sg["first_ok"]:
        rec.ev("sign.first_nonce_unusable(retry path)")
    if sg["first_ok"] and sg["R"][0] >= n:
        rec.ev("sign.nonce_point_x_ge_n(r = x - n)")
    # the nonce function itself, called directly (the unwrapped original) ...
    h1 = z.to_bytes(32, "big")
    if ctx.toy:
        qlen = n.bit_length()
        k0 = RN.bits2int(RN.HmacDrbg(hashlib.sha256, RN.int2octets(d, n) + RN.bits2octets(h1, n)).next_bits(qlen), qlen)
        if not 1 <= k0 < n:
            rec.ev("nonce.first_drbg_output_rejected(RFC 6979 step h.3 loop)")
    if ctx.tap.fn is not None:
        rec.ev("deterministic_generate_k")
        rec.ev("deterministic_generate_k.direct")
        stn, kd = observe(ctx.tap.fn, n, d, z)
        want_k = RN.nonce(n, d, h1)
        if stn != "ok":
            rec.violation("nonce.function_raises", dict(case, api="direct"), kd, want_k)
        elif kd != want_k:
            rec.violation("nonce.differs_from_rfc6979", dict(case, api="direct"), kd, want_k)
    # ... and as signing called it (tap). How signing reaches the function, and with which argument spelling, is not
    # the property's business: calls the tap cannot see or read are tallied; the signature comparison above decides.
    for which, tp, needed in (("sign_with_recid", taps, True), ("sign", taps2, not ctx.native_sign)):
        if needed and not tp:
            rec.ev("nonce.tap_saw_no_call(tallied)")
        for (a, kw, k, exc) in tp:
            rec.ev("deterministic_generate_k")
            rec.ev("deterministic_generate_k.tapped")
            bound = ctx.tap.bind(a, kw)
            if exc is not None or bound is None:
                rec.ev("nonce.tapped_call_raised_or_unreadable(tallied)")
                continue
            n_, d_, z_ = bound
            if (n_, d_, z_) != (n, d, z):
                rec.ev("nonce.tapped_call_with_other_argument_spelling(tallied)")
            want_k = RN.nonce(n_, d_, z_.to_bytes(32, "big")) if (1 <= d_ < n_ and 0 < z_ < 1 << 256) else None
            if want_k is not None and k != want_k:
                rec.violation("nonce.differs_from_rfc6979", dict(case, api=which), k, want_k)
            if n.bit_length() >= 128 and isinstance(k, int) and (n_, d_, z_ % n_) == (n, d, z % n):
                _nonce_table(ctx, case, d, z % n, k=k)
    if n.bit_length() >= 128:
        # r = x(kG) mod n: two (key, hash) pairs with one r have used one nonce (or its negative)
        for rr in dict.fromkeys((r, r2)):
            if isinstance(rr, int):
                _nonce_table(ctx, case, d, z % n, r=rr)
    return (r, s, recid, sg) if ok else None


def _nonce_table(ctx, case, d, zr, k=None, r=None):
    rec = ctx.rec
    if k is not None:
        prev = ctx.nonce_by_k.setdefault(k, (d, zr))
        if prev != (d, zr):
            rec.violation("nonce.shared_between_distinct_key_hash_pairs", dict(case, other={"d": prev[0], "z_mod_n": prev[1]}),
                          {"k": k}, "distinct nonces")
        rec.ev("nonce_table_entries")
    if r is not None:
        prev = ctx.nonce_by_r.setdefault(r, (d, zr))
        if prev != (d, zr):
            rec.violation("nonce.same_r_for_distinct_key_hash_pairs", dict(case, other={"d": prev[0], "z_mod_n": prev[1]}),
                          {"r": r}, "distinct r")
        rec.ev("nonce_table_r_entries")


def _reason(n, r, s):
    if not (isinstance(r, int) and 1 <= r < n):
        return "r_out_of_range"
    if not (isinstance(s, int) and 1 <= s < n):
        return "s_out_of_range"
    return "equation_false"


def judge_verify(ctx, case):
    rec, g, c = ctx.rec, ctx.g, ctx.c
    n = c.n
    Q, z, r, s = tuple(case["Q"]), case["z"], case["r"], case["s"]
    exp = RE.verify(c, Q, z % n, r, s)
    rec.ev("Generator.verify")
    if case.get("label"):
        rec.ev("verify." + case["label"])
    arg = g.Point(*Q) if case.get("as_point") else Q
    st, got = observe(g.verify, arg, z, (r, s))
    rec.case(("verify", ctx.curve_id, ctx.cfg, Q, z, r, s))
    if st != "ok":
        mech = "verify.raises"
        if 1 <= r < n and 1 <= s < n and RE.verification_point(c, Q, z % n, r, s) is None:
            mech = "verify.raises.point_at_infinity"
        rec.violation(mech, case, got, exp)
    elif bool(got) != exp:
        if got and not exp:
            rec.violation("verify.accepts_invalid." + _reason(n, r, s), case, got, exp)
        else:
            rec.violation("verify.rejects_valid", case, got, exp)
    if exp and ctx.toy and RE.verification_point(c, Q, z % n, r, s)[0] >= n:
        rec.ev("verify.valid_nonce_point_x_ge_n(toy)")           # the region where "reduced mod n" matters
    return exp


def judge_recover(ctx, case):
    """case: z, r, s, y_parity, optional signer [x, y] and R [x, y] (the nonce point of the signing event)."""
    rec, g, c = ctx.rec, ctx.g, ctx.c
    n = c.n
    z, r, s, yp = case["z"], case["r"], case["s"], case.get("y_parity")
    e = z % n
    signer = tuple(case["signer"]) if case.get("signer") else None
    R = tuple(case["R"]) if case.get("R") else None
    # y_parity either absent, or taken from the recid sign_with_recid returned ("from_recid": "same" / "opposite"):
    # the signer's key must come back for the recid's own parity and must not for the opposite one
    fr = case.get("from_recid")
    must = signer is not None and R is not None and R[0] < n and (yp is None or fr == "same")
    must_not = signer is not None and R is not None and yp is not None and fr == "opposite"
    rec.ev("Generator.possible_public_pairs_for_signature")
    if case.get("label"):
        rec.ev("recover." + case["label"])
    if must:
        rec.ev("recover.signer_demanded")
    if must_not:
        rec.ev("recover.signer_excluded_by_parity_demanded")
    rec.case(("recover", ctx.curve_id, ctx.cfg, z, r, s, yp))
    st, got = observe(g.possible_public_pairs_for_signature, z, (r, s), yp) if yp is not None else \
        observe(g.possible_public_pairs_for_signature, z, (r, s))
    if st != "ok":
        if must:
            rec.violation("recover.raises_on_valid_signature", case, got, "list containing the signer's key")
        else:
            rec.ev("recover.exception_on_non_signature(tallied)")
        return
    pts = []
    rs = _reason(n, r, s)
    if rs == "equation_false" and r >= c.p:
        rs = "r_ge_p"                      # in [1, n-1] but not the x-coordinate of anything (only possible when n > p)
    elif rs != "equation_false":
        rs = "rs_out_of_range"
    for P in got:
        P = tuple(P)
        Qp = None if P[0] is None and P[1] is None else P
        pts.append(Qp)
        rec.ev("recover.returned_key")
        if rs != "equation_false":
            rec.violation("recover.returns_nonverifying_key." + rs, case, P, "no key: no key verifies such (r, s)")
            continue
        if not c.on_curve(Qp):
            rec.violation("recover.returns_off_curve_point", case, P, "a curve point")
            continue
        X = RE.verification_point(c, Qp, e, r, s)         # equals the nonce point R this key was recovered from
        if X is None or X[0] % n != r:
            rec.violation("recover.returns_nonverifying_key", case, P, "only keys under which (r, s) verifies")
        elif yp is not None and (X[1] & 1) != (yp & 1):
            rec.violation("recover.y_parity_not_selective", case, P, "keys from a nonce point with y parity %d" % (yp & 1))
    if must and signer not in pts:
        rec.violation("recover.signer_missing", case, got, signer)
    if must_not and signer in pts:
        rec.violation("recover.y_parity_not_selective", case, got, "signer's key only for the parity sign_with_recid reported")
    if signer is not None and R is not None and R[0] >= n:
        rec.ev("recover.nonce_point_x_ge_n(signer not demanded)")


def _h32(z):
    return z.to_bytes(32, "big")


def judge_key(ctx, case):
    """Key.sign -> DER -> Key.verify on private and public-only keys."""
    rec, c = ctx.rec, ctx.c
    n = c.n
    d, z = case["d"], case["z"]
    K = ctx.KeyClass
    rec.case(("key", ctx.curve_id, ctx.cfg, d, z))
    st, key = observe(K, secret_exponent=d)
    if st != "ok":
        rec.violation("key.constructor_raises", case, key, "Key")
        return
    Q = c.mul(d, c.G)
    if tuple(key.public_pair()) != Q:
        rec.violation("key.public_pair_mismatch", case, key.public_pair(), Q)
    h = _h32(z)
    ctx.tap.take()
    rec.ev("Key.sign")
    st, sig = observe(key.sign, h)
    ctx.tap.take()
    sg = ref_sign(ctx, d, z)
    if st != "ok":
        if ctx.toy and not RE.signable(c, d, z % n):
            return
        mech = "key.sign_raises"
        if ctx.toy and isinstance(sig, TypeError) and all(0 in RE.raw_sign(c, d, z % n, k)[:2] for k in range(sg["k"], n)):
            mech = "sign.raises.retry_reaches_order"
        rec.violation(mech, case, sig, "DER signature")
        return
    try:
        r, s = RE.der_sig_decode(bytes(sig))
    except Exception as ex:
        rec.violation("key.sign_not_strict_der", case, sig, str(ex))
        return
    if not (1 <= r < n and 1 <= s < n and RE.verify(c, Q, z % n, r, s)):
        rec.violation("key.sign_invalid_signature", case, [r, s], "valid signature")
    elif sg["first_ok"] and (r, s) != (sg["r"], sg["s"]) and not (ctx.native_sign and (r, n - s) == (sg["r"], sg["s"])):
        rec.violation("key.sign_differs_from_rfc6979", case, [r, s], [sg["r"], sg["s"]])
    pubkey = K(public_pair=Q)
    for who, k in (("private", key), ("public", pubkey)):
        rec.ev("Key.verify")
        st, v = observe(k.verify, h, sig)
        if st != "ok" or not v:
            rec.violation("key.verify_rejects_own_signature", dict(case, who=who), v, True)


def judge_key_verify(ctx, case):
    rec, c = ctx.rec, ctx.c
    n = c.n
    Q, z, r, s = tuple(case["Q"]), case["z"], case["r"], case["s"]
    exp = RE.verify(c, Q, z % n, r, s)
    rec.case(("key_verify", ctx.curve_id, ctx.cfg, Q, z, r, s))
    st, k = observe(ctx.KeyClass, public_pair=Q)
    if st != "ok":
        rec.violation("key.constructor_raises", case, k, "Key")
        return
    der = RE.der_sig(r, s)
    rec.ev("Key.verify")
    if case.get("label"):
        rec.ev("Key.verify." + case["label"])
    st, got = observe(k.verify, _h32(z), der)
    if st != "ok":
        mech = "key.verify_raises"
        if 1 <= r < n and 1 <= s < n and RE.verification_point(c, Q, z % n, r, s) is None:
            mech = "key.verify_raises.point_at_infinity"
        rec.violation(mech, case, got, exp)
    elif bool(got) != exp:
        rec.violation("key.verify_accepts_invalid." + _reason(n, r, s) if got else "key.verify_rejects_valid", case, got, exp)


JUDGES = {"sign": judge_sign, "verify": judge_verify, "recover": judge_recover, "key": judge_key, "key_verify": judge_key_verify}


# ---------------------------------------------------------------------------------------------
# workloads

def forgeries(c, rng, d, z, r, s, other_Q, other_z, which):
    """(label, Q, z, r, s) families around one valid signature. `which`: 'full' or an int rotating a lite subset."""
    n = c.n
    Q = c.mul(d, c.G)
    M = (1 << 256) - 1
    zshift = z + n if z + n <= M else z - n
    out = [("valid", Q, z, r, s),
           ("other_key", other_Q, z, r, s),
           ("other_hash", Q, other_z, r, s),
           ("s_negated(valid)", Q, z, r, n - s),
           ("z_shifted_by_n(valid)", Q, zshift if zshift > 0 else z, r, s),
           ("Q_negated", c.neg(Q), z, r, s),
           ("swapped", Q, z, s, r),
           ("degenerate_infinity", Q, z, -z * pow(d, -1, n) % n, s),
           ("degenerate_infinity", Q, z, -z * pow(d, -1, n) % n, rng.randrange(1, n)),
           ("r_plus_1", Q, z, r + 1, s),
           ("s_bitflip", Q, z, r, s ^ (1 << rng.randrange(0, 256))),
           ("z_bitflip", Q, z ^ (1 << rng.randrange(0, 256)) or 1, r, s)]
    # the degenerate (infinity) forgery with r tied to the key itself: r = x(Q) mod n, z = -r*d  (a backend that reads the
    # result back into the buffers holding Q would "find" x(Q) = r)
    rq = Q[0] % n
    zq = (-rq * d) % n
    if rq and zq:
        out.append(("degenerate_infinity_r_is_Qx", Q, zq, rq, s))
        out.append(("degenerate_infinity_r_is_Qx", Q, zq, rq, rng.randrange(1, n)))
    # (the doubling relation z = r*d - both terms the same point - needs its own nonce: see special_cases)
    for v in (0, n, n + r, M, -r):
        out.append(("r_out_of_range", Q, z, v, s))
    for v in (0, n, n + s, M, -s):
        out.append(("s_out_of_range", Q, z, r, v))
    out.append(("rs_out_of_range", Q, z, n + r, n + s))
    if which == "full":
        return out
    i = which
    lite = [out[0], out[1 + i % 2], out[3 + i % 2], out[5 + i % 2], out[7], out[12], out[14 + i % 10], out[14 + (i + 5) % 10]]
    if i % 3 == 0:
        lite.append(out[9 + (i // 3) % 3])
    return lite


def d_pool(n, rng):
    ks = (1, 8, 31, 32, 63, 64, 127, 128, 129, 191, 192, 254, 255)
    b = [1, 2, 3, n - 1, n - 2, n - 3, n // 2, n // 2 + 1]
    for k in ks:
        b += [2 ** k, 2 ** k - 1, 2 ** k + 1]
    return [v for v in dict.fromkeys(b) if 1 <= v < n]


def z_pool(n, rng):
    M = (1 << 256) - 1
    b = [1, 2, n - 1, n, n + 1, M, M - 1, 1 << 255, (1 << 255) - 1, (1 << 255) + 1, n - 2, n + 2, 1 << 128, (1 << 248) + 1, M - n, M - n + 1]
    return [v for v in dict.fromkeys(b) if 1 <= v <= M]


REQUIRED_OPS = ("Generator.sign", "Generator.sign_with_recid", "Generator.verify", "Generator.possible_public_pairs_for_signature",
                "Key.sign", "Key.verify", "deterministic_generate_k")
# one counter per clause / listed kind of the statement (merged over all shards; any of them at 0 -> INCONCLUSIVE)
REQUIRED_BIG = ("deterministic_generate_k.direct", "nonce_table_r_entries",
                "verify.valid", "verify.other_key", "verify.other_hash", "verify.r_out_of_range", "verify.s_out_of_range",
                "verify.rs_out_of_range", "verify.s_negated(valid)", "verify.z_shifted_by_n(valid)", "verify.degenerate_infinity",
                "verify.valid_wrapped_nonce_x_ge_n", "verify.valid_doubling", "Key.verify.valid", "Key.verify.valid_doubling",
                "Key.verify.other_key", "Key.verify.other_hash", "Key.verify.r_out_of_range", "Key.verify.s_out_of_range",
                "recover.signer_demanded", "recover.signer_excluded_by_parity_demanded", "recover.returned_key",
                "recover.s_negated", "recover.valid_wrapped_nonce_x_ge_n", "recover.valid_doubling",
                "recover.other_candidate_is_infinity")
REQUIRED_TOY = ("sign.first_nonce_unusable(retry path)", "nonce.first_drbg_output_rejected(RFC 6979 step h.3 loop)",
                "verify.valid_in_table", "recover.signer_demanded", "recover.s_negated")
REQUIRED_TOY_WRAP = ("sign.nonce_point_x_ge_n(r = x - n)", "verify.valid_nonce_point_x_ge_n(toy)",
                     "recover.nonce_point_x_ge_n(signer not demanded)")


def recover_variants(c, r, s, recid, R):
    """(label, s, y_parity, from_recid, nonce point) for one valid signature: no parity / the reported parity / the
    opposite one, and the malleated twin (r, n - s), whose nonce point is -R (same x, other parity)."""
    n = c.n
    out = [("signer", s, None, None, R), ("signer", s, recid & 1, "same", R), ("signer", s, 1 - (recid & 1), "opposite", R)]
    if R is not None:
        Rn = c.neg(R)
        out += [("s_negated", n - s, None, None, Rn), ("s_negated", n - s, 1 - (recid & 1), "same", Rn)]
    return out


def special_cases(ctx, rng, d, Q, i, lite=False):
    """hand-built VALID signatures of key d (nonce k, R = kG, r = x(R) mod n, s = (z + r d)/k) for hashes tied to r and d:
       z =  r d      the two terms of (z/s)G + (r/s)Q are the SAME point: the verification sum is a doubling
       z = -r d / 2  recovery's candidate from -R is the point at infinity and the one from R needs a doubling
    Both happen with probability ~2^-256 for a deterministic signer; verification must accept, recovery must return d*G."""
    c, n = ctx.c, ctx.c.n
    k = rng.randrange(1, n)
    R = c.mul(k, c.G)
    r = R[0] % n
    if r == 0:
        return
    ki = pow(k, -1, n)
    M = (1 << 256) - 1
    up = lambda z: z + n if (i // 4) % 2 and z + n <= M else z          # the same hash class, spelled z or z + n
    z1 = r * d % n
    s1 = ki * (z1 + r * d) % n
    z2 = -r * d * pow(2, -1, n) % n
    s2 = ki * (z2 + r * d) % n
    yR = R[1] & 1
    rot = (i // 4) % 3
    if z1 and s1:
        z1 = up(z1)
        judge_verify(ctx, base_case(ctx, "verify", Q=list(Q), z=z1, r=r, s=s1, label="valid_doubling", as_point=bool(i % 8 == 1)))
        if not lite or rot == 0:
            judge_verify(ctx, base_case(ctx, "verify", Q=list(Q), z=z1, r=r, s=n - s1, label="valid_doubling", as_point=False))
        if not lite or rot == 1:
            judge_verify(ctx, base_case(ctx, "verify", Q=list(Q), z=z1, r=r, s=s1 % (n - 1) + 1, label="doubling_wrong_s", as_point=False))
        if not lite or rot == 2:
            judge_key_verify(ctx, base_case(ctx, "key_verify", Q=list(Q), z=z1, r=r, s=s1, label="valid_doubling"))
        if not lite:
            judge_recover(ctx, base_case(ctx, "recover", z=z1, r=r, s=s1, y_parity=None, signer=list(Q), R=list(R), label="valid_doubling"))
    if z2 and s2:
        z2 = up(z2)
        if not lite:
            judge_verify(ctx, base_case(ctx, "verify", Q=list(Q), z=z2, r=r, s=s2, label="valid_recovery_twin_is_infinity", as_point=False))
        for j, (yp, fr) in enumerate(((None, None), (yR, "same"), (1 - yR, "opposite"))):
            if not lite or j == 0 or j == 1 + rot % 2:
                judge_recover(ctx, base_case(ctx, "recover", z=z2, r=r, s=s2, y_parity=yp, from_recid=fr, signer=list(Q), R=list(R),
                                             label="other_candidate_is_infinity"))


def run_big(spec, rec):
    import pycoin.ecdsa.native.secp256k1 as NS
    ctx = get_ctx(spec["curve"], spec["gen"], rec)
    c, n = ctx.c, ctx.c.n
    rng = shard_rng(spec["seed"], PROPERTY, spec["tier"], spec["shard"])
    rec.require(*REQUIRED_OPS)
    rec.require(*REQUIRED_BIG)
    if NS.libsecp256k1 is None:
        rec.ev("config_absent:libsecp256k1")
        rec.note("libsecp256k1 not loadable: configuration absent")
    want_pure = bool(spec.get("env")) or spec["gen"] == "inproc"
    if want_pure and ctx.native_mul:
        raise RuntimeError("shard meant to run the pure path but the generator has native optimisations")
    # the configuration a shard was planned for must be the one that ran: an "openssl" shard that silently ran the pure
    # arithmetic leaves the OpenSSL-accelerated configuration of the quantifier unobserved -> INCONCLUSIVE, not "held"
    rec.require("config_active:%s/%s" % (spec["curve"], "pure" if want_pure else "openssl"))
    rec.ev("config_active:%s/%s" % (spec["curve"], "openssl" if ctx.native_mul else "pure"))
    if not want_pure and not ctx.native_mul:
        rec.note("OpenSSL optimisations not active in the default worker: OpenSSL configuration absent, shard ran pure")
        rec.ev("config_absent:openssl")
        rec.ev("config:" + spec.get("label", ctx.cfg) + "(ABSENT, ran pure)")
    else:
        rec.ev("config:" + spec.get("label", ctx.cfg))
    dp, zp = d_pool(n, rng), z_pool(n, rng)
    rng.shuffle(dp)
    rng.shuffle(zp)
    N = spec["families"]
    if not want_pure and not ctx.native_mul:
        N = min(N, 8)            # the run is INCONCLUSIVE anyway (config_active); do not spend an OpenSSL-sized budget on pure arithmetic
    prev_d, prev_z = dp[0], zp[0]
    rnd_d = lambda: rng.randrange(1, n) if rng.random() < 0.7 else rng.choice(dp)
    rnd_z = lambda: (rng.randrange(1, 1 << 256) if rng.random() < 0.75 else rng.choice(zp))
    for i in range(N):
        u = rng.random()
        if i < min(len(dp), N // 3):
            d, z = dp[i], (zp[i % len(zp)] if i % 2 else prev_z)
        elif u < 0.2:
            d, z = prev_d, rnd_z()
        elif u < 0.4:
            d, z = rnd_d(), prev_z
        else:
            d, z = rnd_d(), rnd_z()
        prev_d, prev_z = d, z
        res = judge_sign(ctx, base_case(ctx, "sign", d=d, z=z))
        sg = ref_sign(ctx, d, z)
        r, s = sg["r"], sg["s"]
        Q = c.mul(d, c.G)
        d2 = rnd_d()
        while d2 == d:
            d2 = rnd_d()
        z2 = rnd_z()
        while z2 % n == z % n:
            z2 = rnd_z()
        mode = spec["forgeries"]
        full = mode == "full" or (mode == "mixed" and i % 3 == 0)
        fs = forgeries(c, rng, d, z, r, s, c.mul(d2, c.G), z2, "full" if full else i)
        for j, (label, Qf, zf, rf, sf) in enumerate(fs):
            judge_verify(ctx, base_case(ctx, "verify", Q=list(Qf), z=zf, r=rf, s=sf, label=label, as_point=bool((i + j) % 4 == 0)))
        # recovery: no parity, signer's parity, opposite parity; pure configurations rotate (each call costs 2-4 multiplies)
        recid = res[2] if res else (sg["R"][1] & 1)
        variants = recover_variants(c, r, s, recid, sg["R"])
        if mode == "lite":
            variants = [variants[i % len(variants)]]
        else:
            variants = variants[:3] + [variants[3 + i % 2]]
        for label, sv, yp, fr, Rv in variants:
            judge_recover(ctx, base_case(ctx, "recover", z=z, r=r, s=sv, y_parity=yp, from_recid=fr, signer=list(Q), R=list(Rv),
                                         label=label))
        if full:
            lab, Qf, zf, rf, sf = fs[12 + (i // 3) % 11]
            judge_recover(ctx, base_case(ctx, "recover", z=zf, r=rf, s=sf, y_parity=None))
        # Key / DER layer
        if mode != "lite" or i % 3 == 0:
            judge_key(ctx, base_case(ctx, "key", d=d, z=z))
            pick = fs if full and i % 4 == 0 else [fs[0], fs[(i // 3) % len(fs)], fs[7 if full else 4]]
            for (label, Qf, zf, rf, sf) in pick:
                judge_key_verify(ctx, base_case(ctx, "key_verify", Q=list(Qf), z=zf, r=rf, s=sf, label=label))
        # pairs that collide as Python hash values (ints hash modulo 2^61-1): anything memoised on hash((n, d, z)) or in a
        # dict keyed by a hash value would hand the second request the first one's nonce
        if i % 5 == 2:
            Mh = (1 << 61) - 1
            for d2_, z2_ in ((d, z + Mh), (d, z + 3 * Mh), (d + Mh if d + Mh < n else d - Mh, z), (d, z ^ (1 << 61))):
                if 1 <= d2_ < n and 0 < z2_ < (1 << 256):
                    judge_sign(ctx, base_case(ctx, "sign", d=d2_, z=z2_, label="python_hash_collision_pair"))
        # hand-built VALID signatures whose nonce point has n <= x < p (so r = x - n): Q = r^-1 (s R - z G).
        # No signer ever produces them on the production curves (probability ~2^-128), verification must still accept
        # them, and recovery need not return the signer.
        if i % 6 == 0 and c.p > n:
            j = 1 + (i // 6) % 40
            while c.lift_x(n + j) is None or n + j >= c.p:
                j += 1
            R = c.lift_x(n + j)[i % 2]
            rw, sw, zw = j, rng.randrange(1, n), rnd_z()
            Qw = c.mul(pow(rw, -1, n), c.add(c.mul(sw, R), c.neg(c.mul(zw % n, c.G))))
            if Qw is not None:
                judge_verify(ctx, base_case(ctx, "verify", Q=list(Qw), z=zw, r=rw, s=sw, label="valid_wrapped_nonce_x_ge_n", as_point=False))
                judge_verify(ctx, base_case(ctx, "verify", Q=list(Qw), z=zw, r=rw, s=n - sw, label="valid_wrapped_nonce_x_ge_n", as_point=False))
                judge_verify(ctx, base_case(ctx, "verify", Q=list(Qw), z=zw, r=rw + 1, s=sw, label="wrapped_nonce_wrong_r", as_point=False))
                # recovery only lifts x = r: the signer need not come back, whatever does must verify
                judge_recover(ctx, base_case(ctx, "recover", z=zw, r=rw, s=sw, y_parity=[None, 0, 1][(i // 6) % 3], signer=list(Qw),
                                             R=list(R), label="valid_wrapped_nonce_x_ge_n"))
        # valid signatures in algebraic corner cases of the verification / recovery sums that no signer produces by chance
        if i % 4 == 1:
            special_cases(ctx, rng, d, Q, i, lite=(mode == "lite"))
        if i < 2:
            rec.sample({"config": spec.get("label"), "event": "sign", "d": d, "z": z, "r": r, "s": s, "k": sg["k"],
                        "forgeries_checked": [f[0] for f in fs]})


def _rs_grid(c, rng, full, d, e, extra=24):
    n = c.n
    if full:
        return list(itertools.product(range(n + 2), repeat=2))
    out = set()
    for k in range(1, n):
        r, s, _ = RE.raw_sign(c, d, e, k)
        out.add((r, s))
        out.add((r, (n - s) % n))
        out.add((s, r))
    rdeg = -e * pow(d, -1, n) % n
    for s in (1, n - 1, rng.randrange(1, n)):
        out.add((rdeg, s))
    for v in (0, n, n + 1):
        for w in (0, 1, n - 1, n, n + 1, rng.randrange(1, n)):
            out.add((v, w))
            out.add((w, v))
    for _ in range(extra):
        out.add((rng.randrange(0, n + 2), rng.randrange(0, n + 2)))
    return sorted(out)


def run_toy(spec, rec):
    ctx = get_ctx(spec["curve"], "inproc", rec)
    c, n = ctx.c, ctx.c.n
    rng = shard_rng(spec["seed"], PROPERTY, spec["tier"], spec["shard"])
    rec.require(*REQUIRED_OPS)
    rec.require(*REQUIRED_TOY)
    if spec.get("wrap"):
        rec.require(*REQUIRED_TOY_WRAP)
    rec.ev("config:toy/inproc-pure")
    rec.ev("toy_curve_shards")
    qlen = n.bit_length()
    part, parts, full, budget = spec["part"], spec["parts"], spec["full"], spec["budget"]
    pub = {}
    P = None
    for d in range(1, n):
        P = c.add(P, c.G)
        pub[d] = P
    ds = [d for d in range(1, n) if (d - 1) % parts == part]
    M = (1 << 256) - 1
    z_small = list(range(1, n + 2)) + [2 * n - 1, 2 * n, 2 * n + 1]
    z_top = [(t << (256 - qlen)) | rng.randrange(0, 1 << (256 - qlen)) for t in range(1, 1 << qlen)]
    z_sign = z_small + z_top + [M, 1 << 255, M - n, (1 << 255) - 1]
    # --- signing events (+ recovery of each produced signature, + Key layer on a rotating subset)
    per_d = max(8, min(len(z_sign), budget // (4 * max(1, len(ds)))))
    for d in ds:
        zs = z_sign if per_d >= len(z_sign) else rng.sample(z_sign, per_d)
        for i, z in enumerate(zs):
            res = judge_sign(ctx, base_case(ctx, "sign", d=d, z=z))
            if res:
                r, s, recid, sg = res
                # the nonce point of *pycoin's* signature: first RFC nonce if usable, else found by search
                R = sg["R"] if sg["first_ok"] else None
                if R is None:
                    cands = [RE.raw_sign(c, d, z % n, k) for k in range(1, n)]
                    cands = [RR for (rr, ss, RR) in cands if (rr, ss) == (r, s)]
                    R = cands[0] if len(cands) == 1 else None        # ambiguous nonce point: signer not demanded
                variants = recover_variants(c, r, s, recid, R)
                label, sv, yp, fr, Rv = variants[i % len(variants)]
                judge_recover(ctx, base_case(ctx, "recover", z=z, r=r, s=sv, y_parity=yp, from_recid=fr, signer=list(pub[d]),
                                             R=list(Rv) if Rv else None, label=label))
            if i % 5 == 0:
                judge_key(ctx, base_case(ctx, "key", d=d, z=z))
    # --- verification truth table
    z_ver = list(range(1, n + 1)) + [rng.choice(z_top), M, n + 1 + rng.randrange(n)]
    grid_size = (n + 2) ** 2 if full else 6 * n
    pairs = [(d, z) for d in ds for z in z_ver]
    maxpairs = max(4, budget // grid_size)
    if len(pairs) > maxpairs:
        pairs = rng.sample(pairs, maxpairs)
    for j, (d, z) in enumerate(pairs):
        Q = pub[d]
        for (r, s) in _rs_grid(c, rng, full, d, z % n):
            exp = judge_verify(ctx, base_case(ctx, "verify", Q=list(Q), z=z, r=r, s=s))
            if exp:
                rec.ev("verify.valid_in_table")
        if j % 7 == 0:
            for (r, s) in _rs_grid(c, rng, False, d, z % n, extra=4)[:: 5]:
                judge_key_verify(ctx, base_case(ctx, "key_verify", Q=list(Q), z=z, r=r, s=s))
    # --- recovery over the whole (z, r, s) grid (no signer information: only "returns only verifying keys")
    z_rec = [z for i, z in enumerate(range(1, n + 1)) if i % parts == part]
    cells = [(z, r, s) for z in z_rec for r in range(n + 2) for s in range(n + 2)]
    cap = max(200, budget // 3)
    if len(cells) > cap:
        cells = rng.sample(cells, cap)
    for i, (z, r, s) in enumerate(cells):
        judge_recover(ctx, base_case(ctx, "recover", z=z, r=r, s=s, y_parity=[None, 0, 1][i % 3]))
    if part == 0:
        rec.sample({"toy_curve": c.name, "G": list(c.G), "exhaustive_rs_grid": bool(full), "d_values": len(ds),
                    "z_values_signed": len(z_sign), "verify_pairs": len(pairs)})


def run_shard(spec, rec):
    import time
    kind = spec["kind"]
    try:
        if kind == "memcheck":
            memcheck.run(spec, rec, PROPERTY)
        else:
            {"big": run_big, "toy": run_toy}[kind](spec, rec)
    except GeneratorUnavailable:
        rec.case(("generator_unavailable", spec.get("curve"), spec.get("gen")))
    finally:
        rec.ev("cpu_ms:" + kind, int(time.process_time() * 1000))


def replay_case(case, rec):
    kind = case.get("kind")
    if kind in ("memcheck", "memcheck_value"):
        memcheck.replay(case, rec, PROPERTY)
        return
    curve = case["curve"]
    if isinstance(curve, list):
        curve = [int(v) for v in curve]
    try:
        ctx = get_ctx(curve, case.get("gen", "inproc"), rec)
    except GeneratorUnavailable:
        return
    if kind == "import":
        return
    case = dict(case, curve=curve)
    other = case.get("other")
    if kind == "sign" and isinstance(other, dict) and "d" in other:
        # nonce-table violations need the earlier event too: replay it first (z mod n names the same message)
        JUDGES["sign"](ctx, dict(case, d=int(other["d"]), z=int(other["z_mod_n"]) or ctx.c.n, other=None))
    JUDGES[kind](ctx, case)
