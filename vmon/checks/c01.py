"""C01 - ECDSA: deterministic signatures verify for the signer and for nobody else.

Monitors (oracles at the API boundary, reference = vmon/refs/{ec,rfc6979,ecdsa}.py):
  sign / sign_with_recid   (d, z) -> (r, s[, recid]) vs the reference RFC 6979 signature, range, reference verification
  deterministic_generate_k called directly on every signing event and tapped as signing calls it: (n, d, z) -> k vs the
                           reference nonce; nonce reuse table (tapped k) and r reuse table (always) on 256-bit curves
  verify                   truth table vs the literal verification equation, incl. out-of-range r/s, forgery families
                           and the degenerate r = -z/d whose verification point is the point at infinity
                           and the doubling case z = r*d (both terms the same point), hand-built nonce x >= n
  recovery                 every returned key reference-verifies; signer present when x(R) < n (also for the (r, n-s)
                           twin, for z = r*d, and when the other candidate is the point at infinity); y_parity selects R
  Key.sign / Key.verify    the DER layer on top
  structured multipliers   (round 5) hand-built valid signatures whose r/s, z/s (verification) or s/r, -z/r (recovery) is a scalar
                           with non-random bits: t or 3t next to a power of two (either side), repeating patterns, runs of
                           ones, the same counted down from n, halves / thirds of n; and such scalars as private keys
on secp256k1 / secp256r1 (OpenSSL worker, PYCOIN_NATIVE=none worker, in-process pure Generator) and exhaustively on
toy curves; plus the valgrind memcheck leg over the ctypes/libcrypto path.

State that outlives one call (round 4):
  refused calls            a menu of ~50 calls the library refuses, most of them part-way through (None / str / float / bytes
                           scalars, hash 0, off-curve or truncated keys, truncated signatures, nonce sources that raise or
                           return garbage, Key objects asked to sign None / without a secret, nonce function with values that
                           do not fit), made on the SAME generator / Key objects between the judged calls (errpath); never
                           judged themselves - the judged calls that follow must be right; the other production generator of
                           the process is exercised in between as well
  long run                 one shard: > 2^16 + 100 (thorough 2^17 + 100) consecutive multiplications by ONE module-level generator
                           object in ONE process, every result judged (derivations vs a running sum, the nonce function vs the
                           reference, every 256th step a fully judged signing / verification / recovery / Key event)
  twins                    one shard: five live generators of DIFFERENT toy curves through ONE base point (equal by value: a
                           Generator is the tuple of its base-point coordinates; same field / same order / 2-cycle pairs), the
                           same question put to each in turn, keys handed over as objects made by another of them
  caller-owned containers  [x, y] / [r, s] lists and bytearrays as arguments: unchanged afterwards, same answer when asked again;
                           the list recovery returns is edited by the caller and the question asked again
"""
import hashlib
import itertools

from vmon.probe import shard_rng, observe
from vmon.refs import ec, ecdsa as RE, rfc6979 as RN
from vmon import memcheck

PROPERTY = "C01"
LEVEL = "exploration"
TECHNIQUE = ("differential runtime monitor vs independent RFC 6979 / SEC 1 reference on independent curve arithmetic; "
             "exhaustive truth tables on toy curves; nonce tap + reuse table; valgrind memcheck on the libcrypto path")
RULE = ("a case is one monitored call: a signing event (curve, configuration, d, z), a verification event (Q, z, r, s), a "
        "recovery event (z, r, s, y_parity) or a Key-layer event. Keys d from {1, 2, 3, n-1, n-2, 2^k, 2^k+-1, random}, hashes z "
        "from {1, 2, n-1, n, n+1, 2^255, 2^256-1, random}; every valid signature spawns forgeries (other key, other hash, "
        "r/s in {0, n, n+r, 2^256-1}, swapped, s->n-s, Q->-Q, z->z+-n, r+1, degenerate r=-z/d); every 4th family adds hand-built "
        "valid signatures with z = r*d (verification sum is a doubling) and z = -r*d/2 (one recovery candidate is infinity), "
        "every 6th one with nonce x in [n, p). Between the groups of judged calls of a family one call of a rotating menu of "
        "refused calls on the same objects; every 4th key / signature argument as a caller-owned list (asked twice), every 4th as "
        "a Point of the other live generator of the same curve; every 4th recovery asked again after the caller edited the "
        "returned list; every 7th family one signing / verification / recovery on the other production generator. Long run: keys "
        "d -> d + stride (1, 2^64, 2^128, 2^255, n - 1) from a random start, > 2^16 + 100 multiplications on one object. Twins: "
        "per round one key index and one hash put to each of five equal-by-value generators in shuffled order, then one (z, r, s) "
        "triple to each. Structured multipliers: a fixed pool of scalars t (t or 3t within a few units of 2^j on either side, "
        "0x33.. / 0x0f.. patterns, ones-then-zeros, n - t, halves and thirds of n; quick: 11 bit lengths j up to 257, ~216 per "
        "curve, thorough: every j) is dealt out over the 256-bit shards so that every run covers all of it on the pure and on the "
        "OpenSSL arithmetic; for each t a hand-built valid signature of a random key with r/s = t (key multiplied by t; on the pure "
        "arithmetic always for the t next to a power of two, the rest in rotation), and in rotation z/s = t, s/r = t, -z/r = t "
        "and signing with d = t. Toy curves: every d, z over "
        "every residue and every top-bit pattern, every (r, s) in [0, n+1]^2. Distinct by (kind, curve, configuration, "
        "operands); all counted cases are non-trivial (none is a fixed vector of the repository's suite except d=z=1).")
ASSUMPTIONS = [
    "reference arithmetic vmon/refs/ec.py, nonce vmon/refs/rfc6979.py and ECDSA vmon/refs/ecdsa.py are correct; each is "
    "self-tested on every run (RFC 6979 A.1 / A.2.3 / A.2.5 vectors, sign->verify->recover closure and verification "
    "formula == signer-side definition exhaustively on toy curves)",
    "the hash z is the big-endian integer of a 32-byte digest (z in [1, 2^256-1]); the RFC 6979 nonce input is "
    "bits2octets of that 32-byte string: leftmost qlen bits, then reduced mod n (for 256-bit n: z, minus n once if z >= n) - "
    "pycoin's single conditional subtraction is a legitimate reading because bits2int(h1) < 2^qlen < 2n",
    "the signature equation uses e = z mod n, as the property's verification equation ((z/s)G + (r/s)Q on the integer z) "
    "prescribes. SEC 1 / RFC 6979 2.4 would truncate z to its leftmost qlen bits first; for 256-bit orders the two are "
    "identical, they differ only on toy curves, where the property's reading is used",
    "when the first RFC 6979 nonce yields r = 0 or s = 0 (toy curves only) only range and validity are demanded, as the "
    "statement allows (pycoin retries with k+1, the RFC with the next DRBG output)",
    "a signing call that raises is a violation only if some k in [1, n-1] yields a valid signature for (d, z) at all "
    "(on the smallest toy curves a few (d, z) have none)",
    "recovery: a returned point is judged by evaluating the verification equation literally (the identity element as a "
    "'key' is evaluated as the group identity); with y_parity given, returned keys must come from a nonce point of that "
    "parity (the documented meaning of the parameter); exceptions from recovery are judged only when the signer's key had "
    "to be returned",
    "Key.verify is compared with the reference only for well-formed DER; malformed DER is not generated here (C10)",
    "how signing reaches the nonce function (which module attribute, positional or keyword arguments) is not part of the "
    "statement: the nonce function is judged by calling it directly and, when the tap sees signing's own call, on that call; "
    "a call path the tap cannot see is tallied only - the signature itself is always compared with the RFC 6979 signature",
    "every clause / listed kind has a required counter (REQUIRED_*): one that stays at 0 makes the run INCONCLUSIVE, as does "
    "an OpenSSL-planned shard that found the pure arithmetic active (config_active:<curve>/openssl)",
    "libsecp256k1 is not installed in this environment: that configuration is recorded absent",
    "calls the library refuses (or unexpectedly accepts) on malformed arguments are never judged; only the judged calls made "
    "after them on the same objects / in the same process are (any state a refused call leaves behind shows there)",
    "caller-owned containers: a list / bytearray argument that the call modified is reported (verify.modifies_caller_argument, "
    "recover.modifies_caller_argument, key.modifies_caller_argument) - the statement treats keys, hashes and signatures as "
    "values, so the caller's value must still be the one that was judged; the second call with the same objects and the "
    "recovery repeated after the caller edited the returned list are judged by the statement's own rules, nothing more. If the "
    "library refuses lists / bytearrays but answers the tuple / bytes form correctly, that is tallied, not reported",
    "long run: the number of generator multiplications is counted as a lower bound (1 per derivation, verification, recovery; "
    "2 per signing event; 4 per Key event); the running sum (Jacobian, reference arithmetic) is confirmed by an independent "
    "reference multiplication before a violation is reported (disagreement of the two -> inconclusive). It needs the "
    "OpenSSL-backed generator (0.5 ms per multiplication; 25 ms on the pure arithmetic): if that is not active the run is "
    "INCONCLUSIVE. A violated derivation d*G is reported as such because the statement's 'public key d*G' is what the "
    "library computes as d * generator",
    "structured multipliers: the statement quantifies verification over ALL (Q, z, (r, s)), so a valid signature whose r/s, z/s, "
    "s/r or -z/r mod n is a chosen scalar must be accepted / must recover its signer like any other; such signatures are built "
    "from the signing equation with a chosen nonce (s = (z + r d)/k re-checked, the promised multiplier re-checked and the "
    "reference verifier consulted before the library is asked; a failed builder is INCONCLUSIVE, not a violation). Nothing is "
    "assumed about HOW the library multiplies: only the boolean / the returned keys are judged, by the ordinary judges",
    "twins: live generators of different curves with identical base-point coordinates are legitimate (curve families fix G by "
    "convention); the families are enumerated by brute-force point counting (prime order >= 5, p = 3 mod 4) and each member is "
    "re-validated in the shard (failure -> inconclusive)",
]
EXPLANATION = ("every signing, verification, recovery and Key-layer call on the real library is compared with the reference; "
               "toy curves are swept exhaustively in-process with the pure Generator; 256-bit curves run in three "
               "configurations, each of which is also given valid signatures whose verification / recovery multipliers are "
               "bit-structured scalars no signer produces by chance; memcheck counts error blocks with libcrypto/ctypes frames")
TIMEOUT = {"quick": 600, "thorough": 3 * 3600}
NONE_ENV = {"PYCOIN_NATIVE": "none"}


def exhaustive(tier):
    return False


def configurations(tier):
    return ["secp256k1+secp256r1 / OpenSSL (default worker)", "secp256k1+secp256r1 / pure Python worker (PYCOIN_NATIVE=none)",
            "secp256k1+secp256r1 / in-process pure Generator(p,a,b,G,n)", "toy curves / in-process pure Generator",
            "valgrind memcheck over the OpenSSL path", "libsecp256k1: absent (not installed)",
            "secp256k1 / OpenSSL, one generator object, > 2^16 + 100 multiplications in one process (long run)"
            + ("; same for secp256r1, 2^17 + 100" if tier == "thorough" else ""),
            "five toy generators of different curves through one base point, interleaved in one process (twins)"]


# ---------------------------------------------------------------------------------------------
# plan

SHARD_ORDER = {"longrun": 0, "memcheck": 0, "big": 1, "twins": 2, "toy": 2}
M256 = (1 << 256) - 1
LONGRUN_MIN = {"quick": (1 << 16) + 100, "thorough": (1 << 17) + 100}
# base points through which families of different toy curves are laid (twin_family)
TWIN_BASES = ((1, 2), (2, 3), (0, 1), (3, 5), (1, 3))


def _toy_params(c):
    return [c.p, c.a, c.b, c.G[0], c.G[1], c.n]


def plan(tier, seed):
    shards = []

    def big(cv, gen, families, mode, env=None, count=1):
        label = "%s/%s" % (cv, "pure-env" if env else "inproc-pure" if gen == "inproc" else "openssl")
        for _ in range(count):
            d = {"kind": "big", "curve": cv, "gen": gen, "families": families, "forgeries": mode, "label": label}
            if env:
                d["env"] = env
            shards.append(d)

    if tier == "quick":
        toys = ec.toy_curves(24)
        by_n = {}
        for c in toys:
            by_n.setdefault(c.n, []).append(c)
        rot = seed % 3
        picks = [(by_n[5][rot % len(by_n[5])], 1, True), (by_n[7][rot % len(by_n[7])], 1, True), (by_n[7][-1 - rot], 1, True),
                 (by_n[11][rot % len(by_n[11])], 3, True), (by_n[13][rot % len(by_n[13])], 4, True),
                 (by_n[17][rot % len(by_n[17])], 1, False)]
        # curves whose order is below the field size AND that have points with n <= x < p and x mod n != 0: the only
        # place where "x-coordinate reduced mod n" differs from the x-coordinate itself (r = x - n), and where recovery must
        # refuse / miss the signer (nonce point's x >= n)
        wrap = [c for c in toys if c.n < c.p and any(P[0] >= c.n and P[0] % c.n for P in c.all_points())]
        nplain = len(picks)
        picks.append((wrap[seed % len(wrap)], 1, True))
        picks.append((wrap[(seed * 7 + 11) % len(wrap)], 1, True))
        for j, (c, parts, full) in enumerate(picks):
            for part in range(parts):
                shards.append({"kind": "toy", "curve": _toy_params(c), "part": part, "parts": parts, "full": full, "wrap": j >= nplain,
                               "budget": 6000 if full else 3000, "label": "toy n=%d %d/%d" % (c.n, part + 1, parts)})
        big("secp256k1", "module", 70, "mixed", count=2)
        big("secp256r1", "module", 70, "mixed", count=2)
        big("secp256k1", "module", 8, "lite", env=NONE_ENV, count=3)
        big("secp256r1", "module", 8, "lite", env=NONE_ENV, count=2)
        big("secp256k1", "inproc", 8, "lite", count=2)
        big("secp256r1", "inproc", 8, "lite", count=1)
        shards.append({"kind": "memcheck", "iterations": 12, "vg_timeout": 400, "label": "memcheck"})
        # the N-th operation on ONE generator object in ONE process (see run_longrun)
        shards.append({"kind": "longrun", "curve": "secp256k1", "count": LONGRUN_MIN["quick"] + 64, "every": 256,
                       "label": "longrun secp256k1/openssl"})
        # several live generators of DIFFERENT curves with the same base-point coordinates, interleaved in one process
        shards.append({"kind": "twins", "G": list(TWIN_BASES[seed % len(TWIN_BASES)]), "curves": 5, "rounds": 90,
                       "label": "twins G=%r" % (TWIN_BASES[seed % len(TWIN_BASES)],)})
        shards.sort(key=lambda s: SHARD_ORDER[s["kind"]])
    else:
        toys = ec.toy_curves(80)
        small = [c for c in toys if c.n <= 13]
        rest = [c for c in toys if c.n > 13]
        rng = shard_rng(seed, PROPERTY, tier, "plan")
        for c in small:
            shards.append({"kind": "toy", "curve": _toy_params(c), "part": 0, "parts": 1, "full": True, "budget": 10 ** 9, "wrap": True,
                           "label": "toy n=%d" % c.n})
        for c in rng.sample(rest, 72):
            shards.append({"kind": "toy", "curve": _toy_params(c), "part": 0, "parts": 1, "full": False, "budget": 30000,
                           "label": "toy n=%d sampled" % c.n})
        big("secp256k1", "module", 1000, "mixed", count=8)
        big("secp256r1", "module", 1000, "mixed", count=8)
        big("secp256k1", "module", 80, "lite", env=NONE_ENV, count=10)
        big("secp256r1", "module", 80, "lite", env=NONE_ENV, count=6)
        big("secp256k1", "inproc", 80, "lite", count=6)
        big("secp256r1", "inproc", 80, "lite", count=5)
        shards.append({"kind": "memcheck", "iterations": 300, "vg_timeout": 3000, "label": "memcheck"})
        for cv in ("secp256k1", "secp256r1"):
            shards.append({"kind": "longrun", "curve": cv, "count": LONGRUN_MIN["thorough"] + 64, "every": 96,
                           "label": "longrun %s/openssl" % cv})
        for G in TWIN_BASES:
            shards.append({"kind": "twins", "G": list(G), "curves": 8, "rounds": 600, "label": "twins G=%r" % (G,)})
        # long shards first so the tail is short
        shards.sort(key=lambda s: SHARD_ORDER[s["kind"]])
    # the pool of bit-structured multipliers (structured_scalars) is dealt out over the shards of one (curve, arithmetic) group:
    # every run drives the WHOLE pool on the pure arithmetic and on the OpenSSL one, whatever the seed
    groups = {}
    for sh in shards:
        if sh["kind"] == "big":
            groups.setdefault((sh["curve"], bool(sh.get("env")) or sh["gen"] == "inproc"), []).append(sh)
    for members in groups.values():
        for k, sh in enumerate(members):
            sh["sslice"] = [k, len(members)]
    return shards


def selftest(rec):
    out = {"ec": ec.selftest(), "rfc6979": RN.selftest(), "ecdsa": RE.selftest(), "memcheck_parser": memcheck.selftest()}
    return out


# ---------------------------------------------------------------------------------------------
# context: the real generator, its reference curve, the nonce tap

_STATE = {"ctx": {}, "tap": None}
BIG = {"secp256k1": ec.SECP256K1, "secp256r1": ec.SECP256R1}


NONCE_FN = "deterministic_generate_k"


class Tap:
    """records every call of the library's nonce function, wherever signing looks it up (the name imported into
    pycoin.ecdsa.Generator, or the attribute of pycoin.ecdsa.rfc6979). The property does not prescribe HOW signing
    reaches the function, so a call path the tap cannot see is tallied, never reported; the function is also
    called directly (self.fn, the unwrapped original) on every signing event."""

    def __init__(self, rec):
        import pycoin.ecdsa.Generator as GM
        import pycoin.ecdsa.rfc6979 as RM
        self.calls = []
        self.rec = rec
        self.fn = getattr(RM, NONCE_FN, None)
        self.sites = 0
        for mod in (RM, GM):
            orig = mod.__dict__.get(NONCE_FN)
            if callable(orig) and not getattr(orig, "_vmon_tap", False):
                setattr(mod, NONCE_FN, self._wrap(orig))
                self.sites += 1

    def _wrap(self, orig):
        me = self

        def wrapper(*a, **kw):
            me.rec.ev("tap:" + NONCE_FN)
            try:
                r = orig(*a, **kw)
            except BaseException as e:
                me.calls.append((a, kw, None, e))
                raise
            me.calls.append((a, kw, r, None))
            return r
        wrapper.__wrapped__ = orig
        wrapper._vmon_tap = True
        return wrapper

    def bind(self, a, kw):
        """(n, d, z) of a tapped call, or None when the call cannot be read as (order, key, hash[, sha256])."""
        import hashlib
        import inspect
        try:
            ba = inspect.signature(self.fn).bind(*a, **kw)
            ba.apply_defaults()
            vals = list(ba.arguments.values())
        except Exception:
            return None
        if len(vals) < 3 or not all(isinstance(v, int) for v in vals[:3]):
            return None
        if len(vals) > 3 and vals[3] is not hashlib.sha256:
            return None
        return tuple(vals[:3])

    def take(self):
        c, self.calls = self.calls, []
        return c


class Ctx:
    pass


class GeneratorUnavailable(Exception):
    pass


def get_ctx(curve, gen, rec):
    """the generator under test; if the library cannot even build / import it, that is reported as a violation
    (no operation of the property can succeed in that configuration) and the shard ends."""
    try:
        return _get_ctx(curve, gen, rec)
    except GeneratorUnavailable:
        raise
    except Exception as e:
        rec.violation("generator.construction_raises", {"kind": "import", "curve": curve, "gen": gen}, e, "a usable generator object")
        raise GeneratorUnavailable(str(e))


def _get_ctx(curve, gen, rec):
    key = (repr(curve), gen)
    if key in _STATE["ctx"]:
        ctx = _STATE["ctx"][key]
        ctx.rec = rec
        return ctx
    from pycoin.ecdsa.Generator import Generator
    from pycoin.key.Key import Key
    if _STATE["tap"] is None:
        _STATE["tap"] = Tap(rec)
    _STATE["tap"].rec = rec
    ctx = Ctx()
    ctx.rec = rec
    ctx.tap = _STATE["tap"]
    ctx.curve_id = curve
    ctx.gen = gen
    if isinstance(curve, str):
        c = BIG[curve]
        if gen == "module":
            if curve == "secp256k1":
                from pycoin.ecdsa.secp256k1 import secp256k1_generator as g
            else:
                from pycoin.ecdsa.secp256r1 import secp256r1_generator as g
        else:
            g = Generator(c.p, c.a % c.p, c.b, c.G, c.n)
    else:
        p, a, b, gx, gy, n = curve
        c = ec.Curve(p, a, b, (gx, gy), n, "toy(p=%d,a=%d,b=%d,n=%d)" % (p, a, b, n))
        g = Generator(p, a, b, (gx, gy), n)
    ctx.c, ctx.g = c, g
    ctx.toy = not isinstance(curve, str)
    ctx.native_sign = type(g).sign is not Generator.sign
    # "accelerated" = point multiplication is not the pure Curve.multiply any more (whatever the mix-in class is called)
    from pycoin.ecdsa.Curve import Curve as _PureCurve
    ctx.native_mul = (getattr(type(g), "multiply", None) is not _PureCurve.multiply or
                      any(k.__name__ == "Optimizations" and k.__module__.startswith("pycoin.ecdsa.native") for k in type(g).__mro__))
    ctx.cfg = "%s/%s" % (gen, "native-sign" if ctx.native_sign else "openssl" if ctx.native_mul else "pure")
    ctx.KeyClass = Key.make_subclass("VM", None, g)
    ctx.sg_cache = (None, None)
    ctx.nonce_by_k = {}
    ctx.nonce_by_r = {}
    _STATE["ctx"][key] = ctx
    return ctx


def base_case(ctx, kind, **kw):
    d = {"kind": kind, "curve": ctx.curve_id, "gen": ctx.gen}
    lr = _STATE.get("refused")
    if lr:
        # the last call the library refused in this process (replay repeats it first: state left behind by it matters)
        d["after_refused"] = list(lr)
        if _STATE.get("refusal_pending"):
            _STATE["refusal_pending"] = False
            ctx.rec.ev("errpath.judged_call_follows_refusal")
    pre = _STATE.get("after_curves")
    if pre:
        # other live generators (different curves, same base-point coordinates) that were asked the same thing just before
        d["after_curves"] = [list(x) for x in pre if list(x) != list(ctx.curve_id)]
    d.update(kw)
    return d


# ---------------------------------------------------------------------------------------------
# judges (each takes a plain case dict; replay_case goes through the same functions)

def ref_sign(ctx, d, z):
    key = (d, z)
    if ctx.sg_cache[0] != key:
        ctx.sg_cache = (key, RE.rfc6979_sign(ctx.c, d, z))
    return ctx.sg_cache[1]


def judge_sign(ctx, case):
    """returns (r, s, recid, sg) of a valid pycoin signature, or None."""
    rec, g, c = ctx.rec, ctx.g, ctx.c
    n = c.n
    d, z = case["d"], case["z"]
    ctx.tap.take()
    rec.ev("Generator.sign_with_recid")
    st, out = observe(g.sign_with_recid, d, z)
    taps = ctx.tap.take()
    rec.ev("Generator.sign")
    st2, out2 = observe(g.sign, d, z)
    taps2 = ctx.tap.take()
    rec.case(("sign", ctx.curve_id, ctx.cfg, d, z))
    sg = ref_sign(ctx, d, z)
    e = z % n
    if st != "ok" or st2 != "ok":
        if ctx.toy and not RE.signable(c, d, e):
            rec.ev("sign.no_signature_exists_skipped")
            return None
        mech = "sign.raises"
        exc = out if st != "ok" else out2
        if ctx.toy and isinstance(exc, TypeError) and all(0 in RE.raw_sign(c, d, e, k)[:2] for k in range(sg["k"], n)):
            mech = "sign.raises.retry_reaches_order"      # k += 1 walked from the first nonce up to k = n (point at infinity)
        rec.violation(mech, case, exc, "a signature (one exists, e.g. %r)" % (sg["valid"],))
        return None
    ok = True
    try:
        r, s, recid = out
        r2, s2 = out2
    except Exception:
        rec.violation("sign.malformed_result", case, [out, out2], "(r, s, recid) / (r, s)")
        return None
    if (r, s) != (r2, s2) and not ctx.native_sign and sg["first_ok"]:
        # (on the retry path the statement demands range and validity only, of each call separately)
        rec.violation("sign.sign_and_sign_with_recid_differ", case, [out, out2], "same (r, s)")
        ok = False
    Q = c.mul(d, c.G)
    for (rr, ss, api) in ((r, s, "sign_with_recid"), (r2, s2, "sign")):
        if not (isinstance(rr, int) and isinstance(ss, int) and 1 <= rr < n and 1 <= ss < n):
            rec.violation("sign.out_of_range" + (".s_zero" if ss == 0 else ".r_zero" if rr == 0 else ""), case, [rr, ss], "1 <= r, s < n")
            ok = False
        elif not RE.verify(c, Q, e, rr, ss):
            rec.violation("sign.does_not_verify", case, [rr, ss], "a signature valid under d*G")
            ok = False
    if sg["first_ok"] and ok:
        want = (sg["r"], sg["s"])
        if (r, s) != want:       # sign_with_recid is never overridden natively
            rec.violation("sign.differs_from_rfc6979", dict(case, api="sign_with_recid"), [r, s], want)
            ok = False
        if (r2, s2) != want and not (ctx.native_sign and (r2, n - s2) == want):
            rec.violation("sign.differs_from_rfc6979", dict(case, api="sign"), [r2, s2], want)
            ok = False
    if not sg["first_ok"]:
        rec.ev("sign.first_nonce_unusable(retry path)")
    if sg["first_ok"] and sg["R"][0] >= n:
        rec.ev("sign.nonce_point_x_ge_n(r = x - n)")
    # the nonce function itself, called directly (the unwrapped original) ...
    h1 = z.to_bytes(32, "big")
    if ctx.toy:
        qlen = n.bit_length()
        k0 = RN.bits2int(RN.HmacDrbg(hashlib.sha256, RN.int2octets(d, n) + RN.bits2octets(h1, n)).next_bits(qlen), qlen)
        if not 1 <= k0 < n:
            rec.ev("nonce.first_drbg_output_rejected(RFC 6979 step h.3 loop)")
    if ctx.tap.fn is not None:
        rec.ev("deterministic_generate_k")
        rec.ev("deterministic_generate_k.direct")
        stn, kd = observe(ctx.tap.fn, n, d, z)
        want_k = RN.nonce(n, d, h1)
        if stn != "ok":
            rec.violation("nonce.function_raises", dict(case, api="direct"), kd, want_k)
        elif kd != want_k:
            rec.violation("nonce.differs_from_rfc6979", dict(case, api="direct"), kd, want_k)
    # ... and as signing called it (tap). How signing reaches the function, and with which argument spelling, is not
    # the property's business: calls the tap cannot see or read are tallied; the signature comparison above decides.
    for which, tp, needed in (("sign_with_recid", taps, True), ("sign", taps2, not ctx.native_sign)):
        if needed and not tp:
            rec.ev("nonce.tap_saw_no_call(tallied)")
        for (a, kw, k, exc) in tp:
            rec.ev("deterministic_generate_k")
            rec.ev("deterministic_generate_k.tapped")
            bound = ctx.tap.bind(a, kw)
            if exc is not None or bound is None:
                rec.ev("nonce.tapped_call_raised_or_unreadable(tallied)")
                continue
            n_, d_, z_ = bound
            if (n_, d_, z_) != (n, d, z):
                rec.ev("nonce.tapped_call_with_other_argument_spelling(tallied)")
            want_k = RN.nonce(n_, d_, z_.to_bytes(32, "big")) if (1 <= d_ < n_ and 0 < z_ < 1 << 256) else None
            if want_k is not None and k != want_k:
                rec.violation("nonce.differs_from_rfc6979", dict(case, api=which), k, want_k)
            if n.bit_length() >= 128 and isinstance(k, int) and (n_, d_, z_ % n_) == (n, d, z % n):
                _nonce_table(ctx, case, d, z % n, k=k)
    if n.bit_length() >= 128:
        # r = x(kG) mod n: two (key, hash) pairs with one r have used one nonce (or its negative)
        for rr in dict.fromkeys((r, r2)):
            if isinstance(rr, int):
                _nonce_table(ctx, case, d, z % n, r=rr)
    return (r, s, recid, sg) if ok else None


def _nonce_table(ctx, case, d, zr, k=None, r=None):
    rec = ctx.rec
    if k is not None:
        prev = ctx.nonce_by_k.setdefault(k, (d, zr))
        if prev != (d, zr):
            rec.violation("nonce.shared_between_distinct_key_hash_pairs", dict(case, other={"d": prev[0], "z_mod_n": prev[1]}),
                          {"k": k}, "distinct nonces")
        rec.ev("nonce_table_entries")
    if r is not None:
        prev = ctx.nonce_by_r.setdefault(r, (d, zr))
        if prev != (d, zr):
            rec.violation("nonce.same_r_for_distinct_key_hash_pairs", dict(case, other={"d": prev[0], "z_mod_n": prev[1]}),
                          {"r": r}, "distinct r")
        rec.ev("nonce_table_r_entries")


def _reason(n, r, s):
    if not (isinstance(r, int) and 1 <= r < n):
        return "r_out_of_range"
    if not (isinstance(s, int) and 1 <= s < n):
        return "s_out_of_range"
    return "equation_false"


def _foreign_generator(ctx, Q=None):
    """another live Generator object that compares EQUAL to ctx.g (a Generator is the tuple of its base point) but is a
    different flavour: for the 256-bit curves the other implementation of the same curve (module-level, possibly OpenSSL
    backed <-> plain Generator(p, a, b, G, n)); for a toy curve of a twin family a generator of a DIFFERENT curve that
    also contains the point Q."""
    if ctx.toy:
        for cid in _STATE.get("twins", ()):
            o = _STATE["ctx"].get((repr(cid), "inproc"))
            if o is not None and o is not ctx and (Q is None or o.c.on_curve(tuple(Q))):
                return o.g
        return None
    fg = getattr(ctx, "foreign_g", None)
    if fg is None:
        if ctx.gen == "inproc":
            if ctx.curve_id == "secp256k1":
                from pycoin.ecdsa.secp256k1 import secp256k1_generator as fg
            else:
                from pycoin.ecdsa.secp256r1 import secp256r1_generator as fg
        else:
            from pycoin.ecdsa.Generator import Generator
            c = ctx.c
            fg = Generator(c.p, c.a % c.p, c.b, c.G, c.n)
        ctx.foreign_g = fg
    return fg


def judge_verify(ctx, case):
    rec, g, c = ctx.rec, ctx.g, ctx.c
    n = c.n
    Q, z, r, s = tuple(case["Q"]), case["z"], case["r"], case["s"]
    exp = RE.verify(c, Q, z % n, r, s)
    rec.ev("Generator.verify")
    if case.get("label"):
        rec.ev("verify." + case["label"])
    arg = Q
    if case.get("as_point") == "foreign":
        # the key as an object produced by ANOTHER generator that is equal by value: its Point, or (for Q = G) itself
        fg = _foreign_generator(ctx, Q)
        if fg is not None:
            st0, arg = observe(lambda: fg if Q == tuple(fg) else fg.Point(*Q))
            if st0 != "ok":
                arg = Q
            else:
                rec.ev("verify.key_is_foreign_generators_point")
    elif case.get("as_point"):
        arg = g.Point(*Q)
    sig = (r, s)
    mutable = bool(case.get("mutable"))
    if mutable:
        # caller-owned mutable arguments: lists instead of tuples
        arg, sig = list(Q), [r, s]
        rec.ev("verify.mutable_arguments")
    st, got = observe(g.verify, arg, z, sig)
    rec.case(("verify", ctx.curve_id, ctx.cfg, Q, z, r, s))
    if mutable and st != "ok":
        st_, got_ = observe(g.verify, Q, z, (r, s))
        if st_ == "ok":
            rec.ev("verify.mutable_arguments_refused(tallied)")        # lists not accepted (any more): not the statement's business
            mutable, st, got = False, st_, got_

    def verdict(st, got, which):
        if st != "ok":
            mech = "verify.raises"
            if 1 <= r < n and 1 <= s < n and RE.verification_point(c, Q, z % n, r, s) is None:
                mech = "verify.raises.point_at_infinity"
            rec.violation(mech, case if which == 1 else dict(case, call=which), got, exp)
        elif bool(got) != exp:
            if got and not exp:
                rec.violation("verify.accepts_invalid." + _reason(n, r, s), case if which == 1 else dict(case, call=which), got, exp)
            else:
                rec.violation("verify.rejects_valid", case if which == 1 else dict(case, call=which), got, exp)
    verdict(st, got, 1)
    if mutable:
        if arg != list(Q) or sig != [r, s]:
            rec.violation("verify.modifies_caller_argument", case, [arg, sig], [list(Q), [r, s]])
        else:
            # the same objects again: same question, same answer
            st, got = observe(g.verify, arg, z, sig)
            verdict(st, got, 2)
            if arg != list(Q) or sig != [r, s]:
                rec.violation("verify.modifies_caller_argument", case, [arg, sig], [list(Q), [r, s]])
    if exp and ctx.toy and RE.verification_point(c, Q, z % n, r, s)[0] >= n:
        rec.ev("verify.valid_nonce_point_x_ge_n(toy)")           # the region where "reduced mod n" matters
    return exp


def judge_recover(ctx, case):
    """case: z, r, s, y_parity, optional signer [x, y] and R [x, y] (the nonce point of the signing event)."""
    rec, g, c = ctx.rec, ctx.g, ctx.c
    n = c.n
    z, r, s, yp = case["z"], case["r"], case["s"], case.get("y_parity")
    e = z % n
    signer = tuple(case["signer"]) if case.get("signer") else None
    R = tuple(case["R"]) if case.get("R") else None
    # y_parity either absent, or taken from the recid sign_with_recid returned ("from_recid": "same" / "opposite"):
    # the signer's key must come back for the recid's own parity and must not for the opposite one
    fr = case.get("from_recid")
    must = signer is not None and R is not None and R[0] < n and (yp is None or fr == "same")
    must_not = signer is not None and R is not None and yp is not None and fr == "opposite"
    rec.ev("Generator.possible_public_pairs_for_signature")
    if case.get("label"):
        rec.ev("recover." + case["label"])
    if must:
        rec.ev("recover.signer_demanded")
    if must_not:
        rec.ev("recover.signer_excluded_by_parity_demanded")
    rec.case(("recover", ctx.curve_id, ctx.cfg, z, r, s, yp))
    recall = bool(case.get("recall"))
    sig = [r, s] if recall else (r, s)
    call = lambda: observe(g.possible_public_pairs_for_signature, z, sig, yp) if yp is not None else \
        observe(g.possible_public_pairs_for_signature, z, sig)
    st, got = call()
    if recall and st != "ok":
        sig, recall = (r, s), False
        st_, got_ = call()
        if st_ == "ok":
            rec.ev("recover.mutable_arguments_refused(tallied)")
            st, got = st_, got_
    _judge_recovered(ctx, case, st, got, must, must_not, signer, R)
    if recall and st == "ok":
        # caller-owned containers: the [r, s] list must be as it was; the returned list belongs to the caller, who may
        # edit it - the same question asked again (same argument objects) is judged by the same rules
        rec.ev("recover.asked_again_after_caller_edited_result")
        if sig != [r, s]:
            rec.violation("recover.modifies_caller_argument", case, sig, [r, s])
            return
        returned = got
        if isinstance(got, list):
            del got[:]
            got.append((0, 0))
        st, got = call()
        _judge_recovered(ctx, dict(case, call=2), st, got, must, must_not, signer, R)
        if st == "ok" and got is returned:
            rec.ev("recover.same_list_object_returned_twice(tallied)")
    if case.get("chain") and st == "ok":
        # producer x consumer: the Point objects recovery hands out, given to verify() and to Key as they are
        for P in list(got)[:2]:
            if P[0] is None:
                continue
            rec.ev("recover.returned_point_object_fed_to_verify")
            exp = RE.verify(c, tuple(P), e, r, s) if c.on_curve(tuple(P)) else False
            stv, v = observe(g.verify, P, z, (r, s))
            if stv == "ok" and bool(v) != exp:
                rec.violation("verify.rejects_valid" if exp else "verify.accepts_invalid." + _reason(n, r, s),
                              dict(case, Q_object="as returned by recovery", Q=list(P)), v, exp)
            elif stv != "ok" and exp:
                rec.violation("verify.raises", dict(case, Q_object="as returned by recovery", Q=list(P)), v, exp)


def _judge_recovered(ctx, case, st, got, must, must_not, signer, R):
    rec, c = ctx.rec, ctx.c
    n = c.n
    z, r, s, yp = case["z"], case["r"], case["s"], case.get("y_parity")
    e = z % n
    if st != "ok":
        if must:
            rec.violation("recover.raises_on_valid_signature", case, got, "list containing the signer's key")
        else:
            rec.ev("recover.exception_on_non_signature(tallied)")
        return
    pts = []
    rs = _reason(n, r, s)
    if rs == "equation_false" and r >= c.p:
        rs = "r_ge_p"                      # in [1, n-1] but not the x-coordinate of anything (only possible when n > p)
    elif rs != "equation_false":
        rs = "rs_out_of_range"
    for P in got:
        P = tuple(P)
        Qp = None if P[0] is None and P[1] is None else P
        pts.append(Qp)
        rec.ev("recover.returned_key")
        if rs != "equation_false":
            rec.violation("recover.returns_nonverifying_key." + rs, case, P, "no key: no key verifies such (r, s)")
            continue
        if not c.on_curve(Qp):
            rec.violation("recover.returns_off_curve_point", case, P, "a curve point")
            continue
        X = RE.verification_point(c, Qp, e, r, s)         # equals the nonce point R this key was recovered from
        if X is None or X[0] % n != r:
            rec.violation("recover.returns_nonverifying_key", case, P, "only keys under which (r, s) verifies")
        elif yp is not None and (X[1] & 1) != (yp & 1):
            rec.violation("recover.y_parity_not_selective", case, P, "keys from a nonce point with y parity %d" % (yp & 1))
    if must and signer not in pts:
        rec.violation("recover.signer_missing", case, got, signer)
    if must_not and signer in pts:
        rec.violation("recover.y_parity_not_selective", case, got, "signer's key only for the parity sign_with_recid reported")
    if signer is not None and R is not None and R[0] >= n:
        rec.ev("recover.nonce_point_x_ge_n(signer not demanded)")


def _h32(z):
    return z.to_bytes(32, "big")


def judge_key(ctx, case):
    """Key.sign -> DER -> Key.verify on private and public-only keys."""
    rec, c = ctx.rec, ctx.c
    n = c.n
    d, z = case["d"], case["z"]
    K = ctx.KeyClass
    rec.case(("key", ctx.curve_id, ctx.cfg, d, z))
    same = bool(case.get("same_object"))
    if same:
        # the persistent Key objects of this generator (refused calls are made on them, see errpath)
        E = _err_env(ctx)
        if not E or (d, z) != (E.d0, E.z0):
            return
        key = E.key
        rec.ev("Key.same_object_after_refused_call")
    else:
        st, key = observe(K, secret_exponent=d)
        if st != "ok":
            rec.violation("key.constructor_raises", case, key, "Key")
            return
    Q = c.mul(d, c.G)
    if tuple(key.public_pair()) != Q:
        rec.violation("key.public_pair_mismatch", case, key.public_pair(), Q)
    h = _h32(z)
    mutable = bool(case.get("mutable"))
    if mutable:
        h = bytearray(h)
        rec.ev("Key.mutable_arguments")
    ctx.tap.take()
    rec.ev("Key.sign")
    st, sig = observe(key.sign, h)
    ctx.tap.take()
    if mutable:
        if st != "ok":
            st_, sig_ = observe(key.sign, bytes(h))
            if st_ == "ok":
                rec.ev("Key.mutable_arguments_refused(tallied)")
                mutable, st, sig, h = False, st_, sig_, bytes(h)
        elif h != bytearray(_h32(z)):
            rec.violation("key.modifies_caller_argument", case, h, _h32(z))
            return
    sg = _err_env(ctx).sg0 if same else ref_sign(ctx, d, z)
    if st != "ok":
        if ctx.toy and not RE.signable(c, d, z % n):
            return
        mech = "key.sign_raises"
        if ctx.toy and isinstance(sig, TypeError) and all(0 in RE.raw_sign(c, d, z % n, k)[:2] for k in range(sg["k"], n)):
            mech = "sign.raises.retry_reaches_order"
        rec.violation(mech, case, sig, "DER signature")
        return
    try:
        r, s = RE.der_sig_decode(bytes(sig))
    except Exception as ex:
        rec.violation("key.sign_not_strict_der", case, sig, str(ex))
        return
    if not (1 <= r < n and 1 <= s < n and RE.verify(c, Q, z % n, r, s)):
        rec.violation("key.sign_invalid_signature", case, [r, s], "valid signature")
    elif sg["first_ok"] and (r, s) != (sg["r"], sg["s"]) and not (ctx.native_sign and (r, n - s) == (sg["r"], sg["s"])):
        rec.violation("key.sign_differs_from_rfc6979", case, [r, s], [sg["r"], sg["s"]])
    pubkey = _err_env(ctx).pub if same else K(public_pair=Q)
    for who, k in (("private", key), ("public", pubkey)):
        rec.ev("Key.verify")
        sigarg = bytearray(sig) if mutable else sig
        st, v = observe(k.verify, h, sigarg)
        if mutable and (st != "ok" or not v):
            st_, v_ = observe(k.verify, bytes(h), bytes(sig))
            if st_ == "ok" and v_:
                rec.ev("Key.mutable_arguments_refused(tallied)")
                continue
        if st != "ok" or not v:
            rec.violation("key.verify_rejects_own_signature", dict(case, who=who), v, True)
        elif mutable and (h != bytearray(_h32(z)) or sigarg != bytearray(sig)):
            rec.violation("key.modifies_caller_argument", dict(case, who=who), [h, sigarg], [_h32(z), sig])


def judge_key_verify(ctx, case):
    rec, c = ctx.rec, ctx.c
    n = c.n
    Q, z, r, s = tuple(case["Q"]), case["z"], case["r"], case["s"]
    exp = RE.verify(c, Q, z % n, r, s)
    rec.case(("key_verify", ctx.curve_id, ctx.cfg, Q, z, r, s))
    st, k = observe(ctx.KeyClass, public_pair=Q)
    if st != "ok":
        rec.violation("key.constructor_raises", case, k, "Key")
        return
    der = RE.der_sig(r, s)
    rec.ev("Key.verify")
    if case.get("label"):
        rec.ev("Key.verify." + case["label"])
    st, got = observe(k.verify, _h32(z), der)
    if st != "ok":
        mech = "key.verify_raises"
        if 1 <= r < n and 1 <= s < n and RE.verification_point(c, Q, z % n, r, s) is None:
            mech = "key.verify_raises.point_at_infinity"
        rec.violation(mech, case, got, exp)
    elif bool(got) != exp:
        rec.violation("key.verify_accepts_invalid." + _reason(n, r, s) if got else "key.verify_rejects_valid", case, got, exp)


JUDGES = {"sign": judge_sign, "verify": judge_verify, "recover": judge_recover, "key": judge_key, "key_verify": judge_key_verify}


# ---------------------------------------------------------------------------------------------
# class A: calls the library refuses (most of them part-way through), interleaved with the judged calls on the same
# generator / Key objects. A refusal (or an acceptance) is never judged; the judged calls that FOLLOW must be right.

class _Env:
    pass


def _off_curve(c, Q):
    x, y = Q
    for dy in (1, 2):
        P = (x, (y + dy) % c.p)
        if not c.on_curve(P):
            return P
    return (x, y)


def _raising_gen_k(*a, **kw):
    raise RuntimeError("nonce source unavailable")


ERR_MENU = [
    ("mul_none", lambda E: E.g * None),
    ("sign_hash_zero", lambda E: E.g.sign(E.d, 0)),
    ("verify_offcurve_key", lambda E: E.g.verify(E.off, E.z, (E.r, E.s))),
    ("recover_hash_none", lambda E: E.g.possible_public_pairs_for_signature(None, (E.r, E.s))),
    ("key_secret_zero", lambda E: E.K(secret_exponent=0)),
    ("nonce_key_none", lambda E: E.fn(E.n, None, E.z)),
    ("rmul_str", lambda E: "7" * E.g),
    ("sign_key_none", lambda E: E.g.sign(None, E.z)),
    ("verify_sig_short", lambda E: E.g.verify(E.Q, E.z, (E.r,))),
    ("recover_sig_short", lambda E: E.g.possible_public_pairs_for_signature(E.z, (E.r,))),
    ("key_sign_none", lambda E: E.key.sign(None)),
    ("nonce_hash_str", lambda E: E.fn(E.n, E.d, "7")),
    ("mul_float", lambda E: E.g * 1.5),
    ("sign_key_str", lambda E: E.g.sign_with_recid("1", E.z)),
    ("verify_hash_none", lambda E: E.g.verify(E.Q, None, (E.r, E.s))),
    ("recover_s_str", lambda E: E.g.possible_public_pairs_for_signature(E.z, (E.r, "1"))),
    ("key_sign_str", lambda E: E.key.sign("00" * 32)),
    ("nonce_hash_negative", lambda E: E.fn(E.n, E.d, -1)),
    ("rmul_none", lambda E: None * E.g),
    ("sign_key_float", lambda E: E.g.sign(1.5, E.z)),
    ("verify_s_str", lambda E: E.g.verify(E.Q, E.z, (E.r, "1"))),
    ("recover_parity_str", lambda E: E.g.possible_public_pairs_for_signature(E.z, (E.r, E.s), "x")),
    ("key_sign_public_only", lambda E: E.pub.sign(E.h)),
    ("nonce_hash_too_wide", lambda E: E.fn(E.n, E.d, 1 << 300)),
    ("point_offcurve", lambda E: E.g.Point(*E.off)),
    ("sign_hash_none", lambda E: E.g.sign_with_recid(E.d, None)),
    ("verify_s_float", lambda E: E.g.verify(E.Q, E.z, (E.r, 1.5))),
    ("recover_r_none", lambda E: E.g.possible_public_pairs_for_signature(E.z, (None, E.s))),
    ("key_verify_sig_none", lambda E: E.key.verify(E.h, None)),
    ("nonce_order_zero", lambda E: E.fn(0, E.d, E.z)),
    ("sign_hash_str", lambda E: E.g.sign(E.d, "abc")),
    ("verify_key_none", lambda E: E.g.verify(None, E.z, (E.r, E.s))),
    ("key_verify_hash_str", lambda E: E.pub.verify("x", E.der)),
    ("sign_hash_float", lambda E: E.g.sign(E.d, 2.5)),
    ("verify_sig_none", lambda E: E.g.verify(E.Q, E.z, None)),
    ("key_secret_is_order", lambda E: E.K(secret_exponent=E.n)),
    ("sign_hash_bytes", lambda E: E.g.sign(E.d, E.h)),
    ("verify_key_short", lambda E: E.g.verify((E.Q[0],), E.z, (E.r, E.s))),
    ("key_secret_str", lambda E: E.K(secret_exponent="1")),
    ("sign_nonce_source_raises", lambda E: E.g.sign(E.d, E.z, _raising_gen_k)),
    ("verify_hash_float", lambda E: E.g.verify(E.Q, 2.5, (E.r, E.s))),
    ("key_both_given", lambda E: E.K(secret_exponent=E.d, public_pair=E.Q)),
    ("sign_nonce_source_none", lambda E: E.g.sign_with_recid(E.d, E.z, lambda *a: None)),
    ("verify_r_none", lambda E: E.g.verify(E.Q, E.z, (None, E.s))),
    ("key_offcurve", lambda E: E.K(public_pair=E.off)),
    ("sign_nonce_source_str", lambda E: E.g.sign(E.d, E.z, lambda *a: "5")),
    ("verify_hash_str", lambda E: E.g.verify(E.Q, "ab", (E.r, E.s))),
    ("key_verify_garbage_der", lambda E: E.key.verify(E.h, b"\x30\x06\x02\x01")),
    ("sign_nonce_source_zero", lambda E: E.g.sign(E.d, E.z, lambda *a: 0)),
    ("sign_nonce_source_float", lambda E: E.g.sign(E.d, E.z, lambda *a: 1.5)),
    ("sign_missing_hash", lambda E: E.g.sign(E.d)),
]
ERR_BY_NAME = dict(ERR_MENU)
ERR_GROUPS = ("mul", "sign", "verify", "recover", "key", "nonce")
REQUIRED_ERRPATH = ("errpath.refused_call", "errpath.judged_call_follows_refusal") + tuple("errpath.kind:" + k for k in ERR_GROUPS)


def _err_env(ctx):
    """fixed valid material (key, hash, signature, persistent Key objects) the refused calls are built around."""
    E = getattr(ctx, "err_env", None)
    if E is not None:
        return E
    c, n = ctx.c, ctx.c.n
    E = _Env()
    E.g, E.K, E.fn, E.n = ctx.g, ctx.KeyClass, (ctx.tap.fn or (lambda *a: None)), n
    E.z0 = None
    for d0 in dict.fromkeys([0xC01 % (n - 1) + 1] + (list(range(1, n)) if ctx.toy else [])):
        for z in [(1 << 255) + 0xC01] + list(range(0xC01, 0xC01 + (40 if ctx.toy else 1))):
            sg = RE.rfc6979_sign(c, d0, z)
            if sg["valid"] and sg["first_ok"]:
                E.d0, E.z0, E.sg0 = d0, z, sg
                break
        if E.z0 is not None:
            break
    if E.z0 is None:
        ctx.err_env = False
        return False
    E.Q0 = c.mul(E.d0, c.G)
    E.r0, E.s0 = E.sg0["r"], E.sg0["s"]
    E.h = _h32(E.z0)
    E.der = RE.der_sig(E.r0, E.s0)
    st, E.key = observe(E.K, secret_exponent=E.d0)
    st2, E.pub = observe(E.K, public_pair=E.Q0)
    if st != "ok" or st2 != "ok":
        ctx.err_env = False          # judge_key reports constructor failures
        return False
    ctx.err_env = E
    return E


def errpath(ctx, d=None, z=None, r=None, s=None, name=None, follow=True):
    """one refused call (the next of the menu, or the named one) on the generator / Key objects of ctx."""
    E = _err_env(ctx)
    if not E:
        return
    rec, c = ctx.rec, ctx.c
    if name is None:
        i = getattr(ctx, "err_i", 0)
        ctx.err_i = i + 1
        name = ERR_MENU[i % len(ERR_MENU)][0]
    fn = ERR_BY_NAME.get(name)
    if fn is None:
        return
    if d is None or z is None or not r or not s:
        d, z, r, s = E.d0, E.z0, E.r0, E.s0
    E.d, E.z, E.r, E.s = d, z, r, s
    E.Q = c.mul(d, c.G)
    E.off = _off_curve(c, E.Q)
    st, out = observe(fn, E)
    rec.ev("errpath.refused_call" if st == "exc" else "errpath.call_not_refused(tallied)")
    group = name.split("_")[0]
    rec.ev("errpath.kind:" + ("mul" if group in ("mul", "rmul", "point") else group))
    _STATE["refused"] = (name, ctx.curve_id, ctx.gen)
    _STATE["refusal_pending"] = True
    if follow and name.startswith("key_"):
        # the very same Key objects must still sign / verify correctly
        judge_key(ctx, base_case(ctx, "key", d=E.d0, z=E.z0, same_object=True))


# ---------------------------------------------------------------------------------------------
# workloads

def forgeries(c, rng, d, z, r, s, other_Q, other_z, which):
    """(label, Q, z, r, s) families around one valid signature. `which`: 'full' or an int rotating a lite subset."""
    n = c.n
    Q = c.mul(d, c.G)
    M = (1 << 256) - 1
    zshift = z + n if z + n <= M else z - n
    out = [("valid", Q, z, r, s),
           ("other_key", other_Q, z, r, s),
           ("other_hash", Q, other_z, r, s),
           ("s_negated(valid)", Q, z, r, n - s),
           ("z_shifted_by_n(valid)", Q, zshift if zshift > 0 else z, r, s),
           ("Q_negated", c.neg(Q), z, r, s),
           ("swapped", Q, z, s, r),
           ("degenerate_infinity", Q, z, -z * pow(d, -1, n) % n, s),
           ("degenerate_infinity", Q, z, -z * pow(d, -1, n) % n, rng.randrange(1, n)),
           ("r_plus_1", Q, z, r + 1, s),
           ("s_bitflip", Q, z, r, s ^ (1 << rng.randrange(0, 256))),
           ("z_bitflip", Q, z ^ (1 << rng.randrange(0, 256)) or 1, r, s)]
    # the degenerate (infinity) forgery with r tied to the key itself: r = x(Q) mod n, z = -r*d  (a backend that reads the
    # result back into the buffers holding Q would "find" x(Q) = r)
    rq = Q[0] % n
    zq = (-rq * d) % n
    if rq and zq:
        out.append(("degenerate_infinity_r_is_Qx", Q, zq, rq, s))
        out.append(("degenerate_infinity_r_is_Qx", Q, zq, rq, rng.randrange(1, n)))
    # (the doubling relation z = r*d - both terms the same point - needs its own nonce: see special_cases)
    for v in (0, n, n + r, M, -r):
        out.append(("r_out_of_range", Q, z, v, s))
    for v in (0, n, n + s, M, -s):
        out.append(("s_out_of_range", Q, z, r, v))
    out.append(("rs_out_of_range", Q, z, n + r, n + s))
    if which == "full":
        return out
    i = which
    lite = [out[0], out[1 + i % 2], out[3 + i % 2], out[5 + i % 2], out[7], out[12], out[14 + i % 10], out[14 + (i + 5) % 10]]
    if i % 3 == 0:
        lite.append(out[9 + (i // 3) % 3])
    return lite


def d_pool(n, rng):
    ks = (1, 8, 31, 32, 63, 64, 127, 128, 129, 191, 192, 254, 255)
    b = [1, 2, 3, n - 1, n - 2, n - 3, n // 2, n // 2 + 1]
    for k in ks:
        b += [2 ** k, 2 ** k - 1, 2 ** k + 1]
    return [v for v in dict.fromkeys(b) if 1 <= v < n]


def z_pool(n, rng):
    M = (1 << 256) - 1
    b = [1, 2, n - 1, n, n + 1, M, M - 1, 1 << 255, (1 << 255) - 1, (1 << 255) + 1, n - 2, n + 2, 1 << 128, (1 << 248) + 1, M - n, M - n + 1]
    return [v for v in dict.fromkeys(b) if 1 <= v <= M]


REQUIRED_OPS = ("Generator.sign", "Generator.sign_with_recid", "Generator.verify", "Generator.possible_public_pairs_for_signature",
                "Key.sign", "Key.verify", "deterministic_generate_k")
# one counter per clause / listed kind of the statement (merged over all shards; any of them at 0 -> INCONCLUSIVE)
REQUIRED_BIG = ("deterministic_generate_k.direct", "nonce_table_r_entries",
                "verify.valid", "verify.other_key", "verify.other_hash", "verify.r_out_of_range", "verify.s_out_of_range",
                "verify.rs_out_of_range", "verify.s_negated(valid)", "verify.z_shifted_by_n(valid)", "verify.degenerate_infinity",
                "verify.valid_wrapped_nonce_x_ge_n", "verify.valid_doubling", "Key.verify.valid", "Key.verify.valid_doubling",
                "Key.verify.other_key", "Key.verify.other_hash", "Key.verify.r_out_of_range", "Key.verify.s_out_of_range",
                "recover.signer_demanded", "recover.signer_excluded_by_parity_demanded", "recover.returned_key",
                "recover.s_negated", "recover.valid_wrapped_nonce_x_ge_n", "recover.valid_doubling",
                "recover.other_candidate_is_infinity")
REQUIRED_MUTABLE = ("verify.mutable_arguments", "recover.asked_again_after_caller_edited_result", "Key.mutable_arguments")
REQUIRED_TOY = ("sign.first_nonce_unusable(retry path)", "nonce.first_drbg_output_rejected(RFC 6979 step h.3 loop)",
                "verify.valid_in_table", "recover.signer_demanded", "recover.s_negated")
REQUIRED_TOY_WRAP = ("sign.nonce_point_x_ge_n(r = x - n)", "verify.valid_nonce_point_x_ge_n(toy)",
                     "recover.nonce_point_x_ge_n(signer not demanded)")


def recover_variants(c, r, s, recid, R):
    """(label, s, y_parity, from_recid, nonce point) for one valid signature: no parity / the reported parity / the
    opposite one, and the malleated twin (r, n - s), whose nonce point is -R (same x, other parity)."""
    n = c.n
    out = [("signer", s, None, None, R), ("signer", s, recid & 1, "same", R), ("signer", s, 1 - (recid & 1), "opposite", R)]
    if R is not None:
        Rn = c.neg(R)
        out += [("s_negated", n - s, None, None, Rn), ("s_negated", n - s, 1 - (recid & 1), "same", Rn)]
    return out


def special_cases(ctx, rng, d, Q, i, lite=False):
    """hand-built VALID signatures of key d (nonce k, R = kG, r = x(R) mod n, s = (z + r d)/k) for hashes tied to r and d:
       z =  r d      the two terms of (z/s)G + (r/s)Q are the SAME point: the verification sum is a doubling
       z = -r d / 2  recovery's candidate from -R is the point at infinity and the one from R needs a doubling
    Both happen with probability ~2^-256 for a deterministic signer; verification must accept, recovery must return d*G."""
    c, n = ctx.c, ctx.c.n
    k = rng.randrange(1, n)
    R = c.mul(k, c.G)
    r = R[0] % n
    if r == 0:
        return
    ki = pow(k, -1, n)
    M = (1 << 256) - 1
    up = lambda z: z + n if (i // 4) % 2 and z + n <= M else z          # the same hash class, spelled z or z + n
    z1 = r * d % n
    s1 = ki * (z1 + r * d) % n
    z2 = -r * d * pow(2, -1, n) % n
    s2 = ki * (z2 + r * d) % n
    yR = R[1] & 1
    rot = (i // 4) % 3
    if z1 and s1:
        z1 = up(z1)
        judge_verify(ctx, base_case(ctx, "verify", Q=list(Q), z=z1, r=r, s=s1, label="valid_doubling", as_point=bool(i % 8 == 1)))
        if not lite or rot == 0:
            judge_verify(ctx, base_case(ctx, "verify", Q=list(Q), z=z1, r=r, s=n - s1, label="valid_doubling", as_point=False))
        if not lite or rot == 1:
            judge_verify(ctx, base_case(ctx, "verify", Q=list(Q), z=z1, r=r, s=s1 % (n - 1) + 1, label="doubling_wrong_s", as_point=False))
        if not lite or rot == 2:
            judge_key_verify(ctx, base_case(ctx, "key_verify", Q=list(Q), z=z1, r=r, s=s1, label="valid_doubling"))
        if not lite:
            judge_recover(ctx, base_case(ctx, "recover", z=z1, r=r, s=s1, y_parity=None, signer=list(Q), R=list(R), label="valid_doubling"))
    if z2 and s2:
        z2 = up(z2)
        if not lite:
            judge_verify(ctx, base_case(ctx, "verify", Q=list(Q), z=z2, r=r, s=s2, label="valid_recovery_twin_is_infinity", as_point=False))
        for j, (yp, fr) in enumerate(((None, None), (yR, "same"), (1 - yR, "opposite"))):
            if not lite or j == 0 or j == 1 + rot % 2:
                judge_recover(ctx, base_case(ctx, "recover", z=z2, r=r, s=s2, y_parity=yp, from_recid=fr, signer=list(Q), R=list(R),
                                             label="other_candidate_is_infinity"))


STRUCT_J_QUICK = (257, 256, 255, 192, 129, 128, 65, 64, 54, 53, 32)
STRUCT_CORE = frozenset(("3t=2^j-(1|2)", "3t=2^j-(4|5)", "3t=2^j+(1|2)", "3t=2^j+(4|5)", "t=2^j-1", "t=2^j", "t=2^j+1"))
STRUCT_MODES = ("u2", "u1", "s_over_r", "z_over_r")
REQUIRED_STRUCT = ("verify.valid_structured_u2", "verify.valid_structured_u1", "recover.structured_s_over_r",
                   "recover.structured_z_over_r", "sign.structured_key")


def structured_scalars(n, tier):
    """[(form, t)] with 0 < t < n: scalars whose binary expansion is anything but random - t, or 3t (what a NAF ladder
    walks), within a few units of a power of two ON EITHER SIDE, repeating bit patterns, runs of ones, the same counted
    down from the group order, and the halves / thirds of the order. A uniformly random 256-bit scalar is never one of
    them, so no signature made by a signer ever multiplies a key by one; a hand-built valid signature can."""
    L = n.bit_length()
    js = range(3, L + 2) if tier != "quick" else [j for j in STRUCT_J_QUICK if j <= L + 1]
    out, seen = [], set()

    def put(form, t, neg=True):
        for f, v in ((form, t), ("n-(" + form + ")", n - t)) if neg else ((form, t),):
            if 0 < v < n and v not in seen:
                seen.add(v)
                out.append((f, v))
    for j in js:
        P2 = 1 << j
        lo = (P2 - 1) // 3                      # 0x55..55 / 0x2a..aa: 3t = 2^j - 1 or 2^j - 2
        hi = (P2 + 2) // 3                      # 3t = 2^j + 1 or 2^j + 2
        put("3t=2^j-(1|2)", lo)
        put("3t=2^j-(4|5)", lo - 1)
        put("3t=2^j+(1|2)", hi)
        put("3t=2^j+(4|5)", hi + 1)
        put("t=2^j-1", P2 - 1)
        put("t=2^j", P2)
        put("t=2^j+1", P2 + 1)
        put("t=ones_then_zeros", P2 - (1 << (j // 2)))
        put("t=0x33..33", (P2 - 1) // 5)
        put("t=0x0f..0f", (P2 - 1) // 17)
    for form, t in (("t=1", 1), ("t=2", 2), ("t=3", 3), ("t=(n-1)/2", (n - 1) // 2), ("t=(n+1)/2", (n + 1) // 2),
                    ("t=n//3", n // 3), ("t=n//3+1", n // 3 + 1), ("t=2n//3", 2 * n // 3), ("t=2n//3+1", 2 * n // 3 + 1),
                    ("t=1/3", pow(3, -1, n))):
        put(form, t)
    return out


def structured_cases(ctx, rng, spec, want_pure):
    """hand-built VALID signatures (key d, nonce k, R = kG, r = x(R) mod n, s = (z + r d)/k) in which one of the scalars the
    verifier / the recovery multiplies a point by is a chosen structured value t (structured_scalars):
       u2       r/s = t    verification multiplies the KEY by t           s = r/t,        z = s k - r d
       u1       z/s = t    verification multiplies G by t                 s = r d/(k-t),  z = t s
       s_over_r s/r = t    recovery multiplies the nonce point by t       s = r t,        z = s k - r d
       z_over_r -z/r = t   recovery multiplies G by t                     z = -t r,       s = (z + r d)/k
    and signing with d = t itself (public key t*G). Judged by the ordinary judges: verification must accept, recovery must
    return d*G (x(R) < n), the signature of key t must be the RFC 6979 one."""
    rec, c = ctx.rec, ctx.c
    n = c.n
    rec.require(*REQUIRED_STRUCT)
    rec.require("structured.u2:%s/%s" % (spec["curve"], "pure" if want_pure else "openssl"))
    pool = structured_scalars(n, spec["tier"])
    k0, K = spec.get("sslice") or [0, 1]
    mine = list(enumerate(pool))[k0::K]
    seed = int(spec["seed"])
    d = rng.randrange(1, n)
    Q = c.mul(d, c.G)
    for idx, (form, t) in mine:
        other = STRUCT_MODES[1 + (idx + seed) % 3]
        if spec["tier"] != "quick":
            modes = ("u2", other) if want_pure else STRUCT_MODES
        elif want_pure:
            # ~25 ms per multiplication. Every run, whatever the seed: the key multiplied by each t that is (or whose triple
            # is) next to a power of two; the other forms and the other three multipliers in rotation (the seed moves it)
            core = form in STRUCT_CORE
            turn = (idx + seed) % 4 == 0
            modes = (("u2",) if core or turn else ()) + ((other,) if (idx + seed) % 4 == 1 else ())
        else:
            modes = ("u2", other) + ((STRUCT_MODES[1 + (idx + seed + 1) % 3],) if idx % 2 else ())
        if not modes:
            continue
        if idx % 16 == 15:
            d = rng.randrange(1, n)
            Q = c.mul(d, c.G)
        rec.ev("structured.form:" + form)
        for mode in modes:
            k = rng.randrange(1, n)
            R = c.mul(k, c.G)
            r = R[0] % n
            if r == 0 or (k - t) % n == 0:
                continue
            if mode == "u2":
                s = r * pow(t, -1, n) % n
                z = (s * k - r * d) % n
            elif mode == "u1":
                s = r * d * pow(k - t, -1, n) % n
                z = t * s % n
            elif mode == "s_over_r":
                s = r * t % n
                z = (s * k - r * d) % n
            else:
                z = -t * r % n
                s = pow(k, -1, n) * (z + r * d) % n
            if z == 0 or s == 0:
                rec.ev("structured.degenerate_skipped(tallied)")
                continue
            si = pow(s, -1, n)
            got_t = {"u2": r * si % n, "u1": z * si % n, "s_over_r": s * pow(r, -1, n) % n, "z_over_r": -z * pow(r, -1, n) % n}[mode]
            if got_t != t or not RE.verify(c, Q, z, r, s) or s != pow(k, -1, n) * (z + r * d) % n:
                rec.ev("inconclusive:structured_builder")
                rec.note("structured_cases built something that is not a valid signature with the promised multiplier: %r" % ((mode, form, t),))
                continue
            if (idx // 2) % 4 == 3 and z + n < (1 << 256):
                z += n                               # the same hash class, spelled z + n
            if mode in ("u2", "u1"):
                judge_verify(ctx, base_case(ctx, "verify", Q=list(Q), z=z, r=r, s=s, label="valid_structured_" + mode,
                                            as_point=bool(idx % 3 == 0), structured=[mode, form]))
                if mode == "u2":
                    rec.ev("structured.u2:%s/%s" % (spec["curve"], "openssl" if ctx.native_mul else "pure"))
            else:
                judge_recover(ctx, base_case(ctx, "recover", z=z, r=r, s=s, y_parity=[None, R[1] & 1][idx % 2],
                                             from_recid=[None, "same"][idx % 2], signer=list(Q), R=list(R),
                                             label="structured_" + mode, structured=[mode, form]))
        # the structured value as the private key: d*G and r*d with d = t
        if idx % (4 if not want_pure else 16) == seed % 4:
            rec.ev("sign.structured_key")
            judge_sign(ctx, base_case(ctx, "sign", d=t, z=rng.randrange(1, 1 << 256), structured=["key", form]))


def run_big(spec, rec):
    import pycoin.ecdsa.native.secp256k1 as NS
    ctx = get_ctx(spec["curve"], spec["gen"], rec)
    c, n = ctx.c, ctx.c.n
    rng = shard_rng(spec["seed"], PROPERTY, spec["tier"], spec["shard"])
    rec.require(*REQUIRED_OPS)
    rec.require(*REQUIRED_BIG)
    rec.require(*REQUIRED_ERRPATH)
    rec.require(*REQUIRED_MUTABLE)
    rec.require("verify.key_is_foreign_generators_point", "recover.returned_point_object_fed_to_verify",
                "interleave.other_generator_same_process")
    if NS.libsecp256k1 is None:
        rec.ev("config_absent:libsecp256k1")
        rec.note("libsecp256k1 not loadable: configuration absent")
    want_pure = bool(spec.get("env")) or spec["gen"] == "inproc"
    if want_pure and ctx.native_mul:
        raise RuntimeError("shard meant to run the pure path but the generator has native optimisations")
    # the configuration a shard was planned for must be the one that ran: an "openssl" shard that silently ran the pure
    # arithmetic leaves the OpenSSL-accelerated configuration of the quantifier unobserved -> INCONCLUSIVE, not "held"
    rec.require("config_active:%s/%s" % (spec["curve"], "pure" if want_pure else "openssl"))
    rec.ev("config_active:%s/%s" % (spec["curve"], "openssl" if ctx.native_mul else "pure"))
    if not want_pure and not ctx.native_mul:
        rec.note("OpenSSL optimisations not active in the default worker: OpenSSL configuration absent, shard ran pure")
        rec.ev("config_absent:openssl")
        rec.ev("config:" + spec.get("label", ctx.cfg) + "(ABSENT, ran pure)")
    else:
        rec.ev("config:" + spec.get("label", ctx.cfg))
    dp, zp = d_pool(n, rng), z_pool(n, rng)
    rng.shuffle(dp)
    rng.shuffle(zp)
    N = spec["families"]
    if not want_pure and not ctx.native_mul:
        N = min(N, 8)            # the run is INCONCLUSIVE anyway (config_active); do not spend an OpenSSL-sized budget on pure arithmetic
    prev_d, prev_z = dp[0], zp[0]
    rnd_d = lambda: rng.randrange(1, n) if rng.random() < 0.7 else rng.choice(dp)
    rnd_z = lambda: (rng.randrange(1, 1 << 256) if rng.random() < 0.75 else rng.choice(zp))
    for i in range(N):
        u = rng.random()
        if i < min(len(dp), N // 3):
            d, z = dp[i], (zp[i % len(zp)] if i % 2 else prev_z)
        elif u < 0.2:
            d, z = prev_d, rnd_z()
        elif u < 0.4:
            d, z = rnd_d(), prev_z
        else:
            d, z = rnd_d(), rnd_z()
        prev_d, prev_z = d, z
        sg = ref_sign(ctx, d, z)
        r, s = sg["r"], sg["s"]
        fol = not want_pure or i % 3 == 0                # (pure arithmetic: ~25 ms per multiplication)
        errpath(ctx, d, z, r, s, follow=fol)             # class A: a refused call before each group of judged calls
        res = judge_sign(ctx, base_case(ctx, "sign", d=d, z=z))
        sg = ref_sign(ctx, d, z)
        Q = c.mul(d, c.G)
        d2 = rnd_d()
        while d2 == d:
            d2 = rnd_d()
        z2 = rnd_z()
        while z2 % n == z % n:
            z2 = rnd_z()
        mode = spec["forgeries"]
        full = mode == "full" or (mode == "mixed" and i % 3 == 0)
        fs = forgeries(c, rng, d, z, r, s, c.mul(d2, c.G), z2, "full" if full else i)
        errpath(ctx, d, z, r, s, follow=fol)
        for j, (label, Qf, zf, rf, sf) in enumerate(fs):
            # the key as a plain tuple / this generator's Point / a Point of the other live generator of this curve
            # (openssl-backed <-> plain: equal by value, different flavour) / a caller-owned list (asked twice)
            form = (i + j) % 4
            foreign = form == 2 and (j < 2 or (not want_pure and j % 3 == 0))
            judge_verify(ctx, base_case(ctx, "verify", Q=list(Qf), z=zf, r=rf, s=sf, label=label,
                                        as_point="foreign" if foreign else bool(form == 0),
                                        mutable=bool(form == 3 and (j < 3 or not want_pure))))
        # recovery: no parity, signer's parity, opposite parity; pure configurations rotate (each call costs 2-4 multiplies)
        recid = res[2] if res else (sg["R"][1] & 1)
        variants = recover_variants(c, r, s, recid, sg["R"])
        if mode == "lite":
            variants = [variants[i % len(variants)]]
        else:
            variants = variants[:3] + [variants[3 + i % 2]]
        errpath(ctx, d, z, r, s, follow=fol)
        for vi, (label, sv, yp, fr, Rv) in enumerate(variants):
            judge_recover(ctx, base_case(ctx, "recover", z=z, r=r, s=sv, y_parity=yp, from_recid=fr, signer=list(Q), R=list(Rv),
                                         label=label, recall=bool((i + vi) % 4 == 0 and (not want_pure or i % 3 == 0)),
                                         chain=bool((i + vi) % 4 == 2 and (not want_pure or i % 3 == 1))))
        if full:
            lab, Qf, zf, rf, sf = fs[12 + (i // 3) % 11]
            judge_recover(ctx, base_case(ctx, "recover", z=zf, r=rf, s=sf, y_parity=None))
        # Key / DER layer
        if mode != "lite" or i % 3 == 0:
            errpath(ctx, d, z, r, s, follow=fol)
            judge_key(ctx, base_case(ctx, "key", d=d, z=z, mutable=bool(i % 2)))
            pick = fs if full and i % 4 == 0 else [fs[0], fs[(i // 3) % len(fs)], fs[7 if full else 4]]
            for (label, Qf, zf, rf, sf) in pick:
                judge_key_verify(ctx, base_case(ctx, "key_verify", Q=list(Qf), z=zf, r=rf, s=sf, label=label))
        # pairs that collide as Python hash values (ints hash modulo 2^61-1): anything memoised on hash((n, d, z)) or in a
        # dict keyed by a hash value would hand the second request the first one's nonce
        if i % 5 == 2:
            Mh = (1 << 61) - 1
            for d2_, z2_ in ((d, z + Mh), (d, z + 3 * Mh), (d + Mh if d + Mh < n else d - Mh, z), (d, z ^ (1 << 61))):
                if 1 <= d2_ < n and 0 < z2_ < (1 << 256):
                    judge_sign(ctx, base_case(ctx, "sign", d=d2_, z=z2_, label="python_hash_collision_pair"))
        # hand-built VALID signatures whose nonce point has n <= x < p (so r = x - n): Q = r^-1 (s R - z G).
        # No signer ever produces them on the production curves (probability ~2^-128), verification must still accept
        # them, and recovery need not return the signer.
        if i % 6 == 0 and c.p > n:
            j = 1 + (i // 6) % 40
            while c.lift_x(n + j) is None or n + j >= c.p:
                j += 1
            R = c.lift_x(n + j)[i % 2]
            rw, sw, zw = j, rng.randrange(1, n), rnd_z()
            Qw = c.mul(pow(rw, -1, n), c.add(c.mul(sw, R), c.neg(c.mul(zw % n, c.G))))
            if Qw is not None:
                judge_verify(ctx, base_case(ctx, "verify", Q=list(Qw), z=zw, r=rw, s=sw, label="valid_wrapped_nonce_x_ge_n", as_point=False))
                judge_verify(ctx, base_case(ctx, "verify", Q=list(Qw), z=zw, r=rw, s=n - sw, label="valid_wrapped_nonce_x_ge_n", as_point=False))
                judge_verify(ctx, base_case(ctx, "verify", Q=list(Qw), z=zw, r=rw + 1, s=sw, label="wrapped_nonce_wrong_r", as_point=False))
                # recovery only lifts x = r: the signer need not come back, whatever does must verify
                judge_recover(ctx, base_case(ctx, "recover", z=zw, r=rw, s=sw, y_parity=[None, 0, 1][(i // 6) % 3], signer=list(Qw),
                                             R=list(R), label="valid_wrapped_nonce_x_ge_n"))
        # valid signatures in algebraic corner cases of the verification / recovery sums that no signer produces by chance
        if i % 4 == 1:
            special_cases(ctx, rng, d, Q, i, lite=(mode == "lite"))
        # the OTHER production generator living in this process, between two families of this one (state shared at module /
        # class level between generator objects, e.g. left behind by the refused calls above, shows on either)
        if i % (7 if not want_pure else 4) == 3 and spec["gen"] == "module":
            other = get_ctx("secp256r1" if spec["curve"] == "secp256k1" else "secp256k1", "module", rec)
            rec.ev("interleave.other_generator_same_process")
            do, zo = d % (other.c.n - 1) + 1, z
            if i % 2:
                errpath(other, follow=not want_pure)
            reso = judge_sign(other, base_case(other, "sign", d=do, z=zo))
            sgo = ref_sign(other, do, zo)
            Qo = other.c.mul(do, other.c.G)
            judge_verify(other, base_case(other, "verify", Q=list(Qo), z=zo, r=sgo["r"], s=sgo["s"], label="valid", as_point=False))
            if not want_pure:
                judge_verify(other, base_case(other, "verify", Q=list(Qo), z=zo ^ 1 or 2, r=sgo["r"], s=sgo["s"], label="other_hash",
                                              as_point=False))
                judge_recover(other, base_case(other, "recover", z=zo, r=sgo["r"], s=sgo["s"], y_parity=None, signer=list(Qo),
                                               R=list(sgo["R"]), label="signer"))
        if i < 2:
            rec.sample({"config": spec.get("label"), "event": "sign", "d": d, "z": z, "r": r, "s": s, "k": sg["k"],
                        "forgeries_checked": [f[0] for f in fs]})
    # valid signatures whose verification / recovery multipliers are bit-structured scalars (never met by chance)
    errpath(ctx, follow=not want_pure)
    structured_cases(ctx, rng, spec, want_pure)


def _rs_grid(c, rng, full, d, e, extra=24):
    n = c.n
    if full:
        return list(itertools.product(range(n + 2), repeat=2))
    out = set()
    for k in range(1, n):
        r, s, _ = RE.raw_sign(c, d, e, k)
        out.add((r, s))
        out.add((r, (n - s) % n))
        out.add((s, r))
    rdeg = -e * pow(d, -1, n) % n
    for s in (1, n - 1, rng.randrange(1, n)):
        out.add((rdeg, s))
    for v in (0, n, n + 1):
        for w in (0, 1, n - 1, n, n + 1, rng.randrange(1, n)):
            out.add((v, w))
            out.add((w, v))
    for _ in range(extra):
        out.add((rng.randrange(0, n + 2), rng.randrange(0, n + 2)))
    return sorted(out)


def run_toy(spec, rec):
    ctx = get_ctx(spec["curve"], "inproc", rec)
    c, n = ctx.c, ctx.c.n
    rng = shard_rng(spec["seed"], PROPERTY, spec["tier"], spec["shard"])
    rec.require(*REQUIRED_OPS)
    rec.require(*REQUIRED_TOY)
    rec.require(*REQUIRED_ERRPATH)
    rec.require(*REQUIRED_MUTABLE)
    if spec.get("wrap"):
        rec.require(*REQUIRED_TOY_WRAP)
    rec.ev("config:toy/inproc-pure")
    rec.ev("toy_curve_shards")
    qlen = n.bit_length()
    part, parts, full, budget = spec["part"], spec["parts"], spec["full"], spec["budget"]
    pub = {}
    P = None
    for d in range(1, n):
        P = c.add(P, c.G)
        pub[d] = P
    ds = [d for d in range(1, n) if (d - 1) % parts == part]
    M = (1 << 256) - 1
    z_small = list(range(1, n + 2)) + [2 * n - 1, 2 * n, 2 * n + 1]
    z_top = [(t << (256 - qlen)) | rng.randrange(0, 1 << (256 - qlen)) for t in range(1, 1 << qlen)]
    z_sign = z_small + z_top + [M, 1 << 255, M - n, (1 << 255) - 1]
    # --- signing events (+ recovery of each produced signature, + Key layer on a rotating subset)
    per_d = max(8, min(len(z_sign), budget // (4 * max(1, len(ds)))))
    for d in ds:
        zs = z_sign if per_d >= len(z_sign) else rng.sample(z_sign, per_d)
        for i, z in enumerate(zs):
            if i % 3 == 0:
                errpath(ctx)                     # class A: a refused call, then the judged ones
            res = judge_sign(ctx, base_case(ctx, "sign", d=d, z=z))
            if res:
                r, s, recid, sg = res
                # the nonce point of *pycoin's* signature: first RFC nonce if usable, else found by search
                R = sg["R"] if sg["first_ok"] else None
                if R is None:
                    cands = [RE.raw_sign(c, d, z % n, k) for k in range(1, n)]
                    cands = [RR for (rr, ss, RR) in cands if (rr, ss) == (r, s)]
                    R = cands[0] if len(cands) == 1 else None        # ambiguous nonce point: signer not demanded
                variants = recover_variants(c, r, s, recid, R)
                label, sv, yp, fr, Rv = variants[i % len(variants)]
                judge_recover(ctx, base_case(ctx, "recover", z=z, r=r, s=sv, y_parity=yp, from_recid=fr, signer=list(pub[d]),
                                             R=list(Rv) if Rv else None, label=label, recall=bool(i % 7 == 0), chain=bool(i % 7 == 3)))
            if i % 5 == 0:
                judge_key(ctx, base_case(ctx, "key", d=d, z=z, mutable=bool(i % 10 == 0)))
    # --- verification truth table
    z_ver = list(range(1, n + 1)) + [rng.choice(z_top), M, n + 1 + rng.randrange(n)]
    grid_size = (n + 2) ** 2 if full else 6 * n
    pairs = [(d, z) for d in ds for z in z_ver]
    maxpairs = max(4, budget // grid_size)
    if len(pairs) > maxpairs:
        pairs = rng.sample(pairs, maxpairs)
    for j, (d, z) in enumerate(pairs):
        Q = pub[d]
        errpath(ctx)
        for ci, (r, s) in enumerate(_rs_grid(c, rng, full, d, z % n)):
            exp = judge_verify(ctx, base_case(ctx, "verify", Q=list(Q), z=z, r=r, s=s, mutable=bool((ci + j) % 19 == 0)))
            if exp:
                rec.ev("verify.valid_in_table")
        if j % 7 == 0:
            for (r, s) in _rs_grid(c, rng, False, d, z % n, extra=4)[:: 5]:
                judge_key_verify(ctx, base_case(ctx, "key_verify", Q=list(Q), z=z, r=r, s=s))
    # --- recovery over the whole (z, r, s) grid (no signer information: only "returns only verifying keys")
    z_rec = [z for i, z in enumerate(range(1, n + 1)) if i % parts == part]
    cells = [(z, r, s) for z in z_rec for r in range(n + 2) for s in range(n + 2)]
    cap = max(200, budget // 3)
    if len(cells) > cap:
        cells = rng.sample(cells, cap)
    for i, (z, r, s) in enumerate(cells):
        if i % 40 == 0:
            errpath(ctx)
        judge_recover(ctx, base_case(ctx, "recover", z=z, r=r, s=s, y_parity=[None, 0, 1][i % 3], recall=bool(i % 17 == 0)))
    if part == 0:
        rec.sample({"toy_curve": c.name, "G": list(c.G), "exhaustive_rs_grid": bool(full), "d_values": len(ds),
                    "z_values_signed": len(z_sign), "verify_pairs": len(pairs)})


# ---------------------------------------------------------------------------------------------
# class B: the N-th operation on ONE generator object (and on the process-wide nonce function) in ONE process

def run_longrun(spec, rec, upto=None):
    """more than 2^16 + 100 (thorough: 2^17 + 100) consecutive multiplications by ONE module-level generator object in ONE
    process, every single result judged: public-key derivations d*G (as `d * g`, `g * d` and Key(secret_exponent=d)) against a
    running sum built with the reference's affine addition (keys walk d -> d + stride, strides 1, 2^64, 2^128, 2^255, n - 1),
    the nonce function against the reference for every (d, z) on the way, and every `every`-th step one fully judged signing /
    verification / recovery / Key event (each of them counts its own generator multiplications on the same object) preceded by
    a refused call. A fault tied to a per-object or per-process counter (re-blinding interval, cache limit, counter wrap) lands
    on one of these calls, whichever kind it happens to be."""
    ctx = get_ctx(spec["curve"], "module", rec)
    c, n, g = ctx.c, ctx.c.n, ctx.g
    rng = shard_rng(spec["seed"], PROPERTY, spec["tier"], spec["shard"])
    need = LONGRUN_MIN["thorough" if spec["tier"] == "thorough" else "quick"]
    rec.require("longrun.generator_multiplications_on_one_object>%d" % need, "longrun.nonce_function_calls_in_one_process>%d" % need,
                "config_active:%s/openssl" % spec["curve"], "longrun.derived_public_key", "Generator.sign", "Generator.verify",
                "Generator.possible_public_pairs_for_signature", "Key.sign", "Key.verify")
    rec.ev("config_active:%s/%s" % (spec["curve"], "openssl" if ctx.native_mul else "pure"))
    rec.ev("config:" + spec.get("label", "longrun"))
    count = spec["count"]
    if not ctx.native_mul:
        # 25 ms per multiplication: the long run is not affordable on the pure arithmetic; the run says so (INCONCLUSIVE)
        rec.note("long run needs the OpenSSL-backed generator; it is not active: long run not performed")
        count = 300
    strides = [1, 1 << 64, 1 << 128, 1 << 255, n - 1]
    spts = [c.mul(k, c.G) for k in strides]
    d = rng.randrange(1, n)
    acc = c.mul(d, c.G) + (1,)            # running sum in Jacobian coordinates (X, Y, Z): x = X/Z^2, y = Y/Z^3 - no inversion per step
    pp = c.p
    K = ctx.KeyClass
    fn = ctx.tap.fn
    mults = nonces = 0
    every = spec["every"]
    si = 0
    for i in range(count):
        if upto is not None and i > upto:
            break
        if i % 1500 == 0:
            si = rng.randrange(len(strides))
        if mults > need + 40 and nonces > need + 40:
            break
        d = (d + strides[si]) % n
        acc = c._jadd_affine(*acc, *spts[si])
        if d == 0 or acc[2] == 0:
            d, acc = 1, c.G + (1,)
        form = i % 8
        if form == 7:
            st, key = observe(K, secret_exponent=d)
            st, P = (st, key) if st != "ok" else observe(key.public_pair)
        elif form & 1:
            st, P = observe(lambda: g * d)
        else:
            st, P = observe(lambda: d * g)
        mults += 1
        rec.ev("longrun.derived_public_key")
        if i % 64 == 0:
            rec.case(("longrun", spec["curve"], d))
        X, Y, Z = acc
        Z2 = Z * Z % pp
        if st != "ok" or P[0] is None or (P[0] * Z2 - X) % pp or (P[1] * Z2 * Z - Y) % pp:
            want = c.mul(d, c.G)
            zi = pow(Z, -1, pp)
            if want != (X * zi * zi % pp, Y * zi * zi * zi % pp):
                rec.ev("inconclusive:long-run running sum disagrees with the reference multiplication")
                break
            rec.violation("derive.public_key_is_not_dG" if form != 7 else "key.public_pair_mismatch",
                          {"kind": "longrun", "curve": spec["curve"], "gen": "module", "index": i, "d": d, "form": form,
                           "spec": {k: spec[k] for k in ("curve", "count", "every", "seed", "tier", "shard")}},
                          P, want)
        if fn is not None:
            z = rng.getrandbits(256) or 1
            if i % 16 == 0:
                z = (z % (1 << 255 - i % 256)) or 1            # short hashes too
            for zq in ((z, M256 - z) if i % 64 == 0 else (z,)):
                stn, kd = observe(fn, n, d, zq)
                nonces += 1
                if stn != "ok" or kd != RN.nonce(n, d, zq.to_bytes(32, "big")):
                    rec.violation("nonce.differs_from_rfc6979" if stn == "ok" else "nonce.function_raises",
                                  {"kind": "longrun", "curve": spec["curve"], "gen": "module", "index": i, "d": d, "z": zq, "api": "direct",
                                   "spec": {k: spec[k] for k in ("curve", "count", "every", "seed", "tier", "shard")}},
                                  kd, RN.nonce(n, d, zq.to_bytes(32, "big")))
        if i % every == every - 1:
            j = i // every
            zz = rng.getrandbits(256) or 1
            dd = d if j % 2 else rng.randrange(1, n)
            sg = ref_sign(ctx, dd, zz)
            Q = c.mul(dd, c.G)
            errpath(ctx, dd, zz, sg["r"], sg["s"])
            kind = j % 6
            if kind == 0:
                judge_sign(ctx, base_case(ctx, "sign", d=dd, z=zz))
                mults += 2
            elif kind == 1:
                judge_verify(ctx, base_case(ctx, "verify", Q=list(Q), z=zz, r=sg["r"], s=sg["s"], label="valid", as_point=bool(j % 4 == 1)))
                mults += 1
            elif kind == 2:
                judge_recover(ctx, base_case(ctx, "recover", z=zz, r=sg["r"], s=sg["s"], y_parity=[None, sg["R"][1] & 1][j % 12 == 2],
                                             from_recid=[None, "same"][j % 12 == 2], signer=list(Q), R=list(sg["R"]), label="signer",
                                             recall=bool(j % 24 == 8)))
                mults += 1
            elif kind == 3:
                judge_key(ctx, base_case(ctx, "key", d=dd, z=zz, mutable=bool(j % 12 == 3)))
                mults += 4
            elif kind == 4:
                judge_verify(ctx, base_case(ctx, "verify", Q=list(Q), z=zz ^ (1 << (j % 256)) or 2, r=sg["r"], s=sg["s"], label="other_hash",
                                            as_point=False))
                mults += 1
            else:
                judge_key_verify(ctx, base_case(ctx, "key_verify", Q=list(Q), z=zz, r=sg["r"], s=sg["s"], label="valid"))
                mults += 1
        if mults > need and mults - need <= 4:
            rec.ev("longrun.generator_multiplications_on_one_object>%d" % need)
        if need < nonces <= need + 2:
            rec.ev("longrun.nonce_function_calls_in_one_process>%d" % need)
    rec.ev("longrun.generator_multiplications", mults)
    rec.sample({"longrun": spec["curve"], "generator_multiplications_on_one_object": mults, "nonce_function_calls": nonces,
                "all_judged": True})


# ---------------------------------------------------------------------------------------------
# class D: live generators of DIFFERENT curves that are EQUAL BY VALUE (same base-point coordinates), interleaved

def _curve_order(p, a, b):
    sq = [0] * p
    for y in range(p):
        sq[y * y % p] += 1
    return 1 + sum(sq[(x * x * x + a * x + b) % p] for x in range(p))


def twin_family(G, max_p=72, a0_up_to=212):
    """every curve y^2 = x^3 + a x + b over a prime p = 3 mod 4 that passes through the point G and whose group has prime order
    n >= 5 (so G generates it): all (a, b) for p < max_p, and the a = 0 members up to a0_up_to (they contain the classic pairs
    and cycles of the y^2 = x^3 + 3 family, e.g. p = 199, n = 211 and p = 211, n = 199 through G = (1, 2)).
    A pycoin Generator is a tuple subclass holding just the base-point coordinates, so live Generator objects of all these
    curves hash and compare EQUAL although they are different groups over different fields."""
    gx, gy = G
    out = []
    for p in range(7, a0_up_to):
        if not ec.is_prime(p) or p % 4 != 3 or gx >= p or gy >= p or gy % p == 0:
            continue
        for a in (range(p) if p < max_p else (0,)):
            b = (gy * gy - gx ** 3 - a * gx) % p
            if (4 * a ** 3 + 27 * b * b) % p == 0:
                continue
            n = _curve_order(p, a, b)
            if n >= 5 and ec.is_prime(n):
                out.append((p, a, b, n))
    return out


def pick_twins(fam, k, rng):
    """k members of a family with the relations that matter between two of them: same field and different (a, b); same order
    over different fields; a 2-cycle (p1, n1) = (n2, p2); unrelated."""
    fam = list(fam)
    rng.shuffle(fam)
    same_p = [(x, y) for x in fam for y in fam if x < y and x[0] == y[0]]
    same_n = [(x, y) for x in fam for y in fam if x < y and x[3] == y[3] and x[0] != y[0]]
    cycle = [(x, y) for x in fam for y in fam if x < y and x[0] == y[3] and x[3] == y[0]]
    chosen = []
    for pool in (cycle, same_p, same_n):
        if pool:
            for t in pool[rng.randrange(len(pool))]:
                if t not in chosen:
                    chosen.append(t)
    for t in fam:
        if len(chosen) >= k:
            break
        if t not in chosen:
            chosen.append(t)
    return chosen[:max(k, 2)]


REQUIRED_TWINS = ("twins.generators_equal_by_value_on_different_curves", "twins.same_question_to_next_generator",
                  "recover.signer_demanded", "recover.returned_key", "verify.key_is_foreign_generators_point",
                  "verify.valid", "verify.other_key", "verify.other_hash", "Key.verify.valid")


def run_twins(spec, rec):
    rng = shard_rng(spec["seed"], PROPERTY, spec["tier"], spec["shard"])
    G = tuple(spec["G"])
    fam = twin_family(G)
    chosen = pick_twins(fam, spec["curves"], rng)
    rec.require(*REQUIRED_OPS)
    rec.require(*REQUIRED_TWINS)
    rec.require(*REQUIRED_ERRPATH)
    rec.ev("config:toy/inproc-pure")
    cids = [[p, a, b, G[0], G[1], n] for (p, a, b, n) in chosen]
    _STATE["twins"] = cids
    ctxs = [get_ctx(cid, "inproc", rec) for cid in cids]
    for x in ctxs:
        if not x.c.on_curve(G) or x.c.mul(x.c.n, G) is not None or _curve_order(x.c.p, x.c.a, x.c.b) != x.c.n:
            rec.ev("inconclusive:twin family member is not a prime-order curve through the base point")
            rec.note("twin_family produced %r for G=%r" % (x.curve_id, G))
            return
    for x in ctxs[1:]:
        if tuple(x.g) == tuple(ctxs[0].g) and (x.c.p, x.c.a, x.c.b) != (ctxs[0].c.p, ctxs[0].c.a, ctxs[0].c.b):
            rec.ev("twins.generators_equal_by_value_on_different_curves")
    M = (1 << 256) - 1
    for j in range(spec["rounds"]):
        order = list(ctxs)
        rng.shuffle(order)
        u = j % 4
        z = rng.randrange(1, 1 << 256) if u == 0 else rng.randrange(1, 600) if u == 1 else \
            (rng.randrange(1, 1 << 9) << 247) | rng.getrandbits(247) if u == 2 else rng.choice((M, 1 << 255, M - 1, 1, 2, 3))
        dsel = rng.randrange(0, 1 << 16)
        # --- the same key index / hash on every generator, one after the other
        _STATE["after_curves"] = []
        if j % 3 == 0:
            errpath(order[-1])                  # a refused call on one object, the judged ones start on another
        for x in order:
            c, n = x.c, x.c.n
            d = 1 if j % 6 == 0 else n - 1 if j % 6 == 3 else dsel % (n - 1) + 1
            Q = c.mul(d, c.G)
            if _STATE["after_curves"]:
                rec.ev("twins.same_question_to_next_generator")
            res = judge_sign(x, base_case(x, "sign", d=d, z=z))
            sg = ref_sign(x, d, z)
            if sg["first_ok"]:
                r, s = sg["r"], sg["s"]
                variants = recover_variants(c, r, s, res[2] if res else sg["R"][1] & 1, sg["R"])
                label, sv, yp, fr, Rv = variants[j % len(variants)]
                judge_recover(x, base_case(x, "recover", z=z, r=r, s=sv, y_parity=yp, from_recid=fr, signer=list(Q), R=list(Rv),
                                           label=label, recall=bool(j % 8 == 1), chain=bool(j % 8 == 5)))
                d2 = d % (n - 1) + 1
                z2 = z + 1 if z < M else z - 1
                fs = forgeries(c, rng, d, z, r, s, c.mul(d2, c.G), z2 if z2 % n != z % n else z2 + 1, "full")
                for jj, (lab, Qf, zf, rf, sf) in enumerate(fs[:3] + [fs[3 + j % (len(fs) - 3)]]):
                    # the key handed over as an object made by one of the OTHER generators whenever that curve contains it too
                    judge_verify(x, base_case(x, "verify", Q=list(Qf), z=zf, r=rf, s=sf, label=lab,
                                              as_point="foreign" if (jj + j) % 2 == 0 else bool(jj % 2), mutable=bool((jj + j) % 7 == 3)))
                if j % 4 == 2:
                    judge_key(x, base_case(x, "key", d=d, z=z, mutable=bool(j % 8 == 2)))
                    judge_key_verify(x, base_case(x, "key_verify", Q=list(Q), z=z, r=r, s=s, label="valid"))
            _STATE["after_curves"].append(x.curve_id)
        # --- the same NUMBERS (z, r, s) as a recovery / verification question on every generator: same x = r everywhere
        _STATE["after_curves"] = []
        nmin = min(x.c.n for x in ctxs)
        r = rng.randrange(1, nmin) if j % 3 else rng.randrange(1, max(x.c.n for x in ctxs))
        s = rng.randrange(1, nmin)
        for x in order:
            if _STATE["after_curves"]:
                rec.ev("twins.same_question_to_next_generator")
            judge_recover(x, base_case(x, "recover", z=z, r=r, s=s, y_parity=[None, 0, 1][j % 3], chain=bool(j % 5 == 0)))
            judge_verify(x, base_case(x, "verify", Q=list(G), z=z, r=r, s=s, as_point="foreign" if j % 2 else False))
            _STATE["after_curves"].append(x.curve_id)
        _STATE["after_curves"] = []
    _STATE["after_curves"] = None
    rec.sample({"twin_generators": [x.c.name for x in ctxs], "G": list(G), "rounds": spec["rounds"], "family_size": len(fam)})


def run_shard(spec, rec):
    import time
    kind = spec["kind"]
    try:
        if kind == "memcheck":
            memcheck.run(spec, rec, PROPERTY)
        else:
            {"big": run_big, "toy": run_toy, "longrun": run_longrun, "twins": run_twins}[kind](spec, rec)
    except GeneratorUnavailable:
        rec.case(("generator_unavailable", spec.get("curve"), spec.get("gen")))
    finally:
        rec.ev("cpu_ms:" + kind, int(time.process_time() * 1000))


def replay_case(case, rec):
    kind = case.get("kind")
    if kind in ("memcheck", "memcheck_value"):
        memcheck.replay(case, rec, PROPERTY)
        return
    curve = case["curve"]
    if isinstance(curve, list):
        curve = [int(v) for v in curve]
    try:
        ctx = get_ctx(curve, case.get("gen", "inproc"), rec)
    except GeneratorUnavailable:
        return
    if kind == "import":
        return
    case = dict(case, curve=curve)
    if kind == "longrun":
        # state-dependent by nature: repeat the long run up to (and including) the step that failed
        sp = dict(case["spec"], property=PROPERTY)
        sp = {k: (int(v) if k in ("count", "every", "seed", "shard") else v) for k, v in sp.items()}
        run_longrun(sp, rec, upto=int(case["index"]))
        return
    pre = case.get("after_curves")
    if pre and kind in JUDGES:
        # the same question to the other live generators (equal by value, different curves) first, in the recorded order
        cids = [[int(v) for v in cid] for cid in pre]
        _STATE["twins"] = cids + [curve]
        for cid in cids:
            try:
                o = get_ctx(cid, "inproc", rec)
            except GeneratorUnavailable:
                continue
            sub = dict(case, curve=cid, after_curves=None, after_refused=None)
            if kind in ("sign", "key"):
                sub["d"] = (int(case["d"]) - 1) % (o.c.n - 1) + 1
            if kind in ("verify", "key_verify") and not o.c.on_curve(tuple(case["Q"])):
                sub["Q"] = list(o.c.G)
            sub.pop("signer", None)
            sub.pop("R", None)
            JUDGES[kind](o, sub)
            if kind == "sign":
                # signing is followed by recovery of the produced signature in the workload
                sgo = RE.rfc6979_sign(o.c, sub["d"], int(case["z"]))
                if sgo["first_ok"]:
                    JUDGES["recover"](o, {"kind": "recover", "curve": cid, "gen": "inproc", "z": int(case["z"]), "r": sgo["r"], "s": sgo["s"]})
    ar = case.get("after_refused")
    if ar:
        try:
            name, rcurve, rgen = ar
            rcurve = [int(v) for v in rcurve] if isinstance(rcurve, list) else rcurve
            errpath(get_ctx(rcurve, rgen, rec), name=name, follow=False)
        except GeneratorUnavailable:
            pass
    other = case.get("other")
    if kind == "sign" and isinstance(other, dict) and "d" in other:
        # nonce-table violations need the earlier event too: replay it first (z mod n names the same message)
        JUDGES["sign"](ctx, dict(case, d=int(other["d"]), z=int(other["z_mod_n"]) or ctx.c.n, other=None))
    JUDGES[kind](ctx, case)
