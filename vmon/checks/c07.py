"""C07 — transactions round-trip through the wire format and have stable ids; spendable records round-trip."""
import hashlib
import io
import json
import os

from vmon.probe import shard_rng, observe
from vmon.refs import txser as R
from vmon.gen import txgen as G

PROPERTY = "C07"
PRELOAD_NETWORK_ORDERS = [["btc", "xtn", "ltc", "bch", "grs", "doge", "dash", "btg"], ["btg", "grs", "bch", "doge", "ltc", "xtn", "btc"]]
LEVEL = "exploration"
TECHNIQUE = "differential runtime monitor: every serialise/parse/id call of five Tx classes compared with an independent wire-format reference"
RULE = ("cases: (transaction class, transaction) pairs; transactions from a deterministic sweep that puts each compact-size boundary "
        "(0xfc/0xfd/0xfe/0xffff/0x10000) on each length and count field and each 32/64-bit boundary on each integer field, plus "
        "one transaction each with 65536 inputs / 65536 outputs / 65536 witness items / a 65537-byte witness item (BTC and LTC parsers), "
        "seeded random transactions (1..300 inputs, 0..300 outputs, witness modes none/all-empty/some/all/first/last, empty witness "
        "items, 252..254-item stacks, amounts up to 2^64-1); spendable records with boundary-biased fields. Distinct by (class, "
        "field-shape vector) resp. (form, field classes); non-trivial when at least one field sits on a compact-size or integer-width "
        "boundary or a witness item is empty.")
ASSUMPTIONS = [
    "vmon/refs/txser.py is the wire format (self-tested on every run: genesis coinbase and a mainnet txid, BIP143 example, every "
    "transaction of tests/btc/data/tx_valid.json and tx_invalid.json round-trips and cites the prevouts listed next to it)",
    "the id hash is double-SHA256 for BTC/LTC/BCH/BTG; for Groestlcoin the coin defines transaction ids with single SHA-256, so the "
    "GRS class is compared with single SHA-256 of the same witness-stripped bytes",
    "versions are taken from 0..2^32-1 (the wire field is 32 bits wide)",
    "'equal transaction' is read field-wise: version, lock time, and per input outpoint hash, index, script, sequence, witness stack; "
    "per output amount and script",
    "spendable forms are judged on the round trip only (fields out = fields in); the text, dictionary and binary layouts themselves are "
    "not prescribed by the statement and are not compared with anything",
    "hex output is compared as bytes (letter case is left open); if the spelling differs from lower-case hex, the library's own text "
    "must parse back",
    "the spent-output extension is the TxOut wire forms of the spent outputs, in input order, appended to the transaction bytes; the "
    "unspents are given either as TxOut or as Spendable objects (set_unspents documents both); a transaction object that carries "
    "unspents has the same plain bytes, id and witness id as one that does not",
]
EXPLANATION = ("as_bin/as_hex bytes must equal the reference serialisation (BIP144 form iff some witness stack is non-empty); from_bin/"
               "from_hex/parse of reference-made bytes must give back the fields and re-serialise identically; id/hash/w_id must equal the "
               "reference digests, id must not move and w_id must move when only witness data changes; the spent-output extension and "
               "each spendable form must round-trip field-wise. Every region of the quantified-over domain has its own 'dom:' counter and "
               "every transaction class a 'class:' counter; a run in which one of them stays at zero is inconclusive")
TIMEOUT = {"quick": 600, "thorough": 3 * 3600}

NETS = ["BTC", "LTC", "BCH", "BTG", "GRS"]
ROTATION = ["BTC", "LTC", "BCH", "BTC", "LTC", "BTG", "GRS"]


def exhaustive(tier):
    return False


def configurations(tier):
    return [{"tx_classes": NETS}]


def plan(tier, seed):
    if tier == "quick":
        shards = [{"kind": "sweep"}]
        shards += [{"kind": "txs", "n": 3000} for _ in range(11)]
        shards += [{"kind": "spendables", "n": 5000} for _ in range(4)]
    else:
        shards = [{"kind": "sweep"}]
        shards += [{"kind": "txs", "n": 80000} for _ in range(13)]
        shards += [{"kind": "spendables", "n": 100000} for _ in range(2)]
    return shards


# ---------------------------------------------------------------------------------------------
# oracle self-test

MAINNET_TX_HEX = (
    "0100000001a8f57056b016d7d243fc0fc2a73f9146e7e4c7766ec6033b5ac4cb89c64e19d0000000008a4730440220251acb534ba1b8a269260ad3fa80e075cd"
    "150d3ffba76ad20cd2e8178dee98b702202284f9c7eae3adfcf0857a901cd34f0ea338d5744caab88afad5797be643f7b7014104af8385da9dc85aa153f16341a4"
    "015bc95e7ff57876b9bde40bd8450a5723a05c1c89ff2d85230d2e62c0c7690b8272cf85868a0a0fc02f99a5b793f22d5c7092ffffffff02bb5b07000000000019"
    "76a9145b78716d137e386ae2befc4296d938372559f37888acdd3c71000000000017a914c6572ee1c85a1b9ce1921753871bda0b5ce889ac8700000000")
MAINNET_TX_ID = "e1a18b843fc420734deeb68ff6df041a2585e1a0d7dbf3b82aab98291a6d9952"


def selftest(rec):
    out = {"txser_builtin": R.selftest()}
    t, n = R.parse(bytes.fromhex(MAINNET_TX_HEX))
    assert R.txid_hex(t) == MAINNET_TX_ID and R.wtxid_hex(t) == MAINNET_TX_ID
    # the vendored Core vectors, used as data: every tx hex round-trips and spends the prevouts cited next to it
    repo = (rec.spec or {}).get("repo") or "/repo"
    n_vec = 0
    for name in ("tx_valid.json", "tx_invalid.json"):
        p = os.path.join(repo, "tests", "btc", "data", name)
        if not os.path.exists(p):
            continue
        for row in json.load(open(p)):
            if len(row) != 3 or not isinstance(row[0], list):
                continue
            raw = bytes.fromhex(row[1])
            try:
                t, used = R.parse(raw)
            except (ValueError, KeyError):
                continue        # a few tx_invalid entries are not parseable on purpose (no inputs)
            assert R.serialize(t) == raw, "reference does not round-trip a Core vector"
            cited = {(p_[0], p_[1] & 0xffffffff) for p_ in row[0]}
            assert {(i["prev"][::-1].hex(), i["index"]) for i in t["ins"]} == cited, "reference misreads outpoints"
            n_vec += 1
    assert n_vec > 150 or not os.path.exists(os.path.join(repo, "tests", "btc", "data", "tx_valid.json"))
    out["core_vectors_roundtrip"] = n_vec
    # generator <-> reference closure, witness-id laws
    rng = shard_rng(0, PROPERTY, "selftest", 0)
    k = 0
    for label, d in list(G.boundary_sweep()) + [("rnd", G.rand_tx(rng)) for _ in range(300)]:
        b = R.serialize(d)
        back, used = R.parse(b)
        assert used == len(b) and G.norm(back) == G.norm(d), label
        leg = R.serialize(d, with_witness=False)
        assert (leg == b) == (not R.has_witness(d))
        if R.has_witness(d):
            assert b[4:6] == b"\x00\x01" and R.txid_bytes(d) != R.wtxid_bytes(d)
            stripped = G.norm(d)
            for i in stripped["ins"]:
                i["witness"] = []
            assert R.serialize(stripped) == leg and R.txid_bytes(stripped) == R.txid_bytes(d)
        k += 1
    out["generator_closure"] = k
    return out


# ---------------------------------------------------------------------------------------------

def _nets(rec=None):
    import importlib
    nets = {}
    for n in NETS:
        try:
            nets[n] = importlib.import_module("pycoin.symbols." + n.lower()).network.tx
        except Exception as e:      # GRS needs no groestlcoin_hash for its Tx class, but tolerate an import failure
            if rec is not None:
                rec.note("config_absent: %s transaction class not importable (%s)" % (n, type(e).__name__))
    return nets


def _H(net):
    if net == "GRS":
        return lambda b: hashlib.sha256(b).digest()
    return R.dsha


def _unhex(text):
    try:
        return bytes.fromhex(text)
    except ValueError:
        return None


# ---------------------------------------------------------------------------------------------
# regions of the quantified-over domain: one counter each, all of them must be reached (post_merge_requirements)

_LEN_MARKS = (0xfc, 0xfd, 0xffff, 0x10000)


def _len_regions(prefix, lengths, out):
    for n in lengths:
        if n in _LEN_MARKS:
            out.add("%s=%#x" % (prefix, n))


def _regions(d):
    """labels of the domain regions (statement: 'Quantified over') one transaction sits in"""
    out = set()
    ins, outs = d["ins"], d["outs"]
    n_in, n_out = len(ins), len(outs)
    out.add("dom:n_in=1" if n_in == 1 else "dom:n_in>=253" if n_in >= 253 else "dom:n_in=2..252")
    if n_in >= 0x10000:
        out.add("dom:n_in>=0x10000")
    out.add("dom:n_out=0" if n_out == 0 else "dom:n_out>=253" if n_out >= 253 else "dom:n_out=1..252")
    if n_out >= 0x10000:
        out.add("dom:n_out>=0x10000")
    _len_regions("dom:in_script_len", {len(i["script"]) for i in ins}, out)
    _len_regions("dom:out_script_len", {len(o["script"]) for o in outs}, out)
    with_w = 0
    for i in ins:
        w = i["witness"]
        if not w:
            continue
        with_w += 1
        if len(w) >= 253:
            out.add("dom:witness_items>=253")
            if len(w) >= 0x10000:
                out.add("dom:witness_items>=0x10000")
        ls = {len(x) for x in w}
        _len_regions("dom:witness_item_len", ls, out)
        if 0 in ls:
            out.add("dom:witness_empty_item")
            if ls == {0}:
                out.add("dom:witness_stack_of_empty_items_only")
        if max(ls) > 0x10000:
            out.add("dom:witness_item_len>0x10000")
    out.add("dom:no_witness(legacy form)" if with_w == 0 else "dom:witness_on_all_inputs" if with_w == n_in else
            "dom:witness_and_non_witness_inputs_mixed")
    for o in outs:
        v = o["value"]
        if v == 0:
            out.add("dom:amount=0")
        elif v == (1 << 64) - 1:
            out.add("dom:amount=2^64-1")
        if v >= 1 << 63:
            out.add("dom:amount>=2^63")
        elif v > 21 * 10 ** 14:
            out.add("dom:amount>21e14")
    for f in ("version", "lock_time"):
        if d[f] >= 0x80000000:
            out.add("dom:%s>=2^31" % f)
    if any(i["sequence"] not in (0xffffffff, 0xfffffffe) for i in ins):
        out.add("dom:sequence_not_final")
    return out


DOMAIN_REQUIRED = (
    ["dom:n_in=1", "dom:n_in=2..252", "dom:n_in>=253", "dom:n_in>=0x10000", "dom:n_out=0", "dom:n_out=1..252", "dom:n_out>=253",
     "dom:n_out>=0x10000", "dom:witness_items>=253", "dom:witness_items>=0x10000", "dom:witness_empty_item",
     "dom:witness_stack_of_empty_items_only", "dom:witness_item_len>0x10000", "dom:no_witness(legacy form)",
     "dom:witness_on_all_inputs", "dom:witness_and_non_witness_inputs_mixed", "dom:amount=0", "dom:amount=2^64-1", "dom:amount>=2^63",
     "dom:amount>21e14", "dom:version>=2^31", "dom:lock_time>=2^31", "dom:sequence_not_final"] +
    ["dom:%s=%#x" % (k, n) for k in ("in_script_len", "out_script_len", "witness_item_len") for n in _LEN_MARKS] +
    ["dom:spendable." + k for k in ("amount=0", "amount>=2^63", "amount=2^64-1", "script_len=0", "script_len=0xfd", "script_len>=0xffff",
                                    "block_index>=0xfd", "block_index>=0x10000", "seems_spent", "index>=2^31")] +
    ["dom:unspents_as_TxOut", "dom:unspents_as_Spendable", "dom:unspent_amount>=2^63"])


def post_merge_requirements():
    """every region of the domain and every transaction class, whichever shard reached it"""
    return list(DOMAIN_REQUIRED) + ["class:" + n for n in NETS]


def _mutate_witness(d, rng):
    """same transaction, different witness data"""
    e = G.norm(d)
    idx = [k for k, i in enumerate(e["ins"]) if i["witness"]]
    if not idx:
        e["ins"][rng.randrange(len(e["ins"]))]["witness"] = [b"\x01"]
        return e
    mode = rng.randrange(4)
    k = rng.choice(idx)
    w = e["ins"][k]["witness"]
    if mode == 0:
        for i in e["ins"]:
            i["witness"] = []
    elif mode == 1:
        j = rng.randrange(len(w))
        w[j] = (bytes([w[j][0] ^ 1]) + w[j][1:]) if w[j] else b"\x00"
    elif mode == 2:
        w.append(b"")
    else:
        w.pop()
        if not R.has_witness(e):
            e["ins"][k]["witness"] = [b"", b""]
    return e


def _plain_forms_with_unspents(obj, label, case, rec, full, e_hash, e_id, e_wid):
    rec.ev("Tx.as_bin/id/w_id(object carrying unspents)")
    st, b = observe(obj.as_bin)
    if st != "ok" or b != full:
        rec.violation("tx.unspents.plain_bytes_changed", dict(case, on=label), b if st != "ok" else b[-80:], full[-80:])
    st, h = observe(obj.hash)
    st2, i_ = observe(obj.id)
    if st != "ok" or st2 != "ok" or bytes(h) != e_hash or i_ != e_id:
        rec.violation("tx.unspents.id_changed", dict(case, on=label), i_, e_id)
    st, w_ = observe(obj.w_id)
    if st != "ok" or w_ != e_wid:
        rec.violation("tx.unspents.w_id_changed", dict(case, on=label), w_, e_wid)


def _check_tx(net, T, d, rec, rng, via="attr", unspents=None, light=False, unspents_as="txout"):
    """Every C07 observation for one (class, transaction)."""
    case = {"kind": "tx", "net": net, "tx": G.pack(d), "via": via}
    H = _H(net)
    full = R.serialize(d, True)
    legacy = R.serialize(d, False)
    hasw = R.has_witness(d)
    rec.case((net, G.shape(d)), nontrivial=G.on_boundary(d))
    rec.ev("class:" + net)
    for r in _regions(d):
        rec.ev(r)

    st, tx = observe(G.to_pycoin, T, d, via)
    if st != "ok":
        rec.violation("tx.construct.raises", case, tx, "object")
        return
    # -- serialise
    rec.ev("Tx.as_bin")
    st, b = observe(tx.as_bin)
    if st != "ok":
        rec.violation("tx.as_bin.raises", case, b, "bytes")
        return
    if b != full:
        if not hasw and b[4:6] == b"\x00\x01" and full[4:6] != b"\x00\x01":
            mech = "tx.as_bin.marker_without_witness"
        elif hasw and b == legacy:
            mech = "tx.as_bin.witness_dropped"
        elif len(b) != len(full):
            mech = "tx.as_bin.length_mismatch"
        else:
            mech = "tx.as_bin.bytes_mismatch"
        rec.violation(mech, case, b[:80], full[:80], detail={"len_observed": len(b), "len_expected": len(full)})
    rec.ev("Tx.as_hex")
    st, hx = observe(tx.as_hex)
    if st != "ok" or not isinstance(hx, str) or _unhex(hx) != full:
        rec.violation("tx.as_hex.mismatch", case, hx if st != "ok" else hx[:160], full.hex()[:160])
    elif hx != full.hex():
        # same bytes, other spelling (letter case is not fixed by the statement): the library's own text must parse back
        rec.ev("Tx.from_hex(own spelling)")
        st, t0 = observe(T.from_hex, hx)
        if st != "ok" or G.first_difference(G.norm(d), G.from_pycoin(t0)):
            rec.violation("tx.as_hex.own_text_not_parsed_back", case, t0 if st != "ok" else None, "transaction")
    # -- parse reference-made bytes, three entry points
    want = G.norm(d)
    parsed = None
    entries = [("from_bin", lambda: T.from_bin(full)), ("parse", lambda: T.parse(io.BytesIO(full)))]
    if not light:
        entries.append(("from_hex", lambda: T.from_hex(full.hex())))
    for name, fn in entries:
        rec.ev("Tx." + name)
        st, t2 = observe(fn)
        if st != "ok":
            rec.violation("tx.%s.raises" % name, case, t2, "transaction")
            continue
        got = G.from_pycoin(t2)
        diff = G.first_difference(want, got)
        if diff:
            rec.violation("tx.%s.field_mismatch.%s" % (name, diff), case, diff, "fields equal to the serialised transaction")
            continue
        if parsed is None:
            parsed = t2
            rec.ev("Tx.reserialise")
            st, b2 = observe(t2.as_bin)
            if st != "ok" or b2 != full:
                rec.violation("tx.reserialise.mismatch", case, b2 if st != "ok" else b2[:80], full[:80])
    # serialise-then-parse of pycoin's own bytes (only informative when they differed from the reference)
    if b != full:
        st, t3 = observe(T.from_bin, b)
        if st != "ok" or G.first_difference(want, G.from_pycoin(t3)):
            rec.violation("tx.roundtrip.not_equal", case, t3 if st != "ok" else G.first_difference(want, G.from_pycoin(t3)), None)
    # -- ids
    e_hash = H(legacy)
    e_id = e_hash[::-1].hex()
    e_wid = H(full)[::-1].hex()
    for label, obj in (("built", tx), ("parsed", parsed)):
        if obj is None:
            continue
        rec.ev("Tx.hash")
        st, h = observe(obj.hash)
        if st != "ok" or bytes(h) != e_hash:
            mech = "tx.hash.includes_witness" if (st == "ok" and hasw and bytes(h) == H(full)) else "tx.hash.mismatch"
            rec.violation(mech, dict(case, on=label), h, e_hash)
        rec.ev("Tx.id")
        st, i_ = observe(obj.id)
        if st != "ok" or i_ != e_id:
            mech = "tx.id.includes_witness" if (st == "ok" and hasw and i_ == e_wid) else "tx.id.mismatch"
            rec.violation(mech, dict(case, on=label), i_, e_id)
        rec.ev("Tx.w_id")
        st, w_ = observe(obj.w_id)
        if st != "ok" or w_ != e_wid:
            mech = "tx.w_id.ignores_witness" if (st == "ok" and hasw and w_ == e_id) else "tx.w_id.mismatch"
            rec.violation(mech, dict(case, on=label), w_, e_wid)
    # id does not depend on witness data, w_id covers it
    if not light:
        d2 = _mutate_witness(d, rng)
        st, tx2 = observe(G.to_pycoin, T, d2, "attr")
        if st == "ok":
            rec.ev("witness_variation")
            s1, ida = observe(tx.id)
            s2, idb = observe(tx2.id)
            s3, wa = observe(tx.w_id)
            s4, wb = observe(tx2.w_id)
            c2 = dict(case, tx2=G.pack(d2))
            if (s1, s2) == ("ok", "ok") and ida != idb:
                rec.violation("tx.id.depends_on_witness", c2, [ida, idb], "equal ids")
            if (s3, s4) == ("ok", "ok") and wa == wb:
                rec.violation("tx.w_id.ignores_witness", c2, [wa, wb], "different witness ids")
            if s4 == "ok" and wb != H(R.serialize(d2))[::-1].hex():
                rec.violation("tx.w_id.mismatch", dict(case, tx=G.pack(d2)), wb, H(R.serialize(d2))[::-1].hex())
    # -- spent-output extension (non-zero amounts)
    if unspents:
        c3 = dict(case, unspents=[{"value": u["value"], "script": G._pack_bytes(u["script"])} for u in unspents], unspents_as=unspents_as)
        ext = full + b"".join(R.ser_out(u) for u in unspents)
        rec.ev("dom:unspents_as_Spendable" if unspents_as == "spendable" else "dom:unspents_as_TxOut")
        if any(u["value"] >= 1 << 63 for u in unspents):
            rec.ev("dom:unspent_amount>=2^63")
        if unspents_as == "spendable":      # set_unspents takes "TxOut (or the subclass Spendable) objects"
            objs = [T.Spendable(u["value"], u["script"], i["prev"], i["index"]) for u, i in zip(unspents, d["ins"])]
        else:
            objs = [T.TxOut(u["value"], u["script"]) for u in unspents]
        st, r = observe(tx.set_unspents, objs)
        if st != "ok":
            rec.violation("tx.unspents.set_unspents_raises", c3, r, None)
            return tx
        rec.ev("Tx.as_bin(include_unspents)")
        st, bu = observe(tx.as_bin, include_unspents=True)
        if st != "ok" or bu != ext:
            rec.violation("tx.unspents.bytes_mismatch", c3, bu if st != "ok" else bu[-80:], ext[-80:])
        rec.ev("Tx.as_hex(include_unspents)")
        st, hu = observe(tx.as_hex, include_unspents=True)
        if st != "ok" or not isinstance(hu, str) or _unhex(hu) != ext:
            rec.violation("tx.unspents.hex_mismatch", c3, hu if st != "ok" else hu[-160:], ext.hex()[-160:])
        # a transaction that carries spent outputs is still the same transaction: plain bytes and ids unchanged
        _plain_forms_with_unspents(tx, "built", c3, rec, full, e_hash, e_id, e_wid)
        for name, fn in (("from_bin", lambda: T.from_bin(ext)), ("from_hex", lambda: T.from_hex(ext.hex()))):
            rec.ev("Tx.%s(with unspents)" % name)
            st, t4 = observe(fn)
            if st != "ok":
                rec.violation("tx.unspents.parse_raises", c3, t4, "transaction with unspents")
                continue
            diff = G.first_difference(want, G.from_pycoin(t4))
            if diff:
                rec.violation("tx.unspents.tx_field_mismatch." + diff, c3, diff, None)
            got_u = [None if u is None else {"value": u.coin_value, "script": bytes(u.script)} for u in (t4.unspents or [])]
            exp_u = [{"value": u["value"], "script": bytes(u["script"])} for u in unspents]
            if got_u != exp_u:
                if len(got_u) != len(exp_u):
                    m = "tx.unspents.lost"
                elif any(g is None for g in got_u):
                    m = "tx.unspents.nonzero_amount_read_as_missing"
                else:
                    m = "tx.unspents.roundtrip_mismatch"
                rec.violation(m, c3, got_u[:4], exp_u[:4])
                continue
            rec.ev("Tx.reserialise(with unspents)")
            st, b5 = observe(t4.as_bin, include_unspents=True)
            if st != "ok" or b5 != ext:
                rec.violation("tx.unspents.reserialise_mismatch", c3, b5 if st != "ok" else b5[-80:], ext[-80:])
            if name == "from_bin":
                _plain_forms_with_unspents(t4, "parsed", c3, rec, full, e_hash, e_id, e_wid)
    return tx


EDIT_OPS = ["version", "lock_time", "sequence", "prev_index", "prev_hash", "in_script", "witness", "out_value", "out_script", "add_out", "pop_out"]


def _draw_edit(d, rng):
    """one in-place edit [op, input index, output index, value] applicable to d, or None (rng consumption as before)"""
    e = rng.choice(EDIT_OPS)
    k = rng.randrange(len(d["ins"]))
    j, v = 0, None
    if e in ("version", "lock_time", "prev_index"):
        v = rng.randrange(1 << 32)
    elif e == "sequence":
        v = rng.choice([0, 1, 0xfffffffd, 0xfffffffe, rng.randrange(1 << 32)])
    elif e == "prev_hash":
        v = bytes(rng.randrange(256) for _ in range(32))
    elif e == "in_script":
        v = bytes(rng.randrange(256) for _ in range(rng.choice([0, 1, 30, 253])))
    elif e == "witness":
        v = [bytes(rng.randrange(256) for _ in range(rng.choice([0, 1, 33]))) for _ in range(rng.choice([0, 1, 2]))]
    elif e in ("out_value", "out_script") and d["outs"]:
        j = rng.randrange(len(d["outs"]))
        v = rng.randrange(1 << 50) if e == "out_value" else bytes(rng.randrange(256) for _ in range(rng.choice([0, 25, 34])))
    elif e == "add_out":
        v = 7
    elif e == "pop_out" and len(d["outs"]) > 1:
        pass
    else:
        return None
    return [e, k, j, v]


def _apply_edit(T, tx, d, edit):
    """the same edit on the live object (public attributes) and on the model"""
    e, k, j, v = edit
    if e == "version":
        d["version"] = tx.version = v
    elif e == "lock_time":
        d["lock_time"] = tx.lock_time = v
    elif e == "sequence":
        d["ins"][k]["sequence"] = tx.txs_in[k].sequence = v
    elif e == "prev_index":
        d["ins"][k]["index"] = tx.txs_in[k].previous_index = v
    elif e == "prev_hash":
        d["ins"][k]["prev"] = tx.txs_in[k].previous_hash = v
    elif e == "in_script":
        d["ins"][k]["script"] = tx.txs_in[k].script = v
    elif e == "witness":
        d["ins"][k]["witness"] = list(v)
        tx.txs_in[k].witness = list(v)
    elif e == "out_value":
        d["outs"][j]["value"] = tx.txs_out[j].coin_value = v
    elif e == "out_script":
        d["outs"][j]["script"] = tx.txs_out[j].script = v
    elif e == "add_out":
        d["outs"].append({"value": v, "script": b"\x51"})
        tx.txs_out.append(T.TxOut(v, b"\x51"))
    elif e == "pop_out":
        d["outs"].pop()
        tx.txs_out.pop()
    else:
        raise ValueError(e)


def _live_edit_history(net, T, d, rec, rng, edits=None):
    """one Tx object queried, edited in place, queried again: ids and bytes must always be those of the CURRENT fields.
    edits=None draws 2..6 random edits; a list replays exactly those."""
    H = _H(net)
    d = G.norm(d)
    if len(R.serialize(d)) > 4000 or not d["ins"]:
        return
    tx0 = G.pack(G.norm(d))
    tx = G.to_pycoin(T, d)
    done = []

    def judge():
        rec.ev("Tx.id(after in-place edit)")
        want_id = H(R.serialize(d, False))[::-1].hex()
        want_w = H(R.serialize(d))[::-1].hex()
        want_bin = R.serialize(d)
        st1, a = observe(tx.id)
        st2, w = observe(tx.w_id)
        st3, b = observe(tx.as_bin)
        st4, h = observe(tx.hash)
        hist = [e[0] for e in done]
        case = {"kind": "edit_history", "net": net, "tx0": tx0, "edits": [list(e) for e in done], "history": hist}
        rec.case(("edit", net, tuple(hist), want_id))
        if st3 != "ok" or b != want_bin:
            rec.violation("tx.history.bytes_stale", case, b if st3 != "ok" else b[:60], want_bin[:60])
        elif st1 != "ok" or a != want_id or st4 != "ok" or bytes(h) != H(R.serialize(d, False)):
            rec.violation("tx.history.id_stale_after." + (hist[-1] if hist else "build"), case, a, want_id)
        elif st2 != "ok" or w != want_w:
            rec.violation("tx.history.w_id_stale_after." + (hist[-1] if hist else "build"), case, w, want_w)
    judge()
    if edits is None:
        for _ in range(rng.randrange(2, 7)):
            edit = _draw_edit(d, rng)
            if edit is None:
                continue
            _apply_edit(T, tx, d, edit)
            done.append(edit)
            judge()
    else:
        for edit in edits:
            _apply_edit(T, tx, d, edit)
            done.append(edit)
            judge()


def _inplace_container_history(net, T, rec, rng, item=None):
    """objects built through the plain constructors, then a container attribute of ONE of them is filled in place
    (tx_in.witness.append, txs_out.append): every other live or later-parsed object must be unaffected"""
    H = _H(net)
    h = [bytes(rng.randrange(1, 256) for _ in range(32)) for _ in range(4)]
    drawn = bytes(rng.randrange(256) for _ in range(rng.choice([1, 33, 72])))
    item = drawn if item is None else item
    da = {"version": 1, "lock_time": 0, "ins": [{"prev": h[0], "index": 0, "script": b"\x51", "sequence": 0xffffffff, "witness": []},
                                                {"prev": h[1], "index": 1, "script": b"", "sequence": 5, "witness": []}],
          "outs": [{"value": 5, "script": b"\x51"}]}
    db = {"version": 2, "lock_time": 7, "ins": [{"prev": h[2], "index": 0, "script": b"\x52", "sequence": 0xfffffffe, "witness": []}],
          "outs": [{"value": 6, "script": b"\x52"}]}
    a = T(1, [T.TxIn(h[0], 0, b"\x51"), T.TxIn(h[1], 1, b"", 5)], [T.TxOut(5, b"\x51")])
    b = T(2, [T.TxIn(h[2], 0, b"\x52", 0xfffffffe)], [T.TxOut(6, b"\x52")], 7)
    legacy = R.serialize(db)
    rec.ev("inplace_container_history")
    rec.case(("inplace", net, item))
    case = {"kind": "inplace_container", "net": net, "item": item}
    st, _ = observe(lambda: a.txs_in[0].witness.append(item))
    if st != "ok":
        return          # witness not an appendable container: nothing to observe
    da["ins"][0]["witness"] = [item]
    for label, obj, want in (("edited", a, da), ("other_live_object", b, db)):
        st, got = observe(obj.as_bin)
        if st != "ok" or got != R.serialize(want):
            rec.violation("tx.inplace_witness_append.%s_bytes_wrong" % label, case, got if st != "ok" else got[:80], R.serialize(want)[:80])
            return
        st, w = observe(obj.w_id)
        if st != "ok" or w != H(R.serialize(want))[::-1].hex():
            rec.violation("tx.inplace_witness_append.%s_w_id_wrong" % label, case, w, H(R.serialize(want))[::-1].hex())
            return
    st, c = observe(T.from_bin, legacy)
    if st != "ok" or c.as_bin() != legacy or c.w_id() != c.id():
        rec.violation("tx.inplace_witness_append.later_parsed_legacy_tx_wrong", case, None if st != "ok" else c.as_bin()[:80], legacy[:80])
        return
    fresh = T.TxIn(h[3], 0)
    if list(fresh.witness) != []:
        rec.violation("tx.inplace_witness_append.new_txin_not_witness_free", case, list(fresh.witness), [])


def _rand_unspents(d, rng):
    out = []
    for _ in d["ins"]:
        v = rng.choice([1, 1, 2, (1 << 63) - 1, 1 << 63, (1 << 64) - 1, rng.randrange(1, 21 * 10 ** 14), rng.getrandbits(64) or 1])
        out.append({"value": v, "script": G.rbytes(rng, rng.choice([0, 1, 25, 25, 34, 0xfc, 0xfd, rng.randrange(0, 60)]))})
    return out


# ---------------------------------------------------------------------------------------------
# spendables

def _sp_diff(a, b):
    for k in G.SPENDABLE_FIELDS:
        if a[k] != b[k]:
            return k
    return None


def _sp_shape(f):
    return (G._int_class(f["coin_value"], G.AMOUNT_EDGES), G._len_class(len(f["script"])), G._int_class(f["tx_out_index"], G.U32_EDGES),
            G._len_class(f["block_index_available"]), f["does_seem_spent"], G._len_class(f["block_index_spent"]),
            f["tx_hash"] == G.NULL_HASH)


def _sp_regions(f):
    out = []
    v, n = f["coin_value"], len(f["script"])
    if v == 0:
        out.append("dom:spendable.amount=0")
    if v >= 1 << 63:
        out.append("dom:spendable.amount>=2^63")
    if v == (1 << 64) - 1:
        out.append("dom:spendable.amount=2^64-1")
    if n == 0:
        out.append("dom:spendable.script_len=0")
    if n == 0xfd:
        out.append("dom:spendable.script_len=0xfd")
    if n >= 0xffff:
        out.append("dom:spendable.script_len>=0xffff")
    hi = max(f["block_index_available"], f["block_index_spent"])
    if hi >= 0xfd:
        out.append("dom:spendable.block_index>=0xfd")
    if hi >= 0x10000:
        out.append("dom:spendable.block_index>=0x10000")
    if f["does_seem_spent"]:
        out.append("dom:spendable.seems_spent")
    if f["tx_out_index"] >= 1 << 31:
        out.append("dom:spendable.index>=2^31")
    return out


def _check_spendable(S, f, rec):
    case = {"kind": "spendable", "fields": dict(f, script=G._pack_bytes(f["script"]))}
    want = dict(f, script=bytes(f["script"]), does_seem_spent=int(f["does_seem_spent"]))
    rec.case(("sp", _sp_shape(f)), nontrivial=(f["coin_value"] in G.AMOUNT_EDGES[2:] or f["tx_out_index"] in G.U32_EDGES[3:] or
                                               len(f["script"]) in (0xfc, 0xfd, 0xfe, 0xffff, 0x10000) or
                                               f["block_index_available"] >= 0xfc or f["block_index_spent"] >= 0xfc))
    for r in _sp_regions(f):
        rec.ev(r)
    st, s = observe(G.spendable_to_pycoin, S, f)
    if st != "ok":
        rec.violation("spendable.construct.raises", case, s, "object")
        return
    # text
    rec.ev("Spendable.as_text")
    st, text = observe(s.as_text)
    if st != "ok":
        rec.violation("spendable.text.as_text_raises", case, text, "text")
    else:
        rec.ev("Spendable.from_text")
        st, s2 = observe(S.from_text, text)
        if st != "ok":
            rec.violation("spendable.text.from_text_raises", dict(case, text=text[:300]), s2, "spendable")
        else:
            diff = _sp_diff(want, G.spendable_from_pycoin(s2))
            if diff:
                rec.violation("spendable.text.roundtrip_mismatch." + diff, dict(case, text=text[:300]), G.spendable_from_pycoin(s2)[diff], want[diff])
    # dict, directly and through JSON
    rec.ev("Spendable.as_dict")
    st, dd = observe(s.as_dict)
    if st != "ok":
        rec.violation("spendable.dict.as_dict_raises", case, dd, "dict")
    else:
        for label, val in (("direct", dd), ("json", None)):
            if label == "json":
                st, val = observe(lambda: json.loads(json.dumps(dd)))
                if st != "ok":
                    rec.violation("spendable.dict.not_json_serialisable", case, val, "json")
                    continue
            rec.ev("Spendable.from_dict")
            st, s3 = observe(S.from_dict, val)
            if st != "ok":
                rec.violation("spendable.dict.from_dict_raises", case, s3, "spendable")
            else:
                diff = _sp_diff(want, G.spendable_from_pycoin(s3))
                if diff:
                    rec.violation("spendable.dict.roundtrip_mismatch." + diff, case, G.spendable_from_pycoin(s3)[diff], want[diff])
    # binary
    rec.ev("Spendable.as_bin(as_spendable)")
    st, b = observe(s.as_bin, as_spendable=True)
    if st != "ok":
        mech = "spendable.bin.as_bin_attribute_error" if isinstance(b, AttributeError) else "spendable.bin.as_bin_raises"
        rec.violation(mech, case, b, "bytes")
    else:
        rec.ev("Spendable.from_bin")
        st, s4 = observe(S.from_bin, b)
        if st != "ok":
            rec.violation("spendable.bin.from_bin_raises", case, s4, "spendable")
        else:
            diff = _sp_diff(want, G.spendable_from_pycoin(s4))
            if diff:
                rec.violation("spendable.bin.roundtrip_mismatch." + diff, case, G.spendable_from_pycoin(s4)[diff], want[diff])
    # stream() to a file object is the same operation as as_bin
    f_ = io.BytesIO()
    rec.ev("Spendable.stream(as_spendable)")
    st, r = observe(s.stream, f_, as_spendable=True)
    if st != "ok":
        mech = "spendable.bin.as_bin_attribute_error" if isinstance(r, AttributeError) else "spendable.bin.as_bin_raises"
        rec.violation(mech, case, r, "bytes")


def _huge_count_sweep():
    yield "n_in=0x10000", G.simple_tx(n_in=0x10000)
    yield "n_out=0x10000", G.simple_tx(n_out=0x10000)
    yield "n_witness_items=0x10000", G.simple_tx(witness=[b""] * 0xffff + [b"\x01"])
    t = G.simple_tx(witness=[b"\x07" * 0x10001])
    yield "witness_item_len=0x10001", t


def _spendable_sweep():
    base = {"coin_value": 5000, "script": b"\x76\xa9", "tx_hash": bytes(range(32)), "tx_out_index": 3,
            "block_index_available": 0, "does_seem_spent": 0, "block_index_spent": 0}
    yield base
    for v in G.AMOUNT_EDGES + [0xffffffff, 0x100000000]:
        yield dict(base, coin_value=v)
    for v in G.U32_EDGES:
        yield dict(base, tx_out_index=v)
    for v in (1, 2, 0xfc, 0xfd, 0xfe, 0xffff, 0x10000, 0xffffffff, 0x100000000):
        yield dict(base, block_index_available=v)
        yield dict(base, block_index_spent=v)
        yield dict(base, block_index_available=v, block_index_spent=v + 1, does_seem_spent=1)
    for L in G.LEN_EDGES:
        yield dict(base, script=b"\x6a" * L)
    yield dict(base, does_seem_spent=1)
    yield dict(base, tx_hash=G.NULL_HASH)
    yield dict(base, tx_hash=b"\xff" * 32, does_seem_spent=1, block_index_available=7, block_index_spent=9)


# ---------------------------------------------------------------------------------------------

def run_shard(spec, rec):
    nets = _nets(rec)
    rng = shard_rng(spec["seed"], PROPERTY, spec["tier"], spec["shard"])
    if spec["kind"] == "spendables":
        rec.require("Spendable.as_text", "Spendable.from_text", "Spendable.as_dict", "Spendable.from_dict", "Spendable.from_bin",
                    "Spendable.as_bin(as_spendable)")
    else:
        rec.require("Tx.as_bin", "Tx.as_hex", "Tx.from_bin", "Tx.from_hex", "Tx.parse", "Tx.reserialise", "Tx.id", "Tx.w_id", "Tx.hash",
                    "witness_variation", "Tx.as_bin(include_unspents)", "Tx.as_hex(include_unspents)", "Tx.from_bin(with unspents)",
                    "Tx.from_hex(with unspents)", "Tx.reserialise(with unspents)", "Tx.as_bin/id/w_id(object carrying unspents)")
    order = [n for n in ROTATION if n in nets]
    if spec["kind"] == "sweep":
        for n_label, (label, d) in enumerate(G.boundary_sweep()):
            for k, net in enumerate(nets):
                via = ("attr", "set_witness", "tuple")[k % 3]
                _check_tx(net, nets[net], d, rec, rng, via=via, unspents=_rand_unspents(d, rng) if len(d["ins"]) <= 300 else None,
                          light=len(d["ins"]) + len(d["outs"]) > 100 and net not in ("BTC", "LTC"),
                          unspents_as=("txout", "spendable")[(n_label + k) % 2])
        # count fields across 0xffff/0x10000 (the two parser implementations: Bitcoin base class and Litecoin)
        for label, d in _huge_count_sweep():
            for net in ("BTC", "LTC"):
                _check_tx(net, nets[net], d, rec, rng, via="attr", light=True)
        rec.sample({"class": "BTC", "sweep_label": "in_script_len=0xfd", "txid": R.txid_hex(G.simple_tx(script_len=0xfd))})
        S = nets["BTC"].Spendable
        for f in _spendable_sweep():
            _check_spendable(S, f, rec)
        rec.require("Spendable.as_text")
        return
    if spec["kind"] == "txs":
        for i in range(spec["n"]):
            net = order[i % len(order)]
            d = G.rand_tx(rng)
            via = ("attr", "attr", "set_witness", "tuple")[rng.randrange(4)]
            u = _rand_unspents(d, rng) if rng.random() < 0.4 else None
            _check_tx(net, nets[net], d, rec, rng, via=via, unspents=u, unspents_as="spendable" if i % 3 == 1 else "txout")
            if i == 0:
                rec.require("Tx.id(after in-place edit)", "inplace_container_history")
            if i % 3 == 0:
                _live_edit_history(net, nets[net], d, rec, rng)
            if i % 50 == 7:
                _inplace_container_history(net, nets[net], rec, rng)
            if i < 40 and len(rec.samples) < 2 and len(R.serialize(d)) < 300 and R.has_witness(d):
                rec.sample({"class": net, "tx": G.pack(d), "txid": _H(net)(R.serialize(d, False))[::-1].hex(),
                            "wtxid": _H(net)(R.serialize(d))[::-1].hex(), "wire": R.serialize(d)})
        return
    if spec["kind"] == "spendables":
        classes = [nets[n].Spendable for n in order]
        for i in range(spec["n"]):
            f = G.rand_spendable(rng)
            _check_spendable(classes[i % len(classes)], f, rec)
            if i == 0:
                rec.sample({"spendable": dict(f)})
        return
    raise ValueError(spec["kind"])


def replay_case(case, rec):
    nets = _nets(rec)
    rng = shard_rng(0, PROPERTY, "replay", 0)
    if case.get("kind") == "spendable":
        f = dict(case["fields"])
        f["script"] = G._unpack_bytes(f["script"])
        f["tx_hash"] = G._unpack_bytes(f["tx_hash"])
        for k in ("coin_value", "tx_out_index", "block_index_available", "does_seem_spent", "block_index_spent"):
            f[k] = int(f[k])
        _check_spendable(nets["BTC"].Spendable, f, rec)
        return
    net = case.get("net", "BTC")
    if case.get("kind") == "edit_history":
        edits = []
        for e, k, j, v in case.get("edits") or []:
            if isinstance(v, str) and not isinstance(v, bytes):
                v = G._unpack_bytes(v) if e in ("prev_hash", "in_script", "out_script") else int(v)
            elif e == "witness":
                v = [G._unpack_bytes(x) for x in (v or [])]
            edits.append([e, int(k), int(j), v])
        _live_edit_history(net, nets[net], G.unpack(case["tx0"]), rec, rng, edits=edits)
        return
    if case.get("kind") == "inplace_container":
        _inplace_container_history(net, nets[net], rec, rng, item=G._unpack_bytes(case["item"]))
        return
    d = G.unpack(case["tx"])
    u = None
    if case.get("unspents"):
        u = [{"value": int(x["value"]), "script": G._unpack_bytes(x["script"])} for x in case["unspents"]]
    net = case.get("net", "BTC")
    for seed in range(4):          # the witness variation is random; try the four modes
        _check_tx(net, nets[net], d, rec, shard_rng(seed, PROPERTY, "replay", 0), via=case.get("via", "attr"), unspents=u,
                  unspents_as=case.get("unspents_as", "txout"), light=len(d["ins"]) + len(d["outs"]) > 5000)
    if case.get("tx2"):
        d2 = G.unpack(case["tx2"])
        T = nets[net]
        a, b = G.to_pycoin(T, d, "attr"), G.to_pycoin(T, d2, "attr")
        if a.id() != b.id():
            rec.violation("tx.id.depends_on_witness", case, [a.id(), b.id()], "equal ids")
        if a.w_id() == b.w_id():
            rec.violation("tx.w_id.ignores_witness", case, [a.w_id(), b.w_id()], "different witness ids")
