"""C07 — transactions round-trip through the wire format and have stable ids; spendable records round-trip."""
import hashlib
import io
import json
import os

from vmon.probe import shard_rng, observe
from vmon.refs import txser as R
from vmon.gen import txgen as G

PROPERTY = "C07"
PRELOAD_NETWORK_ORDERS = [["btc", "xtn", "ltc", "bch", "grs", "doge", "dash", "btg"], ["btg", "grs", "bch", "doge", "ltc", "xtn", "btc"]]
LEVEL = "exploration"
TECHNIQUE = "differential runtime monitor: every serialise/parse/id call of five Tx classes compared with an independent wire-format reference"
RULE = ("cases: (transaction class, transaction) pairs; transactions from a deterministic sweep that puts each compact-size boundary "
        "(0xfc/0xfd/0xfe/0xffff/0x10000) on each length and count field and each 32/64-bit boundary on each integer field, plus "
        "one transaction each with 65536 inputs / 65536 outputs / 65536 witness items / a 65537-byte witness item (BTC and LTC parsers), "
        "seeded random transactions (1..300 inputs, 0..300 outputs, witness modes none/all-empty/some/all/first/last, empty witness "
        "items, 252..254-item stacks, amounts up to 2^64-1); spendable records with boundary-biased fields. Distinct by (class, "
        "field-shape vector) resp. (form, field classes); non-trivial when at least one field sits on a compact-size or integer-width "
        "boundary or a witness item is empty. Further: every two boundary conditions of different kinds in one transaction (pair sweep); "
        "counts and lengths one below / one above the 0xffff|0x10000 step; refused calls (a value that does not fit its wire field, "
        "a non-bytes item, truncated or malformed input, a wrong-length unspents list) placed between judged calls on the same object, "
        "on another object and on another network's class; caller-owned bytearray / list / dict arguments; one object edited and queried "
        "more than 2^16+100 times in one process.")
ASSUMPTIONS = [
    "vmon/refs/txser.py is the wire format (self-tested on every run: genesis coinbase and a mainnet txid, BIP143 example, every "
    "transaction of tests/btc/data/tx_valid.json and tx_invalid.json round-trips and cites the prevouts listed next to it)",
    "the id hash is double-SHA256 for BTC/LTC/BCH/BTG; for Groestlcoin the coin defines transaction ids with single SHA-256, so the "
    "GRS class is compared with single SHA-256 of the same witness-stripped bytes",
    "versions are taken from 0..2^32-1 (the wire field is 32 bits wide)",
    "'equal transaction' is read field-wise: version, lock time, and per input outpoint hash, index, script, sequence, witness stack; "
    "per output amount and script",
    "spendable forms are judged on the round trip only (fields out = fields in); the text, dictionary and binary layouts themselves are "
    "not prescribed by the statement and are not compared with anything",
    "hex output is compared as bytes (letter case is left open); if the spelling differs from lower-case hex, the library's own text "
    "must parse back",
    "the spent-output extension is the TxOut wire forms of the spent outputs, in input order, appended to the transaction bytes; the "
    "unspents are given either as TxOut or as Spendable objects (set_unspents documents both); a transaction object that carries "
    "unspents has the same plain bytes, id and witness id as one that does not",
    "a call the library refuses (an exception) is never judged; what is judged is every answer after it: the object the caller has put "
    "a valid value back into, other live objects, freshly parsed bytes - all ordinary transactions of the statement's domain",
    "bytearray arguments and fields are judged only while the class takes them (as it does today); a refusal of a bytearray is not judged",
]
EXPLANATION = ("as_bin/as_hex bytes must equal the reference serialisation (BIP144 form iff some witness stack is non-empty); from_bin/"
               "from_hex/parse of reference-made bytes must give back the fields and re-serialise identically; id/hash/w_id must equal the "
               "reference digests, id must not move and w_id must move when only witness data changes; the spent-output extension and "
               "each spendable form must round-trip field-wise. Every region of the quantified-over domain has its own 'dom:' counter and "
               "every transaction class a 'class:' counter; a run in which one of them stays at zero is inconclusive")
TIMEOUT = {"quick": 600, "thorough": 3 * 3600}

NETS = ["BTC", "LTC", "BCH", "BTG", "GRS"]
ROTATION = ["BTC", "LTC", "BCH", "BTC", "LTC", "BTG", "GRS"]


def exhaustive(tier):
    return False


def configurations(tier):
    return [{"tx_classes": NETS}]


def plan(tier, seed):
    if tier == "quick":
        shards = [{"kind": "sweep"}]
        shards += [{"kind": "txs", "n": 3000} for _ in range(11)]
        shards += [{"kind": "spendables", "n": 5000} for _ in range(4)]
        shards += [{"kind": "long_run"}, {"kind": "pairs", "part": 0, "of": 1}]
    else:
        shards = [{"kind": "sweep"}]
        shards += [{"kind": "txs", "n": 80000} for _ in range(13)]
        shards += [{"kind": "spendables", "n": 100000} for _ in range(2)]
        shards += [{"kind": "long_run"}, {"kind": "pairs", "part": 0, "of": 1}]
    return shards


# ---------------------------------------------------------------------------------------------
# oracle self-test

MAINNET_TX_HEX = (
    "0100000001a8f57056b016d7d243fc0fc2a73f9146e7e4c7766ec6033b5ac4cb89c64e19d0000000008a4730440220251acb534ba1b8a269260ad3fa80e075cd"
    "150d3ffba76ad20cd2e8178dee98b702202284f9c7eae3adfcf0857a901cd34f0ea338d5744caab88afad5797be643f7b7014104af8385da9dc85aa153f16341a4"
    "015bc95e7ff57876b9bde40bd8450a5723a05c1c89ff2d85230d2e62c0c7690b8272cf85868a0a0fc02f99a5b793f22d5c7092ffffffff02bb5b07000000000019"
    "76a9145b78716d137e386ae2befc4296d938372559f37888acdd3c71000000000017a914c6572ee1c85a1b9ce1921753871bda0b5ce889ac8700000000")
MAINNET_TX_ID = "e1a18b843fc420734deeb68ff6df041a2585e1a0d7dbf3b82aab98291a6d9952"


def selftest(rec):
    out = {"txser_builtin": R.selftest()}
    t, n = R.parse(bytes.fromhex(MAINNET_TX_HEX))
    assert R.txid_hex(t) == MAINNET_TX_ID and R.wtxid_hex(t) == MAINNET_TX_ID
    # the vendored Core vectors, used as data: every tx hex round-trips and spends the prevouts cited next to it
    repo = (rec.spec or {}).get("repo") or "/repo"
    n_vec = 0
    for name in ("tx_valid.json", "tx_invalid.json"):
        p = os.path.join(repo, "tests", "btc", "data", name)
        if not os.path.exists(p):
            continue
        for row in json.load(open(p)):
            if len(row) != 3 or not isinstance(row[0], list):
                continue
            raw = bytes.fromhex(row[1])
            try:
                t, used = R.parse(raw)
            except (ValueError, KeyError):
                continue        # a few tx_invalid entries are not parseable on purpose (no inputs)
            assert R.serialize(t) == raw, "reference does not round-trip a Core vector"
            cited = {(p_[0], p_[1] & 0xffffffff) for p_ in row[0]}
            assert {(i["prev"][::-1].hex(), i["index"]) for i in t["ins"]} == cited, "reference misreads outpoints"
            n_vec += 1
    assert n_vec > 150 or not os.path.exists(os.path.join(repo, "tests", "btc", "data", "tx_valid.json"))
    out["core_vectors_roundtrip"] = n_vec
    # generator <-> reference closure, witness-id laws
    rng = shard_rng(0, PROPERTY, "selftest", 0)
    k = 0
    for label, d in list(G.boundary_sweep()) + [("rnd", G.rand_tx(rng)) for _ in range(300)]:
        b = R.serialize(d)
        back, used = R.parse(b)
        assert used == len(b) and G.norm(back) == G.norm(d), label
        leg = R.serialize(d, with_witness=False)
        assert (leg == b) == (not R.has_witness(d))
        if R.has_witness(d):
            assert b[4:6] == b"\x00\x01" and R.txid_bytes(d) != R.wtxid_bytes(d)
            stripped = G.norm(d)
            for i in stripped["ins"]:
                i["witness"] = []
            assert R.serialize(stripped) == leg and R.txid_bytes(stripped) == R.txid_bytes(d)
        k += 1
    out["generator_closure"] = k
    return out


# ---------------------------------------------------------------------------------------------

def _nets(rec=None):
    import importlib
    nets = {}
    for n in NETS:
        try:
            nets[n] = importlib.import_module("pycoin.symbols." + n.lower()).network.tx
        except Exception as e:      # GRS needs no groestlcoin_hash for its Tx class, but tolerate an import failure
            if rec is not None:
                rec.note("config_absent: %s transaction class not importable (%s)" % (n, type(e).__name__))
    return nets


def _H(net):
    if net == "GRS":
        return lambda b: hashlib.sha256(b).digest()
    return R.dsha


def _unhex(text):
    try:
        return bytes.fromhex(text)
    except ValueError:
        return None


# ---------------------------------------------------------------------------------------------
# regions of the quantified-over domain: one counter each, all of them must be reached (post_merge_requirements)

_LEN_MARKS = (0xfc, 0xfd, 0xffff, 0x10000)


def _len_regions(prefix, lengths, out):
    for n in lengths:
        if n in _LEN_MARKS:
            out.add("%s=%#x" % (prefix, n))


def _regions(d):
    """labels of the domain regions (statement: 'Quantified over') one transaction sits in"""
    out = set()
    ins, outs = d["ins"], d["outs"]
    n_in, n_out = len(ins), len(outs)
    out.add("dom:n_in=1" if n_in == 1 else "dom:n_in>=253" if n_in >= 253 else "dom:n_in=2..252")
    if n_in >= 0x10000:
        out.add("dom:n_in>=0x10000")
    out.add("dom:n_out=0" if n_out == 0 else "dom:n_out>=253" if n_out >= 253 else "dom:n_out=1..252")
    if n_out >= 0x10000:
        out.add("dom:n_out>=0x10000")
    _len_regions("dom:in_script_len", {len(i["script"]) for i in ins}, out)
    _len_regions("dom:out_script_len", {len(o["script"]) for o in outs}, out)
    with_w = 0
    for i in ins:
        w = i["witness"]
        if not w:
            continue
        with_w += 1
        if len(w) >= 253:
            out.add("dom:witness_items>=253")
            if len(w) >= 0x10000:
                out.add("dom:witness_items>=0x10000")
        ls = {len(x) for x in w}
        _len_regions("dom:witness_item_len", ls, out)
        if 0 in ls:
            out.add("dom:witness_empty_item")
            if ls == {0}:
                out.add("dom:witness_stack_of_empty_items_only")
        if max(ls) > 0x10000:
            out.add("dom:witness_item_len>0x10000")
    out.add("dom:no_witness(legacy form)" if with_w == 0 else "dom:witness_on_all_inputs" if with_w == n_in else
            "dom:witness_and_non_witness_inputs_mixed")
    for o in outs:
        v = o["value"]
        if v == 0:
            out.add("dom:amount=0")
        elif v == (1 << 64) - 1:
            out.add("dom:amount=2^64-1")
        if v >= 1 << 63:
            out.add("dom:amount>=2^63")
        elif v > 21 * 10 ** 14:
            out.add("dom:amount>21e14")
    for f in ("version", "lock_time"):
        if d[f] >= 0x80000000:
            out.add("dom:%s>=2^31" % f)
    if any(i["sequence"] not in (0xffffffff, 0xfffffffe) for i in ins):
        out.add("dom:sequence_not_final")
    return out


DOMAIN_REQUIRED = (
    ["dom:n_in=1", "dom:n_in=2..252", "dom:n_in>=253", "dom:n_in>=0x10000", "dom:n_out=0", "dom:n_out=1..252", "dom:n_out>=253",
     "dom:n_out>=0x10000", "dom:witness_items>=253", "dom:witness_items>=0x10000", "dom:witness_empty_item",
     "dom:witness_stack_of_empty_items_only", "dom:witness_item_len>0x10000", "dom:no_witness(legacy form)",
     "dom:witness_on_all_inputs", "dom:witness_and_non_witness_inputs_mixed", "dom:amount=0", "dom:amount=2^64-1", "dom:amount>=2^63",
     "dom:amount>21e14", "dom:version>=2^31", "dom:lock_time>=2^31", "dom:sequence_not_final"] +
    ["dom:%s=%#x" % (k, n) for k in ("in_script_len", "out_script_len", "witness_item_len") for n in _LEN_MARKS] +
    ["dom:spendable." + k for k in ("amount=0", "amount>=2^63", "amount=2^64-1", "script_len=0", "script_len=0xfd", "script_len>=0xffff",
                                    "block_index>=0xfd", "block_index>=0x10000", "seems_spent", "index>=2^31")] +
    ["dom:unspents_as_TxOut", "dom:unspents_as_Spendable", "dom:unspent_amount>=2^63", "dom:count_or_length_next_to_0x10000",
     "dom:two_boundary_conditions_in_one_transaction"])


def post_merge_requirements():
    """every region of the domain and every transaction class, whichever shard reached it"""
    return list(DOMAIN_REQUIRED) + ["class:" + n for n in NETS] + list(REFUSAL_REQUIRED) + list(SP_REFUSAL_REQUIRED) + ["long_run.more_than_2^16+100_ops_on_one_object"] + list(MUTABLE_ARGS_REQUIRED) + ["producer:" + p_ for p_ in PRODUCERS] + list(CROSS_FORM_REQUIRED)


def _mutate_witness(d, rng):
    """same transaction, different witness data"""
    e = G.norm(d)
    idx = [k for k, i in enumerate(e["ins"]) if i["witness"]]
    if not idx:
        e["ins"][rng.randrange(len(e["ins"]))]["witness"] = [b"\x01"]
        return e
    mode = rng.randrange(4)
    k = rng.choice(idx)
    w = e["ins"][k]["witness"]
    if mode == 0:
        for i in e["ins"]:
            i["witness"] = []
    elif mode == 1:
        j = rng.randrange(len(w))
        w[j] = (bytes([w[j][0] ^ 1]) + w[j][1:]) if w[j] else b"\x00"
    elif mode == 2:
        w.append(b"")
    else:
        w.pop()
        if not R.has_witness(e):
            e["ins"][k]["witness"] = [b"", b""]
    return e


def _plain_forms_with_unspents(obj, label, case, rec, full, e_hash, e_id, e_wid):
    rec.ev("Tx.as_bin/id/w_id(object carrying unspents)")
    st, b = observe(obj.as_bin)
    if st != "ok" or b != full:
        rec.violation("tx.unspents.plain_bytes_changed", dict(case, on=label), b if st != "ok" else b[-80:], full[-80:])
    st, h = observe(obj.hash)
    st2, i_ = observe(obj.id)
    if st != "ok" or st2 != "ok" or bytes(h) != e_hash or i_ != e_id:
        rec.violation("tx.unspents.id_changed", dict(case, on=label), i_, e_id)
    st, w_ = observe(obj.w_id)
    if st != "ok" or w_ != e_wid:
        rec.violation("tx.unspents.w_id_changed", dict(case, on=label), w_, e_wid)


def _check_tx(net, T, d, rec, rng, via="attr", unspents=None, light=False, unspents_as="txout"):
    """Every C07 observation for one (class, transaction)."""
    case = {"kind": "tx", "net": net, "tx": G.pack(d), "via": via}
    H = _H(net)
    full = R.serialize(d, True)
    legacy = R.serialize(d, False)
    hasw = R.has_witness(d)
    rec.case((net, G.shape(d)), nontrivial=G.on_boundary(d))
    rec.ev("class:" + net)
    for r in _regions(d):
        rec.ev(r)

    st, tx = observe(G.to_pycoin, T, d, via)
    if st != "ok":
        rec.violation("tx.construct.raises", case, tx, "object")
        return
    # -- serialise
    rec.ev("Tx.as_bin")
    st, b = observe(tx.as_bin)
    if st != "ok":
        rec.violation("tx.as_bin.raises", case, b, "bytes")
        return
    if b != full:
        if not hasw and b[4:6] == b"\x00\x01" and full[4:6] != b"\x00\x01":
            mech = "tx.as_bin.marker_without_witness"
        elif hasw and b == legacy:
            mech = "tx.as_bin.witness_dropped"
        elif len(b) != len(full):
            mech = "tx.as_bin.length_mismatch"
        else:
            mech = "tx.as_bin.bytes_mismatch"
        rec.violation(mech, case, b[:80], full[:80], detail={"len_observed": len(b), "len_expected": len(full)})
    rec.ev("Tx.as_hex")
    st, hx = observe(tx.as_hex)
    if st != "ok" or not isinstance(hx, str) or _unhex(hx) != full:
        rec.violation("tx.as_hex.mismatch", case, hx if st != "ok" else hx[:160], full.hex()[:160])
    elif hx != full.hex():
        # same bytes, other spelling (letter case is not fixed by the statement): the library's own text must parse back
        rec.ev("Tx.from_hex(own spelling)")
        st, t0 = observe(T.from_hex, hx)
        if st != "ok" or G.first_difference(G.norm(d), G.from_pycoin(t0)):
            rec.violation("tx.as_hex.own_text_not_parsed_back", case, t0 if st != "ok" else None, "transaction")
    # -- parse reference-made bytes, three entry points
    want = G.norm(d)
    parsed = None
    entries = [("from_bin", lambda: T.from_bin(full)), ("parse", lambda: T.parse(io.BytesIO(full)))]
    if not light:
        entries.append(("from_hex", lambda: T.from_hex(full.hex())))
    for name, fn in entries:
        rec.ev("Tx." + name)
        st, t2 = observe(fn)
        if st != "ok":
            rec.violation("tx.%s.raises" % name, case, t2, "transaction")
            continue
        got = G.from_pycoin(t2)
        diff = G.first_difference(want, got)
        if diff:
            rec.violation("tx.%s.field_mismatch.%s" % (name, diff), case, diff, "fields equal to the serialised transaction")
            continue
        if parsed is None:
            parsed = t2
            rec.ev("Tx.reserialise")
            st, b2 = observe(t2.as_bin)
            if st != "ok" or b2 != full:
                rec.violation("tx.reserialise.mismatch", case, b2 if st != "ok" else b2[:80], full[:80])
    # serialise-then-parse of pycoin's own bytes (only informative when they differed from the reference)
    if b != full:
        st, t3 = observe(T.from_bin, b)
        if st != "ok" or G.first_difference(want, G.from_pycoin(t3)):
            rec.violation("tx.roundtrip.not_equal", case, t3 if st != "ok" else G.first_difference(want, G.from_pycoin(t3)), None)
    # -- ids
    e_hash = H(legacy)
    e_id = e_hash[::-1].hex()
    e_wid = H(full)[::-1].hex()
    for label, obj in (("built", tx), ("parsed", parsed)):
        if obj is None:
            continue
        rec.ev("Tx.hash")
        st, h = observe(obj.hash)
        if st != "ok" or bytes(h) != e_hash:
            mech = "tx.hash.includes_witness" if (st == "ok" and hasw and bytes(h) == H(full)) else "tx.hash.mismatch"
            rec.violation(mech, dict(case, on=label), h, e_hash)
        rec.ev("Tx.id")
        st, i_ = observe(obj.id)
        if st != "ok" or i_ != e_id:
            mech = "tx.id.includes_witness" if (st == "ok" and hasw and i_ == e_wid) else "tx.id.mismatch"
            rec.violation(mech, dict(case, on=label), i_, e_id)
        rec.ev("Tx.w_id")
        st, w_ = observe(obj.w_id)
        if st != "ok" or w_ != e_wid:
            mech = "tx.w_id.ignores_witness" if (st == "ok" and hasw and w_ == e_id) else "tx.w_id.mismatch"
            rec.violation(mech, dict(case, on=label), w_, e_wid)
    # id does not depend on witness data, w_id covers it
    if not light:
        d2 = _mutate_witness(d, rng)
        st, tx2 = observe(G.to_pycoin, T, d2, "attr")
        if st == "ok":
            rec.ev("witness_variation")
            s1, ida = observe(tx.id)
            s2, idb = observe(tx2.id)
            s3, wa = observe(tx.w_id)
            s4, wb = observe(tx2.w_id)
            c2 = dict(case, tx2=G.pack(d2))
            if (s1, s2) == ("ok", "ok") and ida != idb:
                rec.violation("tx.id.depends_on_witness", c2, [ida, idb], "equal ids")
            if (s3, s4) == ("ok", "ok") and wa == wb:
                rec.violation("tx.w_id.ignores_witness", c2, [wa, wb], "different witness ids")
            if s4 == "ok" and wb != H(R.serialize(d2))[::-1].hex():
                rec.violation("tx.w_id.mismatch", dict(case, tx=G.pack(d2)), wb, H(R.serialize(d2))[::-1].hex())
    # -- spent-output extension (non-zero amounts)
    if unspents:
        c3 = dict(case, unspents=[{"value": u["value"], "script": G._pack_bytes(u["script"])} for u in unspents], unspents_as=unspents_as)
        ext = full + b"".join(R.ser_out(u) for u in unspents)
        rec.ev("dom:unspents_as_Spendable" if unspents_as == "spendable" else "dom:unspents_as_TxOut")
        if any(u["value"] >= 1 << 63 for u in unspents):
            rec.ev("dom:unspent_amount>=2^63")
        if unspents_as == "spendable":      # set_unspents takes "TxOut (or the subclass Spendable) objects"
            objs = [T.Spendable(u["value"], u["script"], i["prev"], i["index"]) for u, i in zip(unspents, d["ins"])]
        else:
            objs = [T.TxOut(u["value"], u["script"]) for u in unspents]
        st, r = observe(tx.set_unspents, objs)
        if st != "ok":
            rec.violation("tx.unspents.set_unspents_raises", c3, r, None)
            return tx
        rec.ev("Tx.as_bin(include_unspents)")
        st, bu = observe(tx.as_bin, include_unspents=True)
        if st != "ok" or bu != ext:
            rec.violation("tx.unspents.bytes_mismatch", c3, bu if st != "ok" else bu[-80:], ext[-80:])
        rec.ev("Tx.as_hex(include_unspents)")
        st, hu = observe(tx.as_hex, include_unspents=True)
        if st != "ok" or not isinstance(hu, str) or _unhex(hu) != ext:
            rec.violation("tx.unspents.hex_mismatch", c3, hu if st != "ok" else hu[-160:], ext.hex()[-160:])
        # a transaction that carries spent outputs is still the same transaction: plain bytes and ids unchanged
        _plain_forms_with_unspents(tx, "built", c3, rec, full, e_hash, e_id, e_wid)
        for name, fn in (("from_bin", lambda: T.from_bin(ext)), ("from_hex", lambda: T.from_hex(ext.hex()))):
            rec.ev("Tx.%s(with unspents)" % name)
            st, t4 = observe(fn)
            if st != "ok":
                rec.violation("tx.unspents.parse_raises", c3, t4, "transaction with unspents")
                continue
            diff = G.first_difference(want, G.from_pycoin(t4))
            if diff:
                rec.violation("tx.unspents.tx_field_mismatch." + diff, c3, diff, None)
            got_u = [None if u is None else {"value": u.coin_value, "script": bytes(u.script)} for u in (t4.unspents or [])]
            exp_u = [{"value": u["value"], "script": bytes(u["script"])} for u in unspents]
            if got_u != exp_u:
                if len(got_u) != len(exp_u):
                    m = "tx.unspents.lost"
                elif any(g is None for g in got_u):
                    m = "tx.unspents.nonzero_amount_read_as_missing"
                else:
                    m = "tx.unspents.roundtrip_mismatch"
                rec.violation(m, c3, got_u[:4], exp_u[:4])
                continue
            rec.ev("Tx.reserialise(with unspents)")
            st, b5 = observe(t4.as_bin, include_unspents=True)
            if st != "ok" or b5 != ext:
                rec.violation("tx.unspents.reserialise_mismatch", c3, b5 if st != "ok" else b5[-80:], ext[-80:])
            if name == "from_bin":
                _plain_forms_with_unspents(t4, "parsed", c3, rec, full, e_hash, e_id, e_wid)
    return tx


EDIT_OPS = ["version", "lock_time", "sequence", "prev_index", "prev_hash", "in_script", "witness", "out_value", "out_script", "add_out", "pop_out"]


def _draw_edit(d, rng):
    """one in-place edit [op, input index, output index, value] applicable to d, or None (rng consumption as before)"""
    e = rng.choice(EDIT_OPS)
    k = rng.randrange(len(d["ins"]))
    j, v = 0, None
    if e in ("version", "lock_time", "prev_index"):
        v = rng.randrange(1 << 32)
    elif e == "sequence":
        v = rng.choice([0, 1, 0xfffffffd, 0xfffffffe, rng.randrange(1 << 32)])
    elif e == "prev_hash":
        v = bytes(rng.randrange(256) for _ in range(32))
    elif e == "in_script":
        v = bytes(rng.randrange(256) for _ in range(rng.choice([0, 1, 30, 253])))
    elif e == "witness":
        v = [bytes(rng.randrange(256) for _ in range(rng.choice([0, 1, 33]))) for _ in range(rng.choice([0, 1, 2]))]
    elif e in ("out_value", "out_script") and d["outs"]:
        j = rng.randrange(len(d["outs"]))
        v = rng.randrange(1 << 50) if e == "out_value" else bytes(rng.randrange(256) for _ in range(rng.choice([0, 25, 34])))
    elif e == "add_out":
        v = 7
    elif e == "pop_out" and len(d["outs"]) > 1:
        pass
    else:
        return None
    return [e, k, j, v]


def _apply_edit(T, tx, d, edit):
    """the same edit on the live object (public attributes) and on the model"""
    e, k, j, v = edit
    if e == "version":
        d["version"] = tx.version = v
    elif e == "lock_time":
        d["lock_time"] = tx.lock_time = v
    elif e == "sequence":
        d["ins"][k]["sequence"] = tx.txs_in[k].sequence = v
    elif e == "prev_index":
        d["ins"][k]["index"] = tx.txs_in[k].previous_index = v
    elif e == "prev_hash":
        d["ins"][k]["prev"] = tx.txs_in[k].previous_hash = v
    elif e == "in_script":
        d["ins"][k]["script"] = tx.txs_in[k].script = v
    elif e == "witness":
        d["ins"][k]["witness"] = list(v)
        tx.txs_in[k].witness = list(v)
    elif e == "out_value":
        d["outs"][j]["value"] = tx.txs_out[j].coin_value = v
    elif e == "out_script":
        d["outs"][j]["script"] = tx.txs_out[j].script = v
    elif e == "add_out":
        d["outs"].append({"value": v, "script": b"\x51"})
        tx.txs_out.append(T.TxOut(v, b"\x51"))
    elif e == "pop_out":
        d["outs"].pop()
        tx.txs_out.pop()
    else:
        raise ValueError(e)


PRODUCERS = ["constructor", "from_bin", "from_hex", "parse", "from_bin(with unspents)"]


def _produce(T, d, producer):
    """the object for `d` as made by one of the ways the library makes transaction objects"""
    if producer == "constructor":
        return G.to_pycoin(T, d)
    full = R.serialize(d)
    if producer == "from_bin":
        return T.from_bin(full)
    if producer == "from_hex":
        return T.from_hex(full.hex())
    if producer == "parse":
        return T.parse(io.BytesIO(full))
    return T.from_bin(full + b"".join(R.ser_out({"value": 5 + k, "script": b"\x51"}) for k in range(len(d["ins"]))))


def _live_edit_history(net, T, d, rec, rng, edits=None, producer="constructor"):
    """one Tx object queried, edited in place, queried again: ids and bytes must always be those of the CURRENT fields.
    edits=None draws 2..6 random edits; a list replays exactly those."""
    H = _H(net)
    d = G.norm(d)
    if len(R.serialize(d)) > 4000 or not d["ins"]:
        return
    tx0 = G.pack(G.norm(d))
    st, tx = observe(_produce, T, d, producer)
    if st != "ok":
        return          # a parser that refuses reference-made bytes is reported by _check_tx
    rec.ev("producer:" + producer)
    done = []

    def judge():
        rec.ev("Tx.id(after in-place edit)")
        want_id = H(R.serialize(d, False))[::-1].hex()
        want_w = H(R.serialize(d))[::-1].hex()
        want_bin = R.serialize(d)
        st1, a = observe(tx.id)
        st2, w = observe(tx.w_id)
        st3, b = observe(tx.as_bin)
        st4, h = observe(tx.hash)
        hist = [e[0] for e in done]
        case = {"kind": "edit_history", "net": net, "tx0": tx0, "edits": [list(e) for e in done], "history": hist, "producer": producer}
        rec.case(("edit", net, tuple(hist), want_id))
        if st3 != "ok" or b != want_bin:
            rec.violation("tx.history.bytes_stale", case, b if st3 != "ok" else b[:60], want_bin[:60])
        elif st1 != "ok" or a != want_id or st4 != "ok" or bytes(h) != H(R.serialize(d, False)):
            rec.violation("tx.history.id_stale_after." + (hist[-1] if hist else "build"), case, a, want_id)
        elif st2 != "ok" or w != want_w:
            rec.violation("tx.history.w_id_stale_after." + (hist[-1] if hist else "build"), case, w, want_w)
    judge()
    if edits is None:
        for _ in range(rng.randrange(2, 7)):
            edit = _draw_edit(d, rng)
            if edit is None:
                continue
            _apply_edit(T, tx, d, edit)
            done.append(edit)
            judge()
    else:
        for edit in edits:
            _apply_edit(T, tx, d, edit)
            done.append(edit)
            judge()


def _inplace_container_history(net, T, rec, rng, item=None):
    """objects built through the plain constructors, then a container attribute of ONE of them is filled in place
    (tx_in.witness.append, txs_out.append): every other live or later-parsed object must be unaffected"""
    H = _H(net)
    h = [bytes(rng.randrange(1, 256) for _ in range(32)) for _ in range(4)]
    drawn = bytes(rng.randrange(256) for _ in range(rng.choice([1, 33, 72])))
    item = drawn if item is None else item
    da = {"version": 1, "lock_time": 0, "ins": [{"prev": h[0], "index": 0, "script": b"\x51", "sequence": 0xffffffff, "witness": []},
                                                {"prev": h[1], "index": 1, "script": b"", "sequence": 5, "witness": []}],
          "outs": [{"value": 5, "script": b"\x51"}]}
    db = {"version": 2, "lock_time": 7, "ins": [{"prev": h[2], "index": 0, "script": b"\x52", "sequence": 0xfffffffe, "witness": []}],
          "outs": [{"value": 6, "script": b"\x52"}]}
    a = T(1, [T.TxIn(h[0], 0, b"\x51"), T.TxIn(h[1], 1, b"", 5)], [T.TxOut(5, b"\x51")])
    b = T(2, [T.TxIn(h[2], 0, b"\x52", 0xfffffffe)], [T.TxOut(6, b"\x52")], 7)
    legacy = R.serialize(db)
    rec.ev("inplace_container_history")
    rec.case(("inplace", net, item))
    case = {"kind": "inplace_container", "net": net, "item": item}
    st, _ = observe(lambda: a.txs_in[0].witness.append(item))
    if st != "ok":
        return          # witness not an appendable container: nothing to observe
    da["ins"][0]["witness"] = [item]
    for label, obj, want in (("edited", a, da), ("other_live_object", b, db)):
        st, got = observe(obj.as_bin)
        if st != "ok" or got != R.serialize(want):
            rec.violation("tx.inplace_witness_append.%s_bytes_wrong" % label, case, got if st != "ok" else got[:80], R.serialize(want)[:80])
            return
        st, w = observe(obj.w_id)
        if st != "ok" or w != H(R.serialize(want))[::-1].hex():
            rec.violation("tx.inplace_witness_append.%s_w_id_wrong" % label, case, w, H(R.serialize(want))[::-1].hex())
            return
    st, c = observe(T.from_bin, legacy)
    if st != "ok" or c.as_bin() != legacy or c.w_id() != c.id():
        rec.violation("tx.inplace_witness_append.later_parsed_legacy_tx_wrong", case, None if st != "ok" else c.as_bin()[:80], legacy[:80])
        return
    fresh = T.TxIn(h[3], 0)
    if list(fresh.witness) != []:
        rec.violation("tx.inplace_witness_append.new_txin_not_witness_free", case, list(fresh.witness), [])


def _rand_unspents(d, rng):
    out = []
    for _ in d["ins"]:
        v = rng.choice([1, 1, 2, (1 << 63) - 1, 1 << 63, (1 << 64) - 1, rng.randrange(1, 21 * 10 ** 14), rng.getrandbits(64) or 1])
        out.append({"value": v, "script": G.rbytes(rng, rng.choice([0, 1, 25, 25, 34, 0xfc, 0xfd, rng.randrange(0, 60)]))})
    return out


# ---------------------------------------------------------------------------------------------
# refused calls between judged calls (error-path state)
#
# A transaction object that holds a value which does not fit its wire field (amount 2^64, sequence 2^32, a str where bytes
# belong, ...) cannot be serialised and the library refuses it - that is not judged. What is judged is every answer AFTER
# the refusal: of the same object once the caller has put a valid value back, of other live objects of the same class and
# of another network's class, and of freshly parsed bytes. All of them are ordinary transactions of the statement's domain.

# fault name -> values that do not fit the field (None / float / str scalars, one past either end of the integer range)
_BAD_U32 = [1 << 32, -1, None, 0.5, (1 << 32) + 7, "7"]
_BAD_U64 = [1 << 64, -1, None, 1.5, (1 << 64) + 5, "7"]
_BAD_BYTES = ["abc", None, 7]
FAULTS = {
    "out_value": _BAD_U64, "sequence": _BAD_U32, "prev_index": _BAD_U32, "lock_time": _BAD_U32, "version": _BAD_U32,
    "witness_item": ["ab", None, 5], "witness_stack": [None, 5], "in_script": _BAD_BYTES, "out_script": _BAD_BYTES,
    "prev_hash": [None, "h" * 32, 5], "unspent_value": _BAD_U64, "unspent_script": _BAD_BYTES, "out_object": [None, 5],
    "in_object": [None],
    # refusals that are calls of their own (nothing is planted in the object)
    "set_unspents_wrong_count": [1, -1], "set_witness_bad_index": [3, 100], "unspents_from_unknown_db": ["empty", "wrong_tx"],
    "parse_truncated": ["from_bin", "parse", "from_hex"], "parse_bad_text": ["odd", "nonhex", "empty", "bad_flag", "str_for_bytes"],
}
FAULT_NAMES = sorted(FAULTS)
# calls that serialise (the refusal happens inside them)
PROVOKE = ["as_bin", "as_hex", "w_id", "w_hash", "as_bin", "as_hex", "w_id", "check", "hash", "id", "blanked_hash", "stream",
           "as_bin_unspents", "as_hex_unspents", "as_bin_nowitness", "repr"]
JUDGED = ["as_bin", "as_hex", "w_id", "w_hash", "id", "hash", "as_bin_nowitness", "as_bin_unspents", "as_hex_unspents", "stream"]


def _call(tx, name):
    if name == "as_bin_unspents":
        return tx.as_bin(include_unspents=True)
    if name == "as_hex_unspents":
        return tx.as_hex(include_unspents=True)
    if name == "as_bin_nowitness":
        return tx.as_bin(include_witness_data=False)
    if name == "stream":
        f = io.BytesIO()
        tx.stream(f)
        return f.getvalue()
    if name == "repr":
        return repr(tx)
    return getattr(tx, name)()


def _plant(T, tx, step):
    """put the unfit value of `step` into the live object; returns the undo closure, or None when the step does not apply"""
    name, k, j, bad = step["fault"], step["k"], step["j"], step["bad"]
    if name in ("out_value", "out_script", "out_object") and not tx.txs_out:
        return None
    k %= len(tx.txs_in)
    j %= max(1, len(tx.txs_out))
    if name == "out_value":
        o, old = tx.txs_out[j], tx.txs_out[j].coin_value
        o.coin_value = bad
        return lambda: setattr(o, "coin_value", old)
    if name == "out_script":
        o, old = tx.txs_out[j], tx.txs_out[j].script
        o.script = bad
        return lambda: setattr(o, "script", old)
    if name == "out_object":
        old = tx.txs_out[j]
        tx.txs_out[j] = bad
        return lambda: tx.txs_out.__setitem__(j, old)
    if name == "in_object":
        old = tx.txs_in[k]
        tx.txs_in[k] = bad
        return lambda: tx.txs_in.__setitem__(k, old)
    if name in ("sequence", "prev_index", "in_script", "prev_hash"):
        attr = {"sequence": "sequence", "prev_index": "previous_index", "in_script": "script", "prev_hash": "previous_hash"}[name]
        i, old = tx.txs_in[k], getattr(tx.txs_in[k], attr)
        setattr(i, attr, bad)
        return lambda: setattr(i, attr, old)
    if name in ("lock_time", "version"):
        old = getattr(tx, name)
        setattr(tx, name, bad)
        return lambda: setattr(tx, name, old)
    if name == "witness_item":
        i, old = tx.txs_in[k], tx.txs_in[k].witness
        items = list(old)
        items.insert(j % (len(items) + 1), bad)
        if len(items) == 1 or j % 3 == 0:       # at least one well-formed item goes out before the unfit one
            items.insert(0, b"\x01\x02")
        i.witness = tuple(items) if isinstance(old, tuple) else items
        return lambda: setattr(i, "witness", old)
    if name == "witness_stack":
        i, old = tx.txs_in[k], tx.txs_in[k].witness
        i.witness = bad
        return lambda: setattr(i, "witness", old)
    if name in ("unspent_value", "unspent_script"):
        if not tx.unspents or len(tx.unspents) != len(tx.txs_in):
            return None
        u = tx.unspents[k]
        attr = "coin_value" if name == "unspent_value" else "script"
        old = getattr(u, attr)
        setattr(u, attr, bad)
        return lambda: setattr(u, attr, old)
    raise ValueError(name)


def _refused_own_call(T, tx, full, step):
    """the refusals that are calls of their own; returns the callable"""
    name, bad = step["fault"], step["bad"]
    if name == "set_unspents_wrong_count":
        n = max(0, len(tx.txs_in) + int(bad))
        return lambda: tx.set_unspents([T.TxOut(5, b"\x51") for _ in range(n)])
    if name == "set_witness_bad_index":
        return lambda: tx.set_witness(len(tx.txs_in) + int(bad), [b"\x01"])
    if name == "unspents_from_unknown_db":      # the spent outputs are looked up by id; the last input's is not there / is another transaction
        db = {bytes(i.previous_hash): None for i in tx.txs_in[:-1]}
        if bad == "wrong_tx":
            db[bytes(tx.txs_in[-1].previous_hash)] = tx
        return lambda: tx.unspents_from_db(db)
    if name == "parse_truncated":
        cut = 5 + step["j"] % max(1, len(full) - 5)
        if bad == "from_bin":
            return lambda: T.from_bin(full[:cut])
        if bad == "parse":
            return lambda: T.parse(io.BytesIO(full[:cut]))
        return lambda: T.from_hex(full[:cut].hex())
    if name == "parse_bad_text":
        if bad == "odd":
            return lambda: T.from_hex(full.hex()[:-1])
        if bad == "nonhex":
            return lambda: T.from_hex(full.hex()[:20] + "zz" + full.hex()[22:])
        if bad == "empty":
            return lambda: T.from_bin(b"")
        if bad == "bad_flag":
            return lambda: T.from_bin(full[:4] + b"\x00\x00" + full[4:])
        return lambda: T.from_bin(full.hex())
    raise ValueError(name)


def _draw_refusal_steps(rng, n=None):
    steps = []
    for _ in range(n or rng.choice([1, 2, 2, 3])):
        name = rng.choice(FAULT_NAMES)
        provoke = rng.choice(PROVOKE)
        if name.startswith("unspent_"):
            provoke = rng.choice(["as_bin_unspents", "as_hex_unspents"])
        elif name in ("witness_item", "witness_stack") and provoke in ("hash", "id", "as_bin_nowitness"):
            provoke = rng.choice(["as_bin", "as_hex", "w_id", "w_hash"])
        steps.append({"fault": name, "k": rng.randrange(64), "j": rng.randrange(4096), "bad": rng.choice(FAULTS[name]),
                      "provoke": provoke, "order": rng.randrange(1 << 30), "again": rng.randrange(3)})
    return steps


def _refused_calls_between_judged(net, T, d, unspents, net2, T2, d2, unspents2, rec, steps):
    """`steps` refused calls, each followed by every judged call on every live object in a shuffled order"""
    import random
    d, d2 = G.norm(d), G.norm(d2)
    case = {"kind": "refused_interleave", "net": net, "tx": G.pack(d), "net2": net2, "tx2": G.pack(d2), "steps": steps,
            "unspents": [{"value": u["value"], "script": G._pack_bytes(u["script"])} for u in unspents],
            "unspents2": [{"value": u["value"], "script": G._pack_bytes(u["script"])} for u in unspents2]}

    def build(T_, d_, us, via, as_sp):
        tx = G.to_pycoin(T_, d_, via)
        if as_sp:
            tx.set_unspents([T_.Spendable(u["value"], u["script"], i["prev"], i["index"]) for u, i in zip(us, d_["ins"])])
        else:
            tx.set_unspents([T_.TxOut(u["value"], u["script"]) for u in us])
        return tx

    def expected(net_, d_, us):
        H = _H(net_)
        full, legacy = R.serialize(d_, True), R.serialize(d_, False)
        ext = full + b"".join(R.ser_out(u) for u in us)
        return {"as_bin": full, "as_hex": full, "stream": full, "as_bin_nowitness": legacy, "as_bin_unspents": ext, "as_hex_unspents": ext,
                "w_hash": H(full), "w_id": H(full)[::-1].hex(), "hash": H(legacy), "id": H(legacy)[::-1].hex()}

    k0 = steps[0]["k"] if steps else 0
    st, objs = observe(lambda: {"victim": build(T, d, unspents, ("attr", "tuple", "set_witness")[k0 % 3], k0 % 2 == 1),
                                "same_class": build(T, d2, unspents2, "attr", False),
                                "other_class": build(T2, d2, unspents2, "tuple", True)})
    if st != "ok":
        rec.violation("tx.construct.raises", case, objs, "object")
        return
    want = {"victim": expected(net, d, unspents), "same_class": expected(net, d2, unspents2), "other_class": expected(net2, d2, unspents2)}
    full = want["victim"]["as_bin"]

    def judge(step_no, order_seed, refused_in):
        calls = [(label, m) for label in ("victim", "same_class", "other_class") for m in JUDGED]
        calls += [("parsed", "as_bin"), ("parsed", "w_id"), ("parsed_other", "as_bin")]
        random.Random(order_seed).shuffle(calls)
        for n_call, (label, m) in enumerate(calls):
            rec.ev("Tx.%s(after a refused call)" % m.replace("_unspents", "(include_unspents)").replace("_nowitness", "(no witness)"))
            if label.startswith("parsed"):
                T_, w_ = (T, want["victim"]) if label == "parsed" else (T2, want["other_class"])
                stp, p = observe(T_.from_bin, w_["as_bin"])
                stc, got = observe(_call, p, m) if stp == "ok" else (stp, p)
                exp = w_[m]
            else:
                stc, got = observe(_call, objs[label], m)
                exp = want[label][m]
            if stc == "ok" and "hex" in m:
                got = _unhex(got) if isinstance(got, str) else None
            if stc == "ok" and m in ("hash", "w_hash"):
                got = bytes(got)
            if stc != "ok" or got != exp:
                mech = "tx.after_refused_call.%s_wrong" % ("id" if m in ("id", "hash") else "w_id" if m in ("w_id", "w_hash") else "bytes")
                rec.violation(mech, dict(case, failed_step=step_no, on=label, position=n_call, refused_in=refused_in),
                              got if stc != "ok" or not isinstance(got, bytes) else got[:80], exp[:80])
                return False
        return True

    rec.case(("refusal", net, net2, tuple((s["fault"], repr(s["bad"]), s["provoke"]) for s in steps), G.shape(d)))
    for step_no, step in enumerate(steps):
        name = step["fault"]
        victim = objs["victim"]
        if name in ("set_unspents_wrong_count", "set_witness_bad_index", "unspents_from_unknown_db", "parse_truncated", "parse_bad_text"):
            fn, undo, provoke = _refused_own_call(T, victim, full, step), None, name
        else:
            undo = _plant(T, victim, step)
            if undo is None:
                rec.ev("refusal.step_not_applicable")
                continue
            provoke = step["provoke"]
            fn = lambda: _call(victim, provoke)        # noqa: E731
        n_refused = 0
        for _ in range(1 + step.get("again", 0)):       # the same refused call once, twice or three times in a row
            st, r = observe(fn)
            n_refused += st != "ok"
        if undo is not None:
            undo()
        if not n_refused:
            rec.ev("refusal.call_was_not_refused")      # the library took the value: outside the statement, nothing to say
            if name in ("set_unspents_wrong_count", "set_witness_bad_index", "unspents_from_unknown_db"):
                return                                  # ... and the object is now another one than the model
            continue
        rec.ev("refused:" + name)
        rec.ev("refused_in:" + provoke)
        rec.ev("judged_after_refusal")
        if not judge(step_no, step["order"], provoke):
            return


REFUSAL_EVERY = 5


def _small_tx(rng):
    return G.rand_tx(rng, n_in=rng.choice([1, 1, 2, 3]), n_out=rng.choice([0, 1, 1, 2, 3]), max_big=0)


def _refusal_scenario(net, order, nets, d, rec, rng, steps=None):
    """one scenario around the transaction at hand (a small drawn one when it is large), a second transaction and a second class"""
    if len(d["ins"]) + len(d["outs"]) > 12 or len(R.serialize(d)) > 3000:
        d = _small_tx(rng)
    d2 = _small_tx(rng)
    others = [n for n in order if n != net] or [net]
    net2 = rng.choice(others)
    _refused_calls_between_judged(net, nets[net], d, _rand_unspents(d, rng), net2, nets[net2], d2, _rand_unspents(d2, rng), rec,
                                  steps or _draw_refusal_steps(rng))


REFUSAL_REQUIRED = ["refused:" + n for n in FAULT_NAMES] + ["refused_in:" + p for p in sorted(set(PROVOKE))] + ["judged_after_refusal"]


# ---------------------------------------------------------------------------------------------
# spendables

def _sp_diff(a, b):
    for k in G.SPENDABLE_FIELDS:
        if a[k] != b[k]:
            return k
    return None


def _sp_shape(f):
    return (G._int_class(f["coin_value"], G.AMOUNT_EDGES), G._len_class(len(f["script"])), G._int_class(f["tx_out_index"], G.U32_EDGES),
            G._len_class(f["block_index_available"]), f["does_seem_spent"], G._len_class(f["block_index_spent"]),
            f["tx_hash"] == G.NULL_HASH)


def _sp_regions(f):
    out = []
    v, n = f["coin_value"], len(f["script"])
    if v == 0:
        out.append("dom:spendable.amount=0")
    if v >= 1 << 63:
        out.append("dom:spendable.amount>=2^63")
    if v == (1 << 64) - 1:
        out.append("dom:spendable.amount=2^64-1")
    if n == 0:
        out.append("dom:spendable.script_len=0")
    if n == 0xfd:
        out.append("dom:spendable.script_len=0xfd")
    if n >= 0xffff:
        out.append("dom:spendable.script_len>=0xffff")
    hi = max(f["block_index_available"], f["block_index_spent"])
    if hi >= 0xfd:
        out.append("dom:spendable.block_index>=0xfd")
    if hi >= 0x10000:
        out.append("dom:spendable.block_index>=0x10000")
    if f["does_seem_spent"]:
        out.append("dom:spendable.seems_spent")
    if f["tx_out_index"] >= 1 << 31:
        out.append("dom:spendable.index>=2^31")
    return out


def _check_spendable(S, f, rec, obj=None, case_extra=None, cross=True):
    case = {"kind": "spendable", "fields": dict(f, script=G._pack_bytes(f["script"]))}
    if case_extra:
        case.update(case_extra)
    want = dict(f, script=bytes(f["script"]), does_seem_spent=int(f["does_seem_spent"]))
    rec.case(("sp", _sp_shape(f)), nontrivial=(f["coin_value"] in G.AMOUNT_EDGES[2:] or f["tx_out_index"] in G.U32_EDGES[3:] or
                                               len(f["script"]) in (0xfc, 0xfd, 0xfe, 0xffff, 0x10000) or
                                               f["block_index_available"] >= 0xfc or f["block_index_spent"] >= 0xfc))
    for r in _sp_regions(f):
        rec.ev(r)
    st, s = observe(G.spendable_to_pycoin, S, f) if obj is None else ("ok", obj)
    if st != "ok":
        rec.violation("spendable.construct.raises", case, s, "object")
        return
    produced = {}
    # text
    rec.ev("Spendable.as_text")
    st, text = observe(s.as_text)
    if st != "ok":
        rec.violation("spendable.text.as_text_raises", case, text, "text")
    else:
        rec.ev("Spendable.from_text")
        st, s2 = observe(S.from_text, text)
        if st != "ok":
            rec.violation("spendable.text.from_text_raises", dict(case, text=text[:300]), s2, "spendable")
        else:
            diff = _sp_diff(want, G.spendable_from_pycoin(s2))
            if diff:
                rec.violation("spendable.text.roundtrip_mismatch." + diff, dict(case, text=text[:300]), G.spendable_from_pycoin(s2)[diff], want[diff])
            else:
                produced["from_text"] = s2
    # dict, directly and through JSON
    rec.ev("Spendable.as_dict")
    st, dd = observe(s.as_dict)
    if st != "ok":
        rec.violation("spendable.dict.as_dict_raises", case, dd, "dict")
    else:
        for label, val in (("direct", dd), ("json", None)):
            if label == "json":
                st, val = observe(lambda: json.loads(json.dumps(dd)))
                if st != "ok":
                    rec.violation("spendable.dict.not_json_serialisable", case, val, "json")
                    continue
            rec.ev("Spendable.from_dict")
            st, s3 = observe(S.from_dict, val)
            if st != "ok":
                rec.violation("spendable.dict.from_dict_raises", case, s3, "spendable")
            else:
                diff = _sp_diff(want, G.spendable_from_pycoin(s3))
                if diff:
                    rec.violation("spendable.dict.roundtrip_mismatch." + diff, case, G.spendable_from_pycoin(s3)[diff], want[diff])
                else:
                    produced["from_dict"] = s3
    # binary
    rec.ev("Spendable.as_bin(as_spendable)")
    st, b = observe(s.as_bin, as_spendable=True)
    if st != "ok":
        mech = "spendable.bin.as_bin_attribute_error" if isinstance(b, AttributeError) else "spendable.bin.as_bin_raises"
        rec.violation(mech, case, b, "bytes")
    else:
        rec.ev("Spendable.from_bin")
        st, s4 = observe(S.from_bin, b)
        if st != "ok":
            rec.violation("spendable.bin.from_bin_raises", case, s4, "spendable")
        else:
            diff = _sp_diff(want, G.spendable_from_pycoin(s4))
            if diff:
                rec.violation("spendable.bin.roundtrip_mismatch." + diff, case, G.spendable_from_pycoin(s4)[diff], want[diff])
            else:
                produced["from_bin"] = s4
    # a record made by one form's parser (or from a transaction output) goes through the other forms
    if obj is None and cross:
        st, s5 = observe(S.from_tx_out, s, f["tx_hash"], f["tx_out_index"], f["block_index_available"])
        if st == "ok" and not f["does_seem_spent"] and not f["block_index_spent"]:
            produced["from_tx_out"] = s5
        for p_name, obj_p in produced.items():
            for c_name, enc, dec in (("text", lambda o: o.as_text(), S.from_text), ("dict", lambda o: o.as_dict(), S.from_dict),
                                     ("bin", lambda o: o.as_bin(as_spendable=True), S.from_bin)):
                if p_name == "from_" + c_name:
                    continue
                rec.ev("Spendable.%s->%s" % (p_name, c_name))
                st, e_ = observe(enc, obj_p)
                st2, o2 = observe(dec, e_) if st == "ok" else (st, e_)
                st3, got = observe(G.spendable_from_pycoin, o2) if st2 == "ok" else (st2, o2)
                if st3 != "ok" or _sp_diff(want, got):
                    rec.violation("spendable.cross_form.%s_then_%s" % (p_name, c_name), case, got if st3 != "ok" else _sp_diff(want, got),
                                  "fields out = fields in")
    # stream() to a file object is the same operation as as_bin
    f_ = io.BytesIO()
    rec.ev("Spendable.stream(as_spendable)")
    st, r = observe(s.stream, f_, as_spendable=True)
    if st != "ok":
        mech = "spendable.bin.as_bin_attribute_error" if isinstance(r, AttributeError) else "spendable.bin.as_bin_raises"
        rec.violation(mech, case, r, "bytes")


SP_FAULTS = {
    "coin_value": _BAD_U64, "tx_out_index": _BAD_U32, "block_index_available": [1 << 64, -1, None, "7", 0.5],
    "block_index_spent": [1 << 64, -1, None, "7"], "tx_hash": [None, "h" * 32, 5], "script": _BAD_BYTES,
    "from_text": ["", "zz/0/51/5/0/0/0", "00/x/51/5/0/0/0", "00/0/5/5/0/0/0", "00/0/51/five/0/0/0", "00/0/51/5/0/0/0/0/0"],
    "from_dict": ["missing_key", "bad_hex", "not_a_dict"], "from_bin": ["truncated", "empty", "str_for_bytes"],
}
SP_FAULT_NAMES = sorted(SP_FAULTS)
SP_PROVOKE = ["as_bin", "as_bin", "stream", "as_text", "as_dict", "as_bin_plain"]


class _AfterRefusal:
    """recorder view used for the round trips that follow a refused call: one mechanism key per form, whatever field shows it"""

    def __init__(self, rec):
        self._rec = rec

    def __getattr__(self, name):
        return getattr(self._rec, name)

    def violation(self, mech, case, *a, **kw):
        self._rec.violation("spendable.after_refused_call.%s_form_wrong" % mech.split(".")[1], case, *a, **kw)


def _spendable_refusals(S, f, S2, f2, rec, steps):
    """refused spendable calls, each followed by the round trips of the repaired record and of another class's record"""
    st, objs = observe(lambda: (G.spendable_to_pycoin(S, f), G.spendable_to_pycoin(S2, f2)))
    if st != "ok":
        return      # reported by _check_spendable on the same fields
    s, s2 = objs
    for n_step, step in enumerate(steps):
        name, bad, provoke = step["fault"], step["bad"], step["provoke"]
        undo = None
        if name == "from_text":
            text = s.as_text()
            arg = text.split("/")[0] + bad[2:] if bad.startswith("00/") else bad     # "00/" stands for the record's own (valid) id
            fn = lambda: S.from_text(arg)        # noqa: E731
        elif name == "from_dict":
            dd = s.as_dict()
            if bad == "missing_key":
                dd.pop(("coin_value", "script_hex", "tx_hash_hex", "tx_out_index")[step["k"] % 4], None)
            elif bad == "bad_hex":
                dd["script_hex" if step["k"] % 2 else "tx_hash_hex"] = "zz"
            else:
                dd = None
            fn = lambda: S.from_dict(dd)        # noqa: E731
        elif name == "from_bin":
            b = s.as_bin(as_spendable=True)
            arg = b[:step["k"] % len(b)] if bad == "truncated" else b"" if bad == "empty" else b.hex()
            fn = lambda: S.from_bin(arg)        # noqa: E731
        else:
            old = getattr(s, name)
            setattr(s, name, bad)
            undo = lambda: setattr(s, name, old)        # noqa: E731
            if provoke == "as_bin":
                fn = lambda: s.as_bin(as_spendable=True)        # noqa: E731
            elif provoke == "as_bin_plain":
                fn = s.as_bin
            elif provoke == "stream":
                fn = lambda: s.stream(io.BytesIO(), as_spendable=True)      # noqa: E731
            else:
                fn = getattr(s, provoke)
        n_refused = 0
        for _ in range(1 + step.get("again", 0)):
            st, r = observe(fn)
            n_refused += st != "ok"
        if undo is not None:
            undo()
        if not n_refused:
            rec.ev("refusal.call_was_not_refused")
            continue
        rec.ev("refused:spendable." + name)
        rec.ev("spendable_judged_after_refusal")
        extra = {"after_refused": [dict(st_) for st_ in steps[:n_step + 1]]}
        pair = [(S, f, s), (S2, f2, s2)]
        for S_, f_, o_ in (pair if step["order"] % 2 else pair[::-1]):
            before = sum(rec.viol_count.values())
            _check_spendable(S_, f_, _AfterRefusal(rec), obj=o_, case_extra=extra)
            if sum(rec.viol_count.values()) != before:
                return


def _draw_spendable_steps(rng):
    steps = []
    for _ in range(rng.choice([1, 2, 2, 3])):
        name = rng.choice(SP_FAULT_NAMES)
        steps.append({"fault": name, "bad": rng.choice(SP_FAULTS[name]), "provoke": rng.choice(SP_PROVOKE), "k": rng.randrange(4096),
                      "order": rng.randrange(1 << 30), "again": rng.randrange(3)})
    return steps


SP_REFUSAL_REQUIRED = ["refused:spendable." + n for n in SP_FAULT_NAMES] + ["spendable_judged_after_refusal"]


# ---------------------------------------------------------------------------------------------
# caller-owned mutable arguments and returned containers

def _caller_owned_arguments(net, T, d, unspents, rec):
    """bytearray / list arguments (where the class takes them today) are not modified by a call and give the same answer twice;
    what the caller does to its own buffer afterwards does not reach an object parsed from it"""
    d = G.norm(d)
    H = _H(net)
    full, legacy = R.serialize(d), R.serialize(d, False)
    e_id, e_wid = H(legacy)[::-1].hex(), H(full)[::-1].hex()
    case = {"kind": "caller_args", "net": net, "tx": G.pack(d),
            "unspents": [{"value": u["value"], "script": G._pack_bytes(u["script"])} for u in unspents]}
    rec.case(("caller_args", net, G.shape(d)))
    want = G.norm(d)
    # 1. parse from a bytearray
    rec.ev("mutable_args.from_bin(bytearray)")
    ba = bytearray(full)
    parsed = []
    for n_call in range(2):
        st, t = observe(T.from_bin, ba)
        if st != "ok":
            rec.ev("mutable_args.bytearray_not_taken")         # the statement does not promise that a bytearray is taken
            break
        if bytes(ba) != full:
            rec.violation("tx.caller_args.from_bin_modifies_bytearray", case, bytes(ba)[:80], full[:80])
            return
        diff = G.first_difference(want, G.from_pycoin(t))
        if diff:
            rec.violation("tx.caller_args.from_bin_bytearray_field_mismatch.%s.call_%d" % (diff, n_call + 1), case, diff, None)
            return
        parsed.append(t)
    if parsed:
        for k in range(len(ba)):
            ba[k] ^= 0xff
        del ba[len(ba) // 2:]
        for t in parsed:
            st, b = observe(t.as_bin)
            st2, i_ = observe(t.id)
            if st != "ok" or b != full or st2 != "ok" or i_ != e_id:
                rec.violation("tx.caller_args.parsed_object_follows_callers_buffer", case, b if st != "ok" else b[:80], full[:80])
                return
    # 2. lists handed to the constructor, set_witness and set_unspents
    rec.ev("mutable_args.lists")
    st, built = observe(lambda: ([T.TxIn(i["prev"], i["index"], i["script"], i["sequence"]) for i in d["ins"]],
                                 [T.TxOut(o["value"], o["script"]) for o in d["outs"]]))
    if st != "ok":
        rec.violation("tx.construct.raises", case, built, "object")
        return
    ins_l, outs_l = built
    snap = (list(ins_l), list(outs_l))
    us_l = [T.TxOut(u["value"], u["script"]) for u in unspents]
    us_snap = list(us_l)
    via_ctor = len(full) % 2 == 1           # the spent outputs handed to the constructor / to set_unspents
    rec.ev("mutable_args.unspents_via_" + ("constructor" if via_ctor else "set_unspents"))
    st, tx = observe(T, d["version"], ins_l, outs_l, d["lock_time"], us_l) if via_ctor else observe(T, d["version"], ins_l, outs_l, d["lock_time"])
    if st != "ok":
        rec.violation("tx.construct.raises", case, tx, "object")
        return
    stacks = [list(i["witness"]) for i in d["ins"]]
    for k, w in enumerate(stacks):
        if w:
            st, r = observe(tx.set_witness, k, w)
            if st != "ok":
                rec.violation("tx.construct.raises", case, r, "object")
                return
    st, r = ("ok", None) if via_ctor else observe(tx.set_unspents, us_l)
    ext = full + b"".join(R.ser_out(u) for u in unspents)
    for n_call in range(2):
        for name, exp in (("as_bin", full), ("as_bin_unspents", ext), ("id", e_id), ("w_id", e_wid)):
            if name == "as_bin_unspents" and st != "ok":
                continue
            st_, got = observe(_call, tx, name)
            if st_ != "ok" or got != exp:
                rec.violation("tx.caller_args.%s_wrong.call_%d" % (name, n_call + 1), case, got if st_ != "ok" else got[:80], exp[:80])
                return
        same = (len(ins_l) == len(snap[0]) and all(a is b for a, b in zip(ins_l, snap[0])) and len(outs_l) == len(snap[1]) and
                all(a is b for a, b in zip(outs_l, snap[1])) and len(us_l) == len(us_snap) and all(a is b for a, b in zip(us_l, us_snap)) and
                stacks == [list(i["witness"]) for i in d["ins"]] and
                [(u.coin_value, bytes(u.script)) for u in us_l] == [(u["value"], bytes(u["script"])) for u in unspents])
        if not same:
            rec.violation("tx.caller_args.callers_list_modified", case, None, "lists as handed in")
            return
    # 3. bytearray fields (outpoint hash, input script, witness items); TxOut insists on bytes already
    rec.ev("mutable_args.bytearray_fields")

    def build_ba():
        keep = []
        txs_in = []
        for i in d["ins"]:
            prev, script, wit = bytearray(i["prev"]), bytearray(i["script"]), [bytearray(w) for w in i["witness"]]
            t_in = T.TxIn(prev, i["index"], script, i["sequence"])
            t_in.witness = wit
            keep.append((prev, script, wit))
            txs_in.append(t_in)
        return keep, T(d["version"], txs_in, [T.TxOut(o["value"], o["script"]) for o in d["outs"]], d["lock_time"])
    st, r = observe(build_ba)
    if st != "ok":
        rec.ev("mutable_args.bytearray_not_taken")
        return
    keep, tx = r
    for n_call in range(2):
        got = [observe(_call, tx, name) for name in ("as_bin", "id", "w_id")]
        if any(g[0] != "ok" for g in got):
            rec.ev("mutable_args.bytearray_not_taken")
            return
        if [g[1] for g in got] != [full, e_id, e_wid]:
            rec.violation("tx.caller_args.bytearray_fields_wrong_answer.call_%d" % (n_call + 1), case, got[0][1][:80], full[:80])
            return
        if [(bytes(a), bytes(b), [bytes(x) for x in c]) for a, b, c in keep] != [(i["prev"], i["script"], i["witness"]) for i in want["ins"]]:
            rec.violation("tx.caller_args.bytearray_fields_modified", case, None, "fields as handed in")
            return


def _returned_containers(S, f, rec):
    """Spendable.from_dict leaves the caller's dict alone; a dict returned by as_dict and then edited by the caller changes nothing"""
    case = {"kind": "spendable_containers", "fields": dict(f, script=G._pack_bytes(f["script"]))}
    want = dict(f, script=bytes(f["script"]), does_seem_spent=int(f["does_seem_spent"]))
    st, s = observe(G.spendable_to_pycoin, S, f)
    if st != "ok":
        return
    rec.ev("mutable_args.spendable_dicts")
    st, first = observe(lambda: (s.as_dict(), s.as_text(), s.as_bin(as_spendable=True)))
    if st != "ok":
        return              # reported by _check_spendable
    dd, text, blob = first
    arg = dict(dd)
    for n_call in range(2):
        st, s2 = observe(S.from_dict, arg)
        if st != "ok" or _sp_diff(want, G.spendable_from_pycoin(s2)):
            rec.violation("spendable.caller_args.from_dict_wrong.call_%d" % (n_call + 1), case, s2 if st != "ok" else _sp_diff(want, G.spendable_from_pycoin(s2)), None)
            return
        if arg != dd:
            rec.violation("spendable.caller_args.from_dict_modifies_dict", case, sorted(arg), sorted(dd))
            return
    keep = dict(dd)
    for k_ in list(dd):
        dd[k_] = 0 if isinstance(dd[k_], int) else "00"
    dd.pop("coin_value", None)
    arg["coin_value"] = 0
    st, again = observe(lambda: (s.as_dict(), s.as_text(), s.as_bin(as_spendable=True)))
    if st != "ok" or again != (keep, text, blob):
        rec.violation("spendable.caller_args.edited_returned_dict_changes_answers", case, again if st != "ok" else None, "same answers")
        return
    if _sp_diff(want, G.spendable_from_pycoin(s2)):
        rec.violation("spendable.caller_args.parsed_record_follows_callers_dict", case, _sp_diff(want, G.spendable_from_pycoin(s2)), None)


MUTABLE_ARGS_REQUIRED = ["mutable_args.from_bin(bytearray)", "mutable_args.lists", "mutable_args.bytearray_fields", "mutable_args.spendable_dicts",
                         "mutable_args.unspents_via_constructor", "mutable_args.unspents_via_set_unspents"]
CROSS_FORM_REQUIRED = ["Spendable.from_%s->%s" % (p_, c_) for p_ in ("text", "dict", "bin", "tx_out") for c_ in ("text", "dict", "bin") if p_ != c_]


# ---------------------------------------------------------------------------------------------
# the N-th operation: one object, one process, more than 2^16 + 100 judged operations

LONG_RUN_OPS = {"quick": (1 << 16) + 160, "thorough": (1 << 17) + 160}


def _p32(v):
    return v.to_bytes(4, "little")


def _long_run(nets, rec, n_ops, salt=0, stop_after=None):
    """ONE transaction object (BTC class) and ONE spendable record are edited and queried n_ops times; every answer is compared with a
    reference assembled from cached pieces (only the piece an edit touches is rebuilt). The bytes are also parsed each time, so the
    parser and every freshly made object see as many uses. The piecewise reference is itself compared with refs/txser every 1024 ops."""
    T, L = nets["BTC"], nets["LTC"]
    H = R.dsha
    h = [bytes([k + 1]) * 32 for k in range(3)]
    d = {"version": 2, "lock_time": 0,
         "ins": [{"prev": h[0], "index": 0, "script": b"", "sequence": 0xffffffff, "witness": [b"", b"\x30" * 71, b"\x02" * 33]},
                 {"prev": h[1], "index": 7, "script": b"\x51\x52", "sequence": 0xfffffffe, "witness": []}],
         "outs": [{"value": 0, "script": b"\x00\x14" + b"\x11" * 20}, {"value": 5000, "script": b"\x76\xa9\x14" + b"\x22" * 20 + b"\x88\xac"}]}
    us = [{"value": 1 << 63, "script": b"\x00\x14" + b"\x33" * 20}, {"value": 9, "script": b"\x51"}]
    tx = G.to_pycoin(T, d, "attr")
    tx.set_unspents([T.TxOut(u["value"], u["script"]) for u in us])
    spf = {"coin_value": 5000, "script": b"\x76\xa9", "tx_hash": h[2], "tx_out_index": 0, "block_index_available": 3,
           "does_seem_spent": 0, "block_index_spent": 0}
    sp = G.spendable_to_pycoin(T.Spendable, spf)
    # cached pieces of the wire form
    in0 = R.ser_in(d["ins"][0])
    in1_head = R.ser_in(d["ins"][1])[:-4]
    outs_head = R.csize(2) + R.ser_out(d["outs"][0])
    out1_tail = R.varstr(d["outs"][1]["script"])
    wit1 = R.csize(0)
    ext_tail = b"".join(R.ser_out(u) for u in us)

    def wit0():
        return R.csize(len(d["ins"][0]["witness"])) + b"".join(R.varstr(w) for w in d["ins"][0]["witness"])
    w0 = wit0()
    case = {"kind": "long_run", "salt": salt}
    mul = 2654435761 + 2 * salt

    def bad(what, k, got, exp):
        rec.violation("tx.long_run.%s_wrong.%s" % (what, "from_op_65535_on" if k >= 65535 else "before_op_65535"),
                      dict(case, op_index=k, edit="lock_time version out_value sequence".split()[k % 4]),
                      got[:80] if isinstance(got, (bytes, str)) else got, exp[:80] if isinstance(exp, (bytes, str)) else exp)
        return k

    for k in range(n_ops):
        r = (k * mul + salt) & 0xffffffffffffffff
        e = k % 4
        if e == 0:
            d["lock_time"] = tx.lock_time = r & 0xffffffff
        elif e == 1:
            d["version"] = tx.version = (r >> 7) & 0xffffffff
        elif e == 2:
            d["outs"][1]["value"] = tx.txs_out[1].coin_value = r if k % 3 else r >> 40
        else:
            d["ins"][1]["sequence"] = tx.txs_in[1].sequence = (r >> 13) & 0xffffffff
        if k % 16 == 5:
            item = r.to_bytes(8, "little")[:k % 9]
            d["ins"][0]["witness"][k % 3] = item
            tx.txs_in[0].witness[k % 3] = item
            w0 = wit0()
        body = R.csize(2) + in0 + in1_head + _p32(d["ins"][1]["sequence"]) + outs_head + d["outs"][1]["value"].to_bytes(8, "little") + out1_tail
        ver, lock = _p32(d["version"]), _p32(d["lock_time"])
        full = ver + b"\x00\x01" + body + w0 + wit1 + lock
        legacy = ver + body + lock
        e_id, e_wid = H(legacy)[::-1].hex(), H(full)[::-1].hex()
        if k % 1024 == 0:
            if full != R.serialize(d) or legacy != R.serialize(d, False):
                rec.ev("inconclusive:long_run_piecewise_reference_disagrees_with_txser")
                rec.note("long run: the piecewise reference and refs/txser disagree at op %d" % k)
                return
        rec.ev("long_run.op")
        st, b = observe(tx.as_bin)
        if st != "ok" or b != full:
            return bad("as_bin", k, b, full)
        st, i_ = observe(tx.id)
        if st != "ok" or i_ != e_id:
            return bad("id", k, i_, e_id)
        st, w_ = observe(tx.w_id)
        if st != "ok" or w_ != e_wid:
            return bad("w_id", k, w_, e_wid)
        if k % 4 == 1:
            st, hx = observe(tx.as_hex)
            if st != "ok" or not isinstance(hx, str) or _unhex(hx) != full:
                return bad("as_hex", k, hx, full.hex())
            st, bu = observe(tx.as_bin, include_unspents=True)
            if st != "ok" or bu != full + ext_tail:
                return bad("as_bin_unspents", k, bu, full + ext_tail)
        # the bytes parsed back: a fresh object every time, the parser used as often as the serialiser
        for cls, every in ((T, 1), (L, 4)):
            if k % every:
                continue
            st, p_ = observe(cls.from_bin, full)
            if st != "ok":
                return bad("from_bin", k, p_, "transaction")
            st, got = observe(lambda: (p_.version, p_.lock_time, p_.txs_out[1].coin_value, p_.txs_in[1].sequence, len(p_.txs_in), len(p_.txs_out),
                                       [bytes(x) for x in p_.txs_in[0].witness], len(p_.txs_in[1].witness)))
            exp = (d["version"], d["lock_time"], d["outs"][1]["value"], d["ins"][1]["sequence"], 2, 2, d["ins"][0]["witness"], 0)
            if st != "ok" or got != exp:
                return bad("from_bin_fields", k, got, exp)
            st, b2 = observe(p_.as_bin)
            if st != "ok" or b2 != full:
                return bad("reserialise", k, b2, full)
            st, i2 = observe(p_.id)
            st2, w2 = observe(p_.w_id)
            if st != "ok" or st2 != "ok" or i2 != e_id or w2 != e_wid:
                return bad("parsed_ids", k, [i2, w2], [e_id, e_wid])
        # the spendable record
        spf["tx_out_index"] = sp.tx_out_index = r & 0xffffffff
        spf["coin_value"] = sp.coin_value = (r * 3) & 0xffffffffffffffff
        spf["block_index_available"] = sp.block_index_available = k
        want = dict(spf, script=bytes(spf["script"]))
        for form, out_f, in_f in (("bin", lambda: sp.as_bin(as_spendable=True), T.Spendable.from_bin), ("text", sp.as_text, T.Spendable.from_text),
                                  ("dict", sp.as_dict, T.Spendable.from_dict))[:3 if k % 4 == 0 else 1]:
            st, enc = observe(out_f)
            st2, s2 = observe(in_f, enc) if st == "ok" else (st, enc)
            st3, got = observe(G.spendable_from_pycoin, s2) if st2 == "ok" else (st2, s2)
            if st3 != "ok" or _sp_diff(want, got):
                return bad("spendable_%s_roundtrip" % form, k, got if st3 != "ok" else _sp_diff(want, got), "fields out = fields in")
        if stop_after is not None and k >= stop_after:
            break
    rec.case(("long_run", n_ops, salt))
    if k + 1 >= (1 << 16) + 100:
        rec.ev("long_run.more_than_2^16+100_ops_on_one_object")
    return None


def _huge_count_sweep():
    yield "n_in=0x10000", G.simple_tx(n_in=0x10000)
    yield "n_out=0x10000", G.simple_tx(n_out=0x10000)
    yield "n_witness_items=0x10000", G.simple_tx(witness=[b""] * 0xffff + [b"\x01"])
    t = G.simple_tx(witness=[b"\x07" * 0x10001])
    yield "witness_item_len=0x10001", t


def _pair_dimensions():
    """(dimension, label, edit) triples; the edits compose in this order on G.simple_tx() (counts first, then single fields)"""
    def n_in(n):
        def f(t):
            t["ins"] = G.simple_tx(n_in=n)["ins"]
        return f

    def n_out(n):
        def f(t):
            t["outs"] = G.simple_tx(n_out=n, value=3)["outs"]
        return f

    def in_field(k, name, v):
        def f(t):
            t["ins"][k][name] = v
        return f

    def out_field(name, v):
        def f(t):
            if t["outs"]:
                t["outs"][-1][name] = v
        return f

    def wit(k, items, append=False):
        def f(t):
            t["ins"][k]["witness"] = (t["ins"][k]["witness"] if append else []) + list(items)
        return f

    def top(name, v):
        def f(t):
            t[name] = v
        return f
    dims = []
    dims += [("n_in", "n_in=%#x" % n, n_in(n)) for n in (2, 0xfc, 0xfd)]
    dims += [("n_out", "n_out=%#x" % n, n_out(n)) for n in (0, 0xfc, 0xfd)]
    dims += [("in_script_len", "in_script_len=%#x" % n, in_field(-1, "script", b"\x51" * n)) for n in (0xfc, 0xfd, 0xffff, 0x10000)]
    dims += [("out_script_len", "out_script_len=%#x" % n, out_field("script", b"\x52" * n)) for n in (0xfc, 0xfd, 0xffff, 0x10000)]
    dims += [("witness_items", "witness_items=%#x" % n, wit(0, [bytes([k & 1]) * (k % 2) for k in range(n)])) for n in (0xfc, 0xfd)]
    dims += [("witness_where", "witness_on_last_input_only", wit(-1, [b"\x01"])), ("witness_where", "witness_of_empty_items_only", wit(0, [b"", b""]))]
    dims += [("witness_item_len", "witness_item_len=%#x" % n, wit(0, [b"\x07" * n], append=True)) for n in (0, 0xfc, 0xfd, 0xffff, 0x10000)]
    dims += [("amount", "amount=%d" % v, out_field("value", v)) for v in (0, 1 << 63, (1 << 64) - 1)]
    dims += [("version", "version=%#x" % v, top("version", v)) for v in (0, 0x80000000, 0xffffffff)]
    dims += [("lock_time", "lock_time=%#x" % v, top("lock_time", v)) for v in (0x80000000, 0xffffffff)]
    dims += [("sequence", "sequence=%#x" % v, in_field(-1, "sequence", v)) for v in (0, 0x80000000)]
    dims += [("outpoint", "null_outpoint_first", lambda t: t["ins"][0].update(prev=G.NULL_HASH, index=G.NULL_INDEX)),
             ("outpoint", "null_outpoint_last", lambda t: t["ins"][-1].update(prev=G.NULL_HASH, index=G.NULL_INDEX)),
             ("outpoint", "index=0xffffffff", in_field(0, "index", 0xffffffff))]
    return dims


def _pair_sweep():
    """every two boundary conditions of different kinds in ONE transaction"""
    dims = _pair_dimensions()
    for a in range(len(dims)):
        for b in range(a + 1, len(dims)):
            if dims[a][0] == dims[b][0]:
                continue
            t = G.simple_tx()
            dims[a][2](t)
            dims[b][2](t)
            yield dims[a][1] + "," + dims[b][1], t


def _check_counts(net, T, d, rec, build):
    """the 65535 / 65537-element cases, at a cost that fits: serialiser once and id (build=True), parser once and its bytes back"""
    case = {"kind": "tx", "net": net, "tx": G.pack(d), "via": "attr"}
    full = R.serialize(d, True)
    rec.case((net, G.shape(d)), nontrivial=True)
    for r in _regions(d):
        rec.ev(r)
    if build:
        st, tx = observe(G.to_pycoin, T, d, "attr")
        if st != "ok":
            rec.violation("tx.construct.raises", case, tx, "object")
            return
        rec.ev("Tx.as_bin")
        st, b = observe(tx.as_bin)
        if st != "ok":
            rec.violation("tx.as_bin.raises", case, b, "bytes")
        elif b != full:
            rec.violation("tx.as_bin.length_mismatch" if len(b) != len(full) else "tx.as_bin.bytes_mismatch", case, b[:80], full[:80],
                          detail={"len_observed": len(b), "len_expected": len(full)})
        rec.ev("Tx.id")
        e_id = _H(net)(R.serialize(d, False))[::-1].hex()
        st, i_ = observe(tx.id)
        if st != "ok" or i_ != e_id:
            rec.violation("tx.id.mismatch", dict(case, on="built"), i_, e_id)
    rec.ev("Tx.from_bin")
    st, t2 = observe(T.from_bin, full)
    if st != "ok":
        rec.violation("tx.from_bin.raises", case, t2, "transaction")
        return
    diff = G.first_difference(G.norm(d), G.from_pycoin(t2))
    if diff:
        rec.violation("tx.from_bin.field_mismatch.%s" % diff, case, diff, "fields equal to the serialised transaction")
        return
    rec.ev("Tx.reserialise")
    st, b2 = observe(t2.as_bin)
    if st != "ok" or b2 != full:
        rec.violation("tx.reserialise.mismatch", case, b2 if st != "ok" else b2[:80], full[:80])


def _huge_count_neighbours():
    """one below and one above the 0xffff/0x10000 step of every count, and one above it for every length"""
    for n in (0xffff, 0x10001):
        yield "n_in=%#x" % n, G.simple_tx(n_in=n)
        yield "n_out=%#x" % n, G.simple_tx(n_out=n)
    for n in (0xfffe, 0xffff, 0x10001):
        yield "n_witness_items=%#x" % n, G.simple_tx(witness=[b""] * (n - 1) + [b"\x01"])
    yield "in_script_len=0x10001", G.simple_tx(script_len=0x10001)
    yield "out_script_len=0x10001", G.simple_tx(out_script_len=0x10001)
    t = G.simple_tx(n_in=2, witness=[b"\x07" * 0xffff])
    t["ins"][1]["witness"] = [b"", b"\x08" * 0x10001]
    yield "witness_item_len=0xffff+0x10001", t


def _spendable_sweep():
    base = {"coin_value": 5000, "script": b"\x76\xa9", "tx_hash": bytes(range(32)), "tx_out_index": 3,
            "block_index_available": 0, "does_seem_spent": 0, "block_index_spent": 0}
    yield base
    for v in G.AMOUNT_EDGES + [0xffffffff, 0x100000000]:
        yield dict(base, coin_value=v)
    for v in G.U32_EDGES:
        yield dict(base, tx_out_index=v)
    for v in (1, 2, 0xfc, 0xfd, 0xfe, 0xffff, 0x10000, 0xffffffff, 0x100000000):
        yield dict(base, block_index_available=v)
        yield dict(base, block_index_spent=v)
        yield dict(base, block_index_available=v, block_index_spent=v + 1, does_seem_spent=1)
    for L in G.LEN_EDGES:
        yield dict(base, script=b"\x6a" * L)
    yield dict(base, does_seem_spent=1)
    yield dict(base, tx_hash=G.NULL_HASH)
    yield dict(base, tx_hash=b"\xff" * 32, does_seem_spent=1, block_index_available=7, block_index_spent=9)


# ---------------------------------------------------------------------------------------------

def run_shard(spec, rec):
    nets = _nets(rec)
    rng = shard_rng(spec["seed"], PROPERTY, spec["tier"], spec["shard"])
    if spec["kind"] == "long_run":
        pass
    elif spec["kind"] == "spendables":
        rec.require("Spendable.as_text", "Spendable.from_text", "Spendable.as_dict", "Spendable.from_dict", "Spendable.from_bin",
                    "Spendable.as_bin(as_spendable)")
    else:
        rec.require("Tx.as_bin", "Tx.as_hex", "Tx.from_bin", "Tx.from_hex", "Tx.parse", "Tx.reserialise", "Tx.id", "Tx.w_id", "Tx.hash",
                    "witness_variation", "Tx.as_bin(include_unspents)", "Tx.as_hex(include_unspents)", "Tx.from_bin(with unspents)",
                    "Tx.from_hex(with unspents)", "Tx.reserialise(with unspents)", "Tx.as_bin/id/w_id(object carrying unspents)")
    order = [n for n in ROTATION if n in nets]
    if spec["kind"] == "sweep":
        for n_label, (label, d) in enumerate(G.boundary_sweep()):
            for k, net in enumerate(nets):
                via = ("attr", "set_witness", "tuple")[k % 3]
                _check_tx(net, nets[net], d, rec, rng, via=via, unspents=_rand_unspents(d, rng) if len(d["ins"]) <= 300 else None,
                          light=len(d["ins"]) + len(d["outs"]) > 100 and net not in ("BTC", "LTC"),
                          unspents_as=("txout", "spendable")[(n_label + k) % 2])
        # count fields across 0xffff/0x10000 (the two parser implementations: Bitcoin base class and Litecoin)
        for label, d in _huge_count_sweep():
            for net in ("BTC", "LTC"):
                _check_tx(net, nets[net], d, rec, rng, via="attr", light=True)
        for label, d in _huge_count_neighbours():
            for net in ("BTC", "LTC"):
                _check_counts(net, nets[net], d, rec, build=(net == "BTC"))
                rec.ev("dom:count_or_length_next_to_0x10000")
        rec.sample({"class": "BTC", "sweep_label": "in_script_len=0xfd", "txid": R.txid_hex(G.simple_tx(script_len=0xfd))})
        S = nets["BTC"].Spendable
        for f in _spendable_sweep():
            _check_spendable(S, f, rec)
        rec.require("Spendable.as_text")
        return
    if spec["kind"] == "txs":
        rng2 = shard_rng(spec["seed"], PROPERTY, spec["tier"], spec["shard"], salt="refusals")     # own stream: the main one is as before
        rec.require("judged_after_refusal", "mutable_args.from_bin(bytearray)", "mutable_args.lists", "mutable_args.bytearray_fields")
        for i in range(spec["n"]):
            net = order[i % len(order)]
            d = G.rand_tx(rng)
            if i % REFUSAL_EVERY == 2:
                _refusal_scenario(net, order, nets, d, rec, rng2)
            if i % 12 == 3:
                dc = d if len(d["ins"]) + len(d["outs"]) <= 40 and len(R.serialize(d)) <= 5000 else _small_tx(rng2)
                _caller_owned_arguments(net, nets[net], dc, _rand_unspents(dc, rng2), rec)
            via = ("attr", "attr", "set_witness", "tuple")[rng.randrange(4)]
            u = _rand_unspents(d, rng) if rng.random() < 0.4 else None
            _check_tx(net, nets[net], d, rec, rng, via=via, unspents=u, unspents_as="spendable" if i % 3 == 1 else "txout")
            if i == 0:
                rec.require("Tx.id(after in-place edit)", "inplace_container_history")
            if i % 3 == 0:
                _live_edit_history(net, nets[net], d, rec, rng, producer=PRODUCERS[(i // 3) % len(PRODUCERS)])
            if i % 50 == 7:
                _inplace_container_history(net, nets[net], rec, rng)
            if i < 40 and len(rec.samples) < 2 and len(R.serialize(d)) < 300 and R.has_witness(d):
                rec.sample({"class": net, "tx": G.pack(d), "txid": _H(net)(R.serialize(d, False))[::-1].hex(),
                            "wtxid": _H(net)(R.serialize(d))[::-1].hex(), "wire": R.serialize(d)})
        return
    if spec["kind"] == "pairs":
        rec.require("dom:two_boundary_conditions_in_one_transaction")
        names = list(nets)
        for n_label, (label, d) in enumerate(_pair_sweep()):
            if n_label % spec["of"] != spec["part"]:
                continue
            big = len(d["ins"]) + len(d["outs"]) > 100
            for k, net in enumerate((names[n_label % len(names)], ("BTC", "LTC")[n_label % 2])):
                u = _rand_unspents(d, rng) if not big or k == 0 else None
                _check_tx(net, nets[net], d, rec, rng, via=("attr", "set_witness", "tuple")[(n_label + k) % 3], unspents=u, light=big and k == 1,
                          unspents_as=("txout", "spendable")[(n_label + k) % 2])
            rec.ev("dom:two_boundary_conditions_in_one_transaction")
        return
    if spec["kind"] == "long_run":
        rec.require("long_run.more_than_2^16+100_ops_on_one_object")
        _long_run(nets, rec, LONG_RUN_OPS["thorough" if spec["tier"] == "thorough" else "quick"], salt=rng.randrange(1 << 20))
        return
    if spec["kind"] == "spendables":
        classes = [nets[n].Spendable for n in order]
        rng2 = shard_rng(spec["seed"], PROPERTY, spec["tier"], spec["shard"], salt="refusals")
        rec.require("spendable_judged_after_refusal", "mutable_args.spendable_dicts")
        for i in range(spec["n"]):
            f = G.rand_spendable(rng)
            _check_spendable(classes[i % len(classes)], f, rec)
            if i % 8 == 3:
                _returned_containers(classes[i % len(classes)], f, rec)
            if i % 4 == 1:
                _spendable_refusals(classes[i % len(classes)], f, classes[(i + 1 + rng2.randrange(len(classes) - 1 or 1)) % len(classes)],
                                    G.rand_spendable(rng2), rec, _draw_spendable_steps(rng2))
            if i == 0:
                rec.sample({"spendable": dict(f)})
        return
    raise ValueError(spec["kind"])


def replay_case(case, rec):
    nets = _nets(rec)
    rng = shard_rng(0, PROPERTY, "replay", 0)
    if case.get("kind") in ("spendable", "spendable_containers"):
        f = dict(case["fields"])
        f["script"] = G._unpack_bytes(f["script"])
        f["tx_hash"] = G._unpack_bytes(f["tx_hash"])
        for k in ("coin_value", "tx_out_index", "block_index_available", "does_seem_spent", "block_index_spent"):
            f[k] = int(f[k])
        if case.get("kind") == "spendable_containers":
            _returned_containers(nets["BTC"].Spendable, f, rec)
            return
        if case.get("after_refused"):
            _spendable_refusals(nets["BTC"].Spendable, f, nets["LTC"].Spendable, f, rec, [dict(s_) for s_ in case["after_refused"]])
            return
        _check_spendable(nets["BTC"].Spendable, f, rec)
        return
    net = case.get("net", "BTC")
    if case.get("kind") == "edit_history":
        edits = []
        for e, k, j, v in case.get("edits") or []:
            if isinstance(v, str) and not isinstance(v, bytes):
                v = G._unpack_bytes(v) if e in ("prev_hash", "in_script", "out_script") else int(v)
            elif e == "witness":
                v = [G._unpack_bytes(x) for x in (v or [])]
            edits.append([e, int(k), int(j), v])
        _live_edit_history(net, nets[net], G.unpack(case["tx0"]), rec, rng, edits=edits, producer=case.get("producer", "constructor"))
        return
    if case.get("kind") == "caller_args":
        us = [{"value": int(x["value"]), "script": G._unpack_bytes(x["script"])} for x in case.get("unspents") or []]
        _caller_owned_arguments(net, nets[net], G.unpack(case["tx"]), us, rec)
        return
    if case.get("kind") == "long_run":
        _long_run(nets, rec, int(case.get("op_index", 0)) + 8, salt=int(case.get("salt", 0)))
        return
    if case.get("kind") == "refused_interleave":
        us = [[{"value": int(x["value"]), "script": G._unpack_bytes(x["script"])} for x in case.get(k) or []] for k in ("unspents", "unspents2")]
        net2 = case.get("net2", net)
        _refused_calls_between_judged(net, nets[net], G.unpack(case["tx"]), us[0], net2, nets[net2], G.unpack(case["tx2"]), us[1], rec,
                                      [dict(s_) for s_ in case["steps"]])
        return
    if case.get("kind") == "inplace_container":
        _inplace_container_history(net, nets[net], rec, rng, item=G._unpack_bytes(case["item"]))
        return
    d = G.unpack(case["tx"])
    u = None
    if case.get("unspents"):
        u = [{"value": int(x["value"]), "script": G._unpack_bytes(x["script"])} for x in case["unspents"]]
    net = case.get("net", "BTC")
    for seed in range(4):          # the witness variation is random; try the four modes
        _check_tx(net, nets[net], d, rec, shard_rng(seed, PROPERTY, "replay", 0), via=case.get("via", "attr"), unspents=u,
                  unspents_as=case.get("unspents_as", "txout"), light=len(d["ins"]) + len(d["outs"]) > 5000)
    if case.get("tx2"):
        d2 = G.unpack(case["tx2"])
        T = nets[net]
        a, b = G.to_pycoin(T, d, "attr"), G.to_pycoin(T, d2, "attr")
        if a.id() != b.id():
            rec.violation("tx.id.depends_on_witness", case, [a.id(), b.id()], "equal ids")
        if a.w_id() == b.w_id():
            rec.violation("tx.w_id.ignores_witness", case, [a.w_id(), b.w_id()], "different witness ids")
