"""C13 — building a transaction conserves value to the satoshi; fee arithmetic; spent-output authentication; exact unit conversion."""
import decimal
import hashlib
from fractions import Fraction

from vmon.probe import shard_rng, observe
from vmon.refs import txser as R
from vmon.gen import txgen as G

PROPERTY = "C13"
PRELOAD_NETWORK_ORDERS = [["btc", "xtn", "ltc", "bch", "grs", "doge", "dash", "btg"], ["btg", "grs", "bch", "doge", "ltc", "xtn", "btc"]]
LEVEL = "exploration"
TECHNIQUE = ("integer arithmetic model of the split pool + sessions on caller-owned transactions (every output-script kind x every producer of the "
             "object, refused calls interleaved with judged retries, sessions on several networks interleaved) + one long run of > 2**16 "
             "operations on one object / in one process + caller-activity histories after a build + single-discrepancy source databases "
             "verified in several transaction states / call histories + edit -> re-query histories on one transaction object against a "
             "model of the caller's edits + exact rational conversion oracle")
RULE = ("cases: (a) create_tx / distribute_from_split_pool builds with 1..8 spendables (objects, text, dict forms), payables mixing fixed "
        "amounts and 0..6 unspecified outputs, fees 0..sum(inputs); every remainder class R mod k for k<=8 and the boundary R in {k-1,k,k+1} "
        "are enumerated, the rest is seeded random; about 40% of the create_tx builds are followed by 1-3 caller activities (edits of the "
        "caller's own spendables list / dict entries / payables list, a second build from the same spendables (also after a failed build), edits "
        "of that second transaction, distribute_from_split_pool again) after each of which the first transaction is observed again; list or tuple "
        "container, non-default lock_time/version; distinct by (k, n_in, n_out, R class, R mod k, spendable form, activities); (b) split_with_remainder "
        "exhaustively for total<=80 x count<=9 and at 21e14-scale totals; (c) validate_unspents against a database of source transactions "
        "with no discrepancy and with exactly one (amount +-1 / recorded as 0, script byte/length, outputs swapped, wrong tx under the hash, missing tx, index "
        "out of range) at every input position, with the spending transaction built by create_tx or by hand (Spendable or plain TxOut unspents), "
        "left unsigned / inputs filled with scripts and-or witness stacks / really signed (p2pkh, p2wpkh, p2pk sources), a dict or a get-only "
        "database, and verified once or in a history of 2-3 verifications on the same object (faithful and discrepant records installed in "
        "turn through set_unspents or attribute edits); (d) the four converters on every amount 0..3000, neighbourhoods of 10^k, 10^8, 21e14 and "
        "random amounts, as Decimal, int (whole BTC / whole mBTC) and decimal strings in several spellings plus the strings str() / format(,'f') give for the returned amount; (e) histories on ONE transaction object (sometimes two with "
        "the same id): made by create_tx, by hand + set_unspents, by the constructor's unspents= argument (complete, too long, too short, "
        "with a None, absent) or parsed from bytes with or without trailing records; then 1-4 rounds of [1-2 changes, readings], the changes "
        "drawn from set_unspents (right / wrong length), unspents_from_db (full database, a source missing, ignore_missing), parse_unspents, "
        "tx.unspents[i]=..., .coin_value=, .script=, append / pop / assignment of tx.unspents, txs_in pop / append with or without the record, "
        "txs_out value / append / pop / assignment, zeroing outputs + distribute_from_split_pool (feasible or not), a second object with the "
        "same inputs and outputs (from_bin + set_unspents, constructor, as_hex(include_unspents=True) -> from_hex) used in turn with the "
        "first; the readings fee / total_in / total_out / validate_unspents in random order and subset; distinct by entry and the sequence of "
        "operations; (f) sessions on ONE caller-owned transaction handed to distribute_from_split_pool: the object made by the constructor + "
        "set_unspents, the constructor's unspents= argument, from_bin + set_unspents, as_hex(include_unspents) -> from_hex, from_bin + "
        "parse_unspents, from_bin + unspents_from_db, a transaction with witness data, inputs filled in, create_tx, create_tx + sign_tx; "
        "records as Spendable or TxOut; its unspecified outputs carrying every kind of script (p2pkh, p2sh, p2pk, witness programs, "
        "multisig, address scripts, nulldata in five spellings, OP_RETURN inside, empty, non-standard, random, > 10000 bytes, the script "
        "being spent, duplicates) and 252/253/254 of them; 1-5 rounds of: a call refused for insufficient funds (remainder < 0, = 0, "
        "0 < R < k; an amount of 2**63 / 2**64), a call with a fee / recorded amount / output amount / record of the wrong type "
        "(None, str, float, list, bytes), then a retry with a lower fee or after adding an input, the caller un-specifying outputs "
        "again, appending outputs; three sessions on different networks run interleaved step by step; every fifth case is a create_tx "
        "whose caller-owned spendables and payables (tuple / list / bare entries) are compared before and after, preceded by a build "
        "the library cannot complete (unreadable entry after readable ones, amount / fee of the wrong type, insufficient funds) and "
        "followed by a second build from the very same objects with another fee; (g) ONE long run: 2**16+100 (thorough 2**17+100) "
        "distribute_from_split_pool calls on one object (every 61st refused and retried), as many create_tx calls from the same "
        "arguments in the same process, and twice as many validate_unspents calls on one object with its record right and wrong in "
        "turn, each judged by running arithmetic. Non-trivial: k>=1 or a discrepancy or amount != 0 or a history.")
ASSUMPTIONS = [
    "an output is 'unspecified' when its payable is a bare address or carries amount 0 (create_tx docstring); 'insufficient funds raise an "
    "error' is read under the statement's condition 'when some outputs are left unspecified' (k >= 1): with k = 0 the fee argument does not "
    "enter the transaction and only fee() = total_in() - total_out(), pairing and the fixed amounts are checked",
    "'raise an error' / 'never returns normally' = any exception",
    "specified outputs must carry exactly their specified amount, in payable order",
    "validate_unspents is also required to return (the fee) when every recorded amount and script equals the source's; without this the "
    "negative half would be vacuous",
    "a 'wrong tx under the hash' database entry is paired with a spendable that matches the wrong transaction, and a missing transaction "
    "with an amount discrepancy, so that in every judged case a recorded amount or script differs from the true source",
    "addresses come from network.address.for_p2pkh/for_p2sh/for_p2pkh_wit of the network under test (workload only; the output scripts are "
    "not judged here, that is C08)",
    "decimal strings are plain digit strings with at most 8 (BTC) / 5 (mBTC) fractional digits (leading zeros, a missing integer part and a "
    "bare trailing point included), and what str() / format(.., 'f') print for the amount a satoshi_to_* converter returned; 'exact' is a "
    "statement about the value: the type of a converter's result is not judged",
    "the return value of distribute_from_split_pool is not judged (the statement speaks about the transaction)",
    "a transaction handed to distribute_from_split_pool by its owner is 'built from spendables and payables' like one made by create_tx: "
    "its outputs of amount 0 are the unspecified ones whatever their script (the statement and both docstrings make no exception for "
    "data-carrier, empty or non-standard scripts), the recorded unspents are the spendables. An output stays unspecified until a call "
    "RETURNS: a call that raises produced no transaction, so a retry on the same object (lower fee, more funds) is judged against the "
    "same unspecified outputs. What the object looks like between the refusal and the retry is not judged",
    "calls with a fee, a recorded amount, an output amount or a record of the wrong type (None, str, float, list, bytes) are workload: "
    "refusing them is expected but not demanded; when the library takes one while outputs are unspecified the session ends unjudged. "
    "An amount of 2**63 / 2**64 is an int like any other to the arithmetic of the statement: insufficient funds",
    "create_tx reads the caller's spendables and payables containers and their entries (dicts, lists); it must leave them as they "
    "were (compared by value before and after a returning call), so that the same objects build the transaction of the model again",
    "records that do not fit the inputs one to one, handed to the Tx constructor or appended to the serialised form, may be refused at "
    "that point (any exception; the unchanged library takes them): there is then no object whose fee could be read. The same for "
    "as_hex(include_unspents=True) on such an object",
    "'each input stays paired with the spendable it came from' and the value clauses are statements about the returned transaction for as "
    "long as it exists: what the caller later does with containers it owns (the spendables list / tuple, dict-form entries, the payables "
    "list), with another transaction built from the same spendables, or a repeated distribute_from_split_pool must not change it. Edits of "
    "the Spendable objects themselves and of a list handed to Tx.set_unspents are not judged (those objects are shared by design)",
    "'the reported fee always equals inputs minus outputs' holds at every reading during the life of a transaction object, whatever was "
    "read before and however the caller changed the recorded unspents, the inputs or the outputs in between (public mutators, the "
    "constructor argument, in-place edits of the public lists / attributes). 'inputs' = the recorded amounts of the outputs the inputs "
    "spend, record i belonging to input i. With one record per input a reading must return that number. With more records than inputs "
    "a reading may refuse (any exception; the unchanged library does) or answer with the records paired to the inputs (by position, or by "
    "outpoint when each input finds exactly one Spendable record naming it), never with a sum that counts coins not spent. With an "
    "input that has no record (list too short, a None entry, a zero-amount entry of the serialised form) no number is the fee (every coin "
    "of the workload is worth >= 1): a reading must not return one. Histories in which the caller itself misaligns an equal number of "
    "records and inputs are not generated",
    "in a history, validate_unspents is judged on the records paired with the inputs: it must return the fee when all of them equal their "
    "sources (one record per input), must not return when one differs, and with surplus records may refuse",
    "set_unspents / unspents_from_db / parse_unspents / distribute_from_split_pool are taken to do what their docstrings say when they "
    "return; when one raises, the model is re-read from the object's public attributes (a reading after a failed call is still judged)",
    "the verification clause does not depend on the state of the spending transaction (inputs empty, filled in or signed; unspents given as "
    "Spendable or TxOut; verified before or not) nor on the database being a dict: a get(hash)-only object like pycoin.services.tx_db.TxDb "
    "is as good; input scripts / witnesses written by the check are arbitrary bytes because validate_unspents is not a signature check",
]
EXPLANATION = ("outputs, unspents, fee()/total_in()/total_out() of every built transaction are compared with a pure integer model written "
               "from the statement, straight after construction and again after each later caller activity; validate_unspents must return the fee on a faithful database and must not return on any single "
               "discrepancy; converter results are compared as exact rationals; in edit -> re-query histories every reading is compared with inputs minus "
               "outputs recomputed from a model of the caller's edits, and a disagreement is reduced to the steps it needs before it is named")
TIMEOUT = {"quick": 600, "thorough": 3 * 3600}

NETS = ["BTC", "XTN", "LTC", "BCH", "BTG"]
MAXV = 21 * 10 ** 14


def exhaustive(tier):
    return False


def configurations(tier):
    return [{"networks": NETS}]


def plan(tier, seed):
    if tier == "quick":
        return ([{"kind": "split_exhaustive"}, {"kind": "build_sweep"}] + [{"kind": "build", "n": 12000} for _ in range(5)] +
                [{"kind": "validate", "n": 1900} for _ in range(4)] + [{"kind": "history", "n": 5000} for _ in range(2)] +
                [{"kind": "convert_sweep"}] + [{"kind": "convert", "n": 90000} for _ in range(2)] +
                [{"kind": "pool", "n": 6000} for _ in range(2)] + [{"kind": "longrun"}])       # (new shards last: shard numbers seed the rngs)
    return ([{"kind": "split_exhaustive"}, {"kind": "build_sweep"}] + [{"kind": "build", "n": 600000} for _ in range(16)] +
            [{"kind": "validate", "n": 90000} for _ in range(12)] + [{"kind": "history", "n": 120000} for _ in range(8)] +
            [{"kind": "convert_sweep"}] + [{"kind": "convert", "n": 4500000} for _ in range(6)] +
            [{"kind": "pool", "n": 250000} for _ in range(8)] + [{"kind": "longrun"}])


# ---------------------------------------------------------------------------------------------
# the arithmetic model (from the statement)

def model_split(total, count):
    """count positive-or-zero shares of total differing by at most one, earlier ones larger"""
    q, r = divmod(total, count)
    return [q + 1] * r + [q] * (count - r)


def model_build(in_values, amounts, fee):
    """amounts: list of ints, 0 = unspecified. Returns ("error", None) or ("ok", [output values])."""
    k = sum(1 for a in amounts if a == 0)
    if k == 0:
        return "ok", list(amounts)
    rem = sum(in_values) - sum(amounts) - fee
    if rem < 0 or rem < k:
        return "error", None
    shares = iter(model_split(rem, k))
    return "ok", [a if a else next(shares) for a in amounts]


def selftest(rec):
    n = 0
    # brute force: the only way to split T into k parts, each within one of the others, larger ones first
    for total in range(0, 40):
        for k in range(1, 8):
            sols = []

            def rec_(prefix, left, slots):
                if slots == 0:
                    if left == 0:
                        sols.append(prefix)
                    return
                hi = prefix[-1] if prefix else left
                for v in range(min(hi, left), -1, -1):
                    rec_(prefix + [v], left - v, slots - 1)
            rec_([], total, k)
            sols = [s for s in sols if max(s) - min(s) <= 1]
            assert sols == [model_split(total, k)], (total, k, sols)
            n += 1
    assert model_build([10], [0], 0) == ("ok", [10])
    assert model_build([10], [0, 0, 0], 0) == ("ok", [4, 3, 3])
    assert model_build([10], [0, 0, 0], 7) == ("ok", [1, 1, 1])
    assert model_build([10], [0, 0, 0], 8) == ("error", None)
    assert model_build([10], [4, 0], 6) == ("error", None)
    assert model_build([10], [4, 0], 5) == ("ok", [4, 1])
    assert model_build([10], [11, 0], 0) == ("error", None)
    assert model_build([3, 4], [2, 0, 1, 0], 1) == ("ok", [2, 2, 1, 1])
    assert model_build([3, 4], [20], 5) == ("ok", [20])
    # a refused call leaves the caller's outputs unspecified: the retry is judged against the same amounts
    assert model_build([10], [4, 0, 0, 0], 4) == ("error", None) and model_build([10], [4, 0, 0, 0], 0) == ("ok", [4, 2, 2, 2])
    assert [_pool_rclass(r, 3) for r in (-1, 0, 1, 2, 3)] == ["neg", "zero", "lt_k", "lt_k", "ok"]
    marks = _pool_refusals_marked({"producer": "ctor_set", "coins": [{"coin_value": 10}], "outs": [{"amount": 4}, {"amount": 0}, {"amount": 0}],
                                   "steps": [{"op": "call", "fee": 5}, {"op": "bad", "how": "fee_none"}, {"op": "call", "fee": 4},
                                             {"op": "call", "fee": 0}, {"op": "rezero", "at": [0]}, {"op": "call", "fee": 9}]})
    assert marks == [True, True, False, False, False, True], marks
    # conversion oracle: 1 BTC = 10^8 satoshi, 1 mBTC = 10^5 satoshi (definition)
    assert Fraction(decimal.Decimal("20999999.99999999")) == Fraction(MAXV - 1, 10 ** 8)
    assert _dec_strings(123456789, 8)[0] == "1.23456789" and "1.5" in _dec_strings(150000000, 8) and "15" in _dec_strings(1500000, 5)
    assert R.selftest() == 3
    # the history reference on hand-made states: coins 0..2 worth 10, 20, 30
    coins = [{"tx_hash": bytes([i]) * 32, "tx_out_index": i, "coin_value": 10 * (i + 1), "script": b"\x51"} for i in range(3)]

    def r_(c, v=None, form="spendable"):
        return {"coin": c if form == "spendable" else None, "v": coins[c]["coin_value"] if v is None else v, "s": b"\x51"}
    ref = lambda ins, unsp: _hist_reference({"ins": ins, "outs": [], "unsp": unsp}, coins)
    assert ref([0, 1], [r_(0), r_(1)]) == ("consistent", [(30, False)])
    assert ref([0, 1], [r_(0), r_(1, 21)]) == ("consistent", [(31, True)])
    assert ref([0, 1], [r_(0, form="txout"), r_(1, form="txout")]) == ("consistent", [(30, False)])
    assert ref([0, 1], [r_(0)]) == ("unrecorded", []) and ref([0, 1], [r_(0), None]) == ("unrecorded", []) and ref([0], []) == ("unrecorded", [])
    assert ref([0, 1], [r_(0), r_(1), r_(2)]) == ("surplus", [(30, False)])            # never 60
    assert ref([0, 2], [r_(0), r_(1), r_(2)]) == ("surplus", [(40, False)])            # input 1 dropped: paired by outpoint
    assert ref([0, 2], [r_(0, form="txout"), r_(1, form="txout"), r_(2, form="txout")]) == ("surplus", [(30, True)])   # by position only
    assert ref([1, 0], [r_(0), r_(1)]) == ("unjudged", [])
    assert ref([0, 1], [r_(0), None, r_(2)]) == ("unrecorded", [])
    return {"split_uniqueness_bruteforce": n, "model_examples": 11, "history_reference_examples": 12, "session_model_examples": 2}


# ---------------------------------------------------------------------------------------------

def _networks(rec=None):
    import importlib
    nets = {}
    for n in NETS:
        try:
            nets[n] = importlib.import_module("pycoin.symbols." + n.lower()).network
        except Exception as e:
            if rec is not None:
                rec.note("config_absent: network %s not importable (%s)" % (n, type(e).__name__))
    return nets


_ADDR = {}


def _addresses(name, net):
    if name not in _ADDR:
        out = []
        for k in range(6):
            h = hashlib.sha256(b"c13 address %d" % k).digest()
            for f, arg in (("for_p2pkh", h[:20]), ("for_p2sh", h[:20]), ("for_p2pkh_wit", h[:20]), ("for_p2sh_wit", h)):
                st, a = observe(getattr(net.address, f), arg)
                if st == "ok" and isinstance(a, str) and a:
                    out.append(a)
        assert len(out) >= 6, "no usable addresses for %s" % name
        _ADDR[name] = out
    return _ADDR[name]


def _mk_spendable_fields(rng, value, k):
    return {"coin_value": value, "script": G.rbytes(rng, rng.choice([0, 1, 23, 25, 25, 34])),
            "tx_hash": G.rbytes(rng, 31) + bytes([k + 1]), "tx_out_index": rng.choice([0, 0, 1, 2, 7, 0xfffffffe, rng.getrandbits(16)]),
            "block_index_available": rng.choice([0, 0, 1, 500000]), "does_seem_spent": 0, "block_index_spent": 0}


def _as_form(S, f, form):
    s = G.spendable_to_pycoin(S, f)
    if form == "object":
        return s
    if form == "text":
        return s.as_text()
    return s.as_dict()


def _payables(addrs, amounts, rng, style=None):
    out = []
    for j, a in enumerate(amounts):
        addr = addrs[(j * 7 + (rng.randrange(len(addrs)) if rng else 0)) % len(addrs)]
        if a == 0:
            st = style or rng.choice(["bare", "bare", "zero_tuple", "zero_list"])
            out.append(addr if st == "bare" else (addr, 0) if st == "zero_tuple" else [addr, 0])
        else:
            out.append((addr, a) if (rng is None or rng.random() < 0.8) else [addr, a])
    return out


def _judge_outputs(rec, case, got, exp, amounts, in_sum, fee, prefix, suffix=""):
    """classify a disagreement between built outputs and the model by the statement clause it breaks"""
    k = amounts.count(0)
    if len(got) != len(exp):
        rec.violation(prefix + ".output_count_changed" + suffix, case, got, exp)
        return False
    if got == exp:
        return True
    unspec = [g for g, a in zip(got, amounts) if a == 0]
    if any(g != a for g, a in zip(got, amounts) if a != 0):
        mech = ".fixed_amount_changed"
    elif k and sum(got) + fee != in_sum:
        mech = ".value_not_conserved"
    elif any(u <= 0 for u in unspec):
        mech = ".nonpositive_split_output"
    elif max(unspec) - min(unspec) > 1:
        mech = ".uneven_split"
    elif any(b > a for a, b in zip(unspec, unspec[1:])):
        mech = ".remainder_not_to_earlier"
    else:
        mech = ".outputs_mismatch"
    rec.violation(prefix + mech + suffix, case, got, exp)
    return False


def _observe_built(rec, case, tx, fields, exp, amounts, in_sum, fee, suffix=""):
    """outputs, total_in/total_out/fee and input/unspent pairing of a built transaction against the model; True when all agree.
    suffix names the caller activity that preceded the observation ("" = straight after construction)."""
    k = amounts.count(0)
    st0, got = observe(lambda: [o.coin_value for o in tx.txs_out])
    if st0 != "ok":
        rec.violation("build.outputs_unreadable" + suffix, case, got, exp)
        return False
    good = _judge_outputs(rec, case, got, exp, amounts, in_sum, fee, "build", suffix)
    # fee arithmetic as reported by the transaction
    rec.ev("Tx.total_in")
    st1, ti = observe(tx.total_in)
    rec.ev("Tx.total_out")
    st2, to = observe(tx.total_out)
    rec.ev("Tx.fee")
    st3, fe = observe(tx.fee)
    if st1 != "ok" or ti != in_sum:
        rec.violation("tx.total_in.mismatch" + suffix, case, ti, in_sum)
        good = False
    if st2 != "ok" or to != sum(got):
        rec.violation("tx.total_out.mismatch" + suffix, case, to, sum(got))
        good = False
    if st3 != "ok" or fe != in_sum - sum(got):
        rec.violation("tx.fee.not_in_minus_out" + suffix, case, fe, in_sum - sum(got))
        good = False
    elif k and fe != fee:
        rec.violation("tx.fee.not_requested_fee" + suffix, case, fe, fee)
        good = False
    # pairing
    rec.ev("pairing")

    def paired():
        if len(tx.txs_in) != len(fields):
            return "input count"
        if len(tx.unspents) != len(fields):
            return "unspent count"
        for i, f in enumerate(fields):
            ti_, u = tx.txs_in[i], tx.unspents[i]
            if (bytes(ti_.previous_hash), ti_.previous_index) != (f["tx_hash"], f["tx_out_index"]) or u is None or \
                    (u.coin_value, bytes(u.script)) != (f["coin_value"], f["script"]) or \
                    (bytes(getattr(u, "tx_hash", f["tx_hash"])), getattr(u, "tx_out_index", f["tx_out_index"])) != (f["tx_hash"], f["tx_out_index"]):
                return "mismatch at %d" % i
        return None
    st4, why = observe(paired)
    if st4 != "ok" or why:
        rec.violation("build.pairing_broken" + suffix, case, "input/unspent %s" % (why if st4 == "ok" else "unreadable"),
                      "unspents[i] is the spendable of txs_in[i]")
        good = False
    return good


def _create_and_judge(name, net, rng, rec, case, spendables, fields, amounts, fee, kw=None, suffix="", payables=None):
    """create_tx on the given (caller-owned) container of spendables against the model of `fields`; returns (tx or None, payables).
    payables: the caller's own list (written for `amounts`), else a fresh one is made"""
    addrs = _addresses(name, net)
    in_values = [f["coin_value"] for f in fields]
    verdict, exp = model_build(in_values, amounts, fee)
    if payables is None:
        payables = _payables(addrs, amounts, rng)
    rec.ev("create_tx")
    st, tx = observe(lambda: net.tx_utils.create_tx(spendables, payables, fee, **(kw or {})))
    if verdict == "error":
        rec.ev("expected_error")
        if st == "ok":
            rec.violation("build.insufficient_funds_not_rejected" + suffix, case, [o.coin_value for o in tx.txs_out], "error")
        return None, payables
    rec.ev("expected_tx")
    if st != "ok":
        rec.violation("build.rejects_sufficient_funds" + suffix, case, tx, exp)
        return None, payables
    if not _observe_built(rec, case, tx, fields, exp, amounts, sum(in_values), fee, suffix):
        return None, payables           # already reported; nothing built on top of it is judged
    return tx, payables


# what the caller may do after (or between) builds with the things it owns. None of it may reach a transaction that was
# already returned: create_tx takes "a list of Spendable objects" and returns a finished transaction.
AFTERMATH = ["list_append", "list_pop", "list_reverse", "list_sort", "list_clear", "list_insert0", "list_replace", "list_del_slice",
             "entries_edit", "payables_edit", "second_build", "second_build_other", "second_tx_edit", "redistribute"]
_AFTER_GROUP = {"entries_edit": "spendable_entry_edit", "payables_edit": "payables_edit", "second_build": "second_build",
                "second_build_other": "second_build", "second_tx_edit": "second_tx_edit", "redistribute": "redistribute"}


def _second_params(cur):
    """payables / fee of a second build, a deterministic function of the caller's current spendables"""
    total = sum(f["coin_value"] for f in cur)
    k2 = 1 + (total + len(cur)) % 3
    fixed2 = [1 + total % 5] if total > 40 and len(cur) % 2 else []
    left = total - sum(fixed2)
    rem2 = [k2, k2 + 1, k2 - 1, 2 * k2 + 1, left, left // 2][(total // 7) % 6]
    fee2 = max(0, left - rem2)
    return fixed2 + [0] * k2, fee2


def _run_aftermath(name, net, rng, rec, case, tx, fields, forms, spendables, payables, amounts, fee, kw, aftermath):
    """the caller goes on using its own containers / builds again from the same spendables; after every step the transaction
    returned earlier must still be the transaction of the model"""
    S = net.tx.Spendable
    in_sum = sum(f["coin_value"] for f in fields)
    exp = model_build([f["coin_value"] for f in fields], amounts, fee)[1]
    cur, cur_forms = [dict(f) for f in fields], list(forms)       # model of the caller's container
    is_list = isinstance(spendables, list)
    fresh = [0]

    def new_entry():
        fresh[0] += 1
        f = _mk_spendable_fields(rng, [1, 546, 10 ** 8, 12345][fresh[0] % 4], 100 + fresh[0])
        form = forms[fresh[0] % len(forms)]
        return f, form, _as_form(S, f, form)

    def permute(order):
        spendables[:] = [spendables[i] for i in order]
        cur[:] = [cur[i] for i in order]
        cur_forms[:] = [cur_forms[i] for i in order]

    for act in aftermath:
        group = _AFTER_GROUP.get(act, "spendables_list_edit")
        if act.startswith("list_"):
            if not is_list:
                continue
            if act in ("list_append", "list_insert0", "list_replace"):
                f, form, e = new_entry()
                if act == "list_append":
                    spendables.append(e), cur.append(f), cur_forms.append(form)
                elif act == "list_insert0" or not cur:
                    spendables.insert(0, e), cur.insert(0, f), cur_forms.insert(0, form)
                else:
                    j = len(cur) // 2
                    spendables[j], cur[j], cur_forms[j] = e, f, form
            elif act == "list_pop" and cur:
                j = len(cur) // 2
                spendables.pop(j), cur.pop(j), cur_forms.pop(j)
            elif act == "list_reverse":
                permute(list(range(len(cur)))[::-1])
            elif act == "list_sort":
                order = sorted(range(len(cur)), key=lambda i: (cur[i]["coin_value"], i))
                permute(order if order != list(range(len(cur))) else order[::-1])
            elif act == "list_clear":
                del spendables[:], cur[:], cur_forms[:]
            elif act == "list_del_slice":
                h = len(cur) // 2
                del spendables[h:], cur[h:], cur_forms[h:]
        elif act == "entries_edit":
            for i, e in enumerate(spendables):
                if isinstance(e, dict):
                    c = cur[i] = dict(cur[i])
                    c["coin_value"] += 1 + i
                    c["tx_out_index"] = (c["tx_out_index"] + 1) % 0xffffffff
                    c["script"] = b"\x51" + c["script"]
                    e["coin_value"], e["tx_out_index"], e["script_hex"] = c["coin_value"], c["tx_out_index"], c["script"].hex()
        elif act == "payables_edit":
            for p in payables:
                if isinstance(p, list):
                    p[1] += 7
            payables.reverse()
            payables.append(payables[0])
        elif act in ("second_build", "second_build_other", "second_tx_edit"):
            if cur and len({(f["tx_hash"], f["tx_out_index"]) for f in cur}) == len(cur):
                a2, f2 = (amounts, fee) if act != "second_build_other" else _second_params(cur)
                rec.ev("second_build")
                tx2, _ = _create_and_judge(name, net, rng, rec, case, spendables, cur, list(a2), f2, kw, ".second_build_same_spendables")
                if tx2 is not None and act == "second_tx_edit":
                    def edit():
                        for o in tx2.txs_out:
                            o.coin_value += 1
                        tx2.txs_out.pop()
                        t0 = tx2.txs_in[0]
                        t0.previous_index ^= 1
                        t0.previous_hash = bytes(32)
                        t0.script = b"\x01\x02"
                        tx2.txs_in.reverse()
                        tx2.txs_in.pop()
                        tx2.unspents.reverse()
                        tx2.unspents.pop()
                    observe(edit)
        elif act == "redistribute":
            rec.ev("distribute_from_split_pool")
            observe(net.tx_utils.distribute_from_split_pool, tx, fee)
        rec.ev("aftermath." + group)
        if not _observe_built(rec, case, tx, fields, exp, amounts, in_sum, fee, ".after_" + group):
            return


def _check_build(name, net, rng, rec, in_values, amounts, fee, form="object", via="create_tx", tag=None, aftermath=(),
                 container="list", extra=None):
    """one build through create_tx (or Tx + distribute_from_split_pool) against the model, then the caller's later activity"""
    Tx = net.tx
    S = Tx.Spendable
    fields = [_mk_spendable_fields(rng, v, i) for i, v in enumerate(in_values)]
    aftermath = list(aftermath or ()) if via == "create_tx" else []
    case = {"kind": "build", "net": name, "in_values": list(in_values), "amounts": list(amounts), "fee": fee, "form": form, "via": via}
    if aftermath:
        case["aftermath"] = aftermath
    if via == "create_tx" and container != "list":
        case["container"] = container
    if via == "create_tx" and extra:
        case["extra"] = dict(extra)
    k = amounts.count(0)
    verdict, exp = model_build(in_values, amounts, fee)
    in_sum = sum(in_values)
    rem = in_sum - sum(amounts) - fee
    rclass = "neg" if rem < 0 else "lt_k" if rem < k else "eq_k" if rem == k else "k+1" if rem == k + 1 else "big"
    rec.case(("build", via, form if via == "create_tx" else "", k, len(in_values), len(amounts), rclass, rem % k if k and rem >= 0 else -1,
              fee == 0, tag, tuple(aftermath), container if via == "create_tx" else "", bool(extra)), nontrivial=k >= 1)
    rec.ev("build.remainder." + (rclass if k else "no_unspecified"))
    rec.ev("build.entry." + via)
    if via == "create_tx":
        rec.ev("build.form." + form)
        rec.ev("build.container." + container)
        if any(a == 0 for a in amounts) and any(a != 0 for a in amounts):
            rec.ev("build.payables_mixed")
    if via == "create_tx":
        forms = [form if form != "mixed" else ("object", "text", "dict")[i % 3] for i in range(len(fields))]
        entries = [_as_form(S, f, fm) for f, fm in zip(fields, forms)]
        spendables = entries if container == "list" else tuple(entries)
        tx, payables = _create_and_judge(name, net, rng, rec, case, spendables, fields, amounts, fee, extra)
        if tx is not None and aftermath:
            _run_aftermath(name, net, rng, rec, case, tx, fields, forms, spendables, payables, amounts, fee, extra, aftermath)
        elif verdict == "error" and aftermath:
            # a query after a failed call: the same container must still build the transaction of the model
            rec.ev("aftermath.failed_build")
            _create_and_judge(name, net, rng, rec, case, spendables, fields, [0], 0, extra, ".after_failed_build")
        return tx

    def build():
        t = Tx(1, [G.spendable_to_pycoin(S, f).tx_in() for f in fields], [Tx.TxOut(a, b"\x51") for a in amounts])
        t.set_unspents([G.spendable_to_pycoin(S, f) for f in fields])
        net.tx_utils.distribute_from_split_pool(t, fee)        # (its return value is not part of the statement)
        return t
    rec.ev("distribute_from_split_pool")
    st, tx = observe(build)
    if verdict == "error":
        rec.ev("expected_error")
        if st == "ok":
            rec.violation("build.insufficient_funds_not_rejected", case, [o.coin_value for o in tx.txs_out], "error")
        return
    rec.ev("expected_tx")
    if st != "ok":
        rec.violation("build.rejects_sufficient_funds", case, tx, exp)
        return
    _observe_built(rec, case, tx, fields, exp, amounts, in_sum, fee)
    return tx


def _rand_build_params(rng):
    n_in = rng.choice([1, 1, 2, 2, 3, 4, 5, 8])
    in_values = [rng.choice([1, 1, 2, 10 ** 8 - 1, 10 ** 8, 10 ** 8 + 1, MAXV, rng.randrange(1, 1000), rng.randrange(1, MAXV + 1),
                             rng.randrange(1, 10 ** 9)]) for _ in range(n_in)]
    total = sum(in_values)
    k = rng.choice([0, 1, 1, 2, 2, 3, 3, 4, 5, 6])
    n_fixed = rng.choice([0, 0, 1, 1, 2, 3]) if k else rng.choice([1, 2, 3])
    mode = rng.random()
    fixed = []
    budget = total
    for _ in range(n_fixed):
        v = rng.choice([1, 1, 546, rng.randrange(1, max(2, budget // 2 + 1)), rng.randrange(1, max(2, min(budget, 10 ** 6) + 1))])
        fixed.append(v)
        budget = max(0, budget - v)
    left = total - sum(fixed)
    # choose the remainder R deliberately, then derive the fee
    if k and left >= 0:
        r = rng.random()
        if r < 0.45:
            rem = rng.choice([k - 1, k, k + 1, 0, 1, 2 * k - 1, 2 * k, 2 * k + 1, k + rng.randrange(0, 3 * k + 1)])
        elif r < 0.55:
            rem = -rng.choice([1, 2, 1000])
        elif r < 0.75:
            rem = left - rng.choice([0, 0, 1, 1000, 10000])
        else:
            rem = rng.randrange(0, left + 1)
        fee = left - rem
        if fee < 0:
            fee = rng.choice([0, left]) if left >= 0 else 0
    else:
        fee = rng.choice([0, 0, 1, 10000, max(0, left), total, total + 1])
    amounts = fixed + [0] * k
    rng.shuffle(amounts)
    return in_values, amounts, fee


def run_build_sweep(spec, rec, nets):
    """every remainder class and boundary, every k, several input/fixed layouts, every spendable form, both entry points"""
    rng = shard_rng(spec["seed"], PROPERTY, "sweep", 0)
    names = list(nets)
    i = 0
    for k in range(1, 9):
        rems = sorted(set(list(range(0, 3 * k + 2)) + [10 ** 6 + r for r in range(k)] + [MAXV - 5000 + r for r in range(k)] + [-1, -2]))
        for rem in rems:
            for layout in range(4):
                fixed = [[], [7], [1, 5000], [3, 3, 3]][layout]
                fee = [0, 1, 10000, 12345][(layout + rem) % 4]
                need = rem + sum(fixed) + fee
                if need < 1:
                    need, fee = 1, 1 - rem - sum(fixed)        # keep at least one satoshi of input; R stays as chosen
                    if fee < 0:
                        continue
                n_in = 1 + (i % 3)
                in_values = [need - (n_in - 1)] + [1] * (n_in - 1) if need >= n_in else [need]
                if min(in_values) < 1 or sum(in_values) > 4 * MAXV:
                    continue
                amounts = list(fixed) + [0] * k
                if layout == 2:
                    amounts = [0] * (k // 2) + list(fixed) + [0] * (k - k // 2)
                elif layout == 3:
                    amounts = [0] + list(fixed) + [0] * (k - 1)
                name = names[i % len(names)]
                _check_build(name, nets[name], rng, rec, in_values, amounts, fee, form=("object", "text", "dict", "mixed")[i % 4],
                             via="create_tx" if i % 5 else "split_pool", tag="sweep",
                             aftermath=[AFTERMATH[(i // 4) % len(AFTERMATH)]] + ([AFTERMATH[(i // 56) % len(AFTERMATH)]] if i % 3 == 0 else []),
                             container="tuple" if i % 11 == 3 else "list", extra={"lock_time": 500000000 + i, "version": 2} if i % 7 == 2 else None)
                i += 1
    # k = 0: nothing to distribute
    for fee in (0, 5, 10 ** 9):
        for name in names:
            _check_build(name, nets[name], rng, rec, [1000, 2000], [1500, 100], fee, tag="sweep")
            _check_build(name, nets[name], rng, rec, [1000], [1500], fee, via="split_pool", tag="sweep")
    rec.sample({"op": "create_tx", "in_values": [10], "amounts(0=unspecified)": [0, 0, 0], "fee": 0, "expected_outputs": model_build([10], [0, 0, 0], 0)[1]})


def run_split_exhaustive(spec, rec, nets):
    net = nets["BTC"]
    rng = shard_rng(spec["seed"], PROPERTY, "split", 0)
    cases = [(t, c) for t in range(0, 81) for c in range(1, 10)]
    cases += [(MAXV - d, c) for d in range(0, 12) for c in (1, 2, 3, 5, 6, 7, 10, 100)]
    cases += [(rng.randrange(0, MAXV + 1), rng.choice([1, 2, 3, 4, 5, 6, 7, 9, 13, 50])) for _ in range(3000 if spec["tier"] == "quick" else 200000)]
    for total, count in cases:
        rec.ev("split_with_remainder")
        rec.case(("split", total if total < 100 else total % count, count, total >= 100), nontrivial=total > 0)
        st, got = observe(lambda: list(net.tx_utils.split_with_remainder(total, count)))
        exp = model_split(total, count)
        if st != "ok" or got != exp:
            case = {"kind": "split", "total": total, "count": count}
            if st == "ok" and sum(got) != total:
                mech = "split.sum_mismatch"
            elif st == "ok" and len(got) == count and sorted(got, reverse=True) == exp:
                mech = "split.remainder_not_to_earlier"
            else:
                mech = "split.mismatch"
            rec.violation(mech, case, got, exp)
    rec.sample({"op": "split_with_remainder", "total": 10, "count": 3, "expected": model_split(10, 3)})


# ---------------------------------------------------------------------------------------------
# validate_unspents

DISCREPANCIES = ["amount_plus", "amount_minus", "script_byte", "script_longer", "script_shorter", "swapped_output", "wrong_tx",
                 "missing_tx", "index_out_of_range", "index_far_out_of_range", "amount_and_script", "amount_zero"]
_GROUP = {"amount_plus": "amount", "amount_minus": "amount", "amount_zero": "amount", "script_byte": "script", "script_longer": "script",
          "script_shorter": "script", "amount_and_script": "amount_and_script", "swapped_output": "swapped_output",
          "wrong_tx": "wrong_tx_under_hash", "missing_tx": "missing_tx", "index_out_of_range": "index_out_of_range",
          "index_far_out_of_range": "index_out_of_range"}
# the setting a verification happens in. The statement quantifies over none of it: whatever was done to the spending
# transaction before (inputs filled in by signing, an earlier verification, unspents installed by hand), a differing
# amount or script must not pass and a faithful record must.
STATES = ["unsigned", "scripts", "witness", "both", "mixed", "signed"]
ENTRIES = ["create_tx", "manual_spendable", "manual_txout"]
PLAIN = {"k": 1, "entry": "create_tx", "state": "unsigned", "dress_at": 0, "db_form": "dict", "edit_via": "set_unspents", "state_seed": 0}
_KEYS = {}


def _key_material(name, net):
    """a few keys of the network with the scripts they can sign for (workload for the 'signed' state)"""
    if name not in _KEYS:
        from pycoin.encoding.hash import hash160
        wifs, scripts = [], []
        for e in (1, 2, 3, 5):
            key = net.keys.private(secret_exponent=e)
            wifs.append(key.wif())
            for f, arg in (("for_p2pkh", hash160(key.sec())), ("for_p2pkh_wit", hash160(key.sec())), ("for_p2pk", key.sec())):
                st, sc = observe(getattr(net.contract, f), arg)
                if st == "ok" and isinstance(sc, bytes) and sc:
                    scripts.append(sc)
        _KEYS[name] = {"wifs": wifs, "scripts": scripts}
    return _KEYS[name]


def _source_tx(rng, n_out, tag, key_scripts=None):
    """a well-formed source transaction with n_out outputs of value 1..MAXV (sometimes with witness data: the id must ignore it)"""
    d = G.rand_tx(rng, n_in=rng.choice([1, 1, 2]), n_out=n_out, witness=rng.choice(["none", "none", "some", "all"]), p_edge=0.1,
                  max_big=0, distinct_outpoints=True)
    for j, o in enumerate(d["outs"]):
        o["value"] = rng.choice([1, 2, 546, 10 ** 8, MAXV, rng.randrange(1, MAXV + 1), rng.randrange(1, 10 ** 7)])
        o["script"] = rng.choice(key_scripts) if key_scripts else (G.rbytes(rng, rng.choice([1, 2, 23, 25, 25, 34, 67])) or b"\x51")
    d["lock_time"] = tag            # keeps source transactions (and so their hashes) distinct
    return d


def _rand_setting(rng, kind, keyed):
    if kind == "none":
        history = rng.choice(["G", "G", "GG"])
    elif kind in ("index_out_of_range", "index_far_out_of_range"):
        history = "B"               # the spending transaction itself differs between the faithful and the discrepant side
    else:
        history = rng.choice(["B", "B", "B", "GB", "BG", "BB", "GBG", "GGB"])
    return {"k": rng.choice([0, 1, 1, 2]), "entry": rng.choice(["create_tx", "create_tx", "create_tx", "manual_spendable", "manual_txout"]),
            "state": "signed" if keyed else rng.choice(["unsigned", "unsigned", "scripts", "witness", "witness", "both", "mixed"]),
            "dress_at": rng.randrange(len(history)), "db_form": rng.choice(["dict", "dict", "getter"]),
            "edit_via": rng.choice(["set_unspents", "attr"]), "state_seed": rng.getrandbits(24), "history": history}


def _check_validate(name, net, rng, rec, n_in, kind, pos):
    keyed = rng.random() < 0.25
    ks = _key_material(name, net)["scripts"] if keyed else None
    sources = [_source_tx(rng, rng.choice([1, 2, 3, 5]), tag, ks) for tag in range(n_in)]
    hashes = [R.txid_bytes(s) for s in sources]
    picks = [rng.randrange(len(s["outs"])) for s in sources]
    if rng.random() < 0.3 and n_in >= 2 and len(sources[0]["outs"]) >= 2:       # two inputs from the same source transaction
        sources[1], hashes[1] = sources[0], hashes[0]
        picks[0], picks[1] = 0, 1
    recorded = [{"coin_value": s["outs"][p]["value"], "script": s["outs"][p]["script"], "tx_hash": h, "tx_out_index": p,
                 "block_index_available": 0, "does_seem_spent": 0, "block_index_spent": 0} for s, h, p in zip(sources, hashes, picks)]
    db_src = {h: s for h, s in zip(hashes, sources)}
    good_recorded, good_db = [dict(g) for g in recorded], dict(db_src)
    f = recorded[pos]
    src = sources[pos]
    if kind == "amount_plus":
        f["coin_value"] += rng.choice([1, 1, 1000])
    elif kind == "amount_minus":
        if f["coin_value"] < 2:
            f["coin_value"] += 1
            kind = "amount_plus"
        else:
            f["coin_value"] -= 1
    elif kind == "amount_zero":
        f["coin_value"] = 0             # (every source output is worth >= 1)
    elif kind == "script_byte":
        j = rng.randrange(len(f["script"]))
        f["script"] = f["script"][:j] + bytes([f["script"][j] ^ (1 << rng.randrange(8))]) + f["script"][j + 1:]
    elif kind == "script_longer":
        f["script"] = f["script"] + b"\x00"
    elif kind == "script_shorter":
        f["script"] = f["script"][:-1]
    elif kind == "amount_and_script":
        f["coin_value"] += 1
        f["script"] = b"\x6a" + f["script"]
    elif kind == "swapped_output":
        others = [q for q in range(len(src["outs"])) if q != f["tx_out_index"] and
                  (src["outs"][q]["value"], src["outs"][q]["script"]) != (f["coin_value"], f["script"])]
        if not others or hashes.count(hashes[pos]) > 1:
            f["coin_value"] += 1
            kind = "amount_plus"
        else:
            q = rng.choice(others)
            f["coin_value"], f["script"] = src["outs"][q]["value"], src["outs"][q]["script"]
    elif kind == "wrong_tx":
        # the database answers the hash with another transaction, and the spendable agrees with that other transaction
        w = _source_tx(rng, len(src["outs"]) + 1, 1000 + pos, ks)
        wo = w["outs"][f["tx_out_index"]]
        if (wo["value"], wo["script"]) == (f["coin_value"], f["script"]):
            wo["value"] += 1
        for g in recorded:
            if g["tx_hash"] == hashes[pos]:
                g["coin_value"], g["script"] = w["outs"][g["tx_out_index"]]["value"], w["outs"][g["tx_out_index"]]["script"]
        db_src[hashes[pos]] = w
    elif kind == "missing_tx":
        f["coin_value"] += 1
        del db_src[hashes[pos]]
    elif kind in ("index_out_of_range", "index_far_out_of_range"):
        if hashes.count(hashes[pos]) > 1:
            f["coin_value"] += 1
            kind = "amount_plus"
        else:
            f["tx_out_index"] = len(src["outs"]) + (0 if kind == "index_out_of_range" else rng.choice([1, 2, 1000, 0xfffffff0]))
    setting = _rand_setting(rng, kind, keyed)
    case = {"kind": "validate", "net": name, "discrepancy": kind, "pos": pos, "setting": setting,
            "recorded": [dict(g) for g in recorded], "db": [{"hash": h, "tx": G.pack(s)} for h, s in db_src.items()]}
    if "G" in setting["history"] and kind != "none":
        case["good_recorded"] = good_recorded
        case["good_db"] = [{"hash": h, "tx": G.pack(s)} for h, s in good_db.items()]
    sides = {"B": (recorded, db_src), "G": (good_recorded, good_db)}
    if kind == "none":
        sides["B"] = None
    else:
        rec.ev("validate_position." + ("first" if pos == 0 else "later"))
        if hashes.count(hashes[pos]) > 1:
            rec.ev("validate_position.shared_source" + ("_later_input" if pos > 0 else ""))
    _judge_validate(name, net, rec, case, sides, kind, setting)


class _Getter(object):
    """a transaction database with the interface of pycoin's own pycoin.services.tx_db.TxDb: get(hash) -> transaction or None,
    and no item access"""

    def __init__(self, d):
        self._d = d

    def get(self, key):
        return self._d.get(key)

    def __getitem__(self, key):
        raise NotImplementedError


def _dress(name, net, tx, setting, upto):
    """bring the spending transaction into a later stage of its life: inputs filled in as signing leaves them (arbitrary data:
    validate_unspents is not a signature check), or really signed with the keys of _key_material"""
    state = setting["state"]
    if state == "unsigned":
        return
    if state == "signed":
        observe(net.tx_utils.sign_tx, tx, _key_material(name, net)["wifs"])
        return
    for i in range(min(upto, len(tx.txs_in))):
        d = hashlib.sha256(b"c13 dress %d %d" % (setting["state_seed"], i)).digest()
        mode = state if state != "mixed" else ("none", "scripts", "witness", "both")[d[0] % 4]
        if mode in ("scripts", "both"):
            tx.txs_in[i].script = bytes([d[1] % 70 + 1]) + (d * 3)[:d[1] % 70 + 1]
        if mode in ("witness", "both"):
            w = [(d * 3)[:d[2] % 72 + 1], d[:1] + d] if d[3] % 5 else [b""]
            if d[4] & 1:
                tx.set_witness(i, w)
            else:
                tx.txs_in[i].witness = w


def _validate_run(name, net, sides, setting, rec=None):
    """build the spending transaction for the first step of the history, then for each step install that side's recorded
    unspents and verify against that side's database. Returns ("setup_failed", exception) or a list of
    (side, status, value, expected fee) per step."""
    Tx = net.tx
    S = Tx.Spendable
    history = setting["history"]

    def objs(recorded):
        if setting["entry"] == "manual_txout":
            return [Tx.TxOut(g["coin_value"], g["script"]) for g in recorded]
        return [G.spendable_to_pycoin(S, g) for g in recorded]
    rec0 = sides[history[0]][0]
    in_sum = sum(g["coin_value"] for g in rec0)
    k = min(in_sum, setting["k"])
    fee = min(in_sum - k, 1000)
    if setting["entry"] == "create_tx":
        amounts = [0] * k if k else [max(1, in_sum - fee)]
        st, tx = observe(net.tx_utils.create_tx, objs(rec0), _payables(_addresses(name, net), amounts, None, style="bare"), fee)
    else:
        def manual():
            values = model_split(in_sum - fee, k) if k else [max(1, in_sum - fee)]
            t = Tx(1, [Tx.TxIn(g["tx_hash"], g["tx_out_index"]) for g in rec0], [Tx.TxOut(v, b"\x51") for v in values])
            t.set_unspents(objs(rec0))
            return t
        st, tx = observe(manual)
    if st != "ok":
        return "setup_failed", tx
    out_sum = sum(o.coin_value for o in tx.txs_out)
    results = []
    for j, side in enumerate(history):
        recorded, db_src = sides[side]
        if j == setting["dress_at"]:
            st, e = observe(_dress, name, net, tx, setting, len(recorded))
            if st != "ok":
                return "setup_failed", e
            if rec is not None and setting["state"] != "unsigned":
                # was the state really reached (sign_tx may have signed nothing)?
                st, filled = observe(lambda: sum(1 for t in tx.txs_in if t.script or t.witness))
                if st == "ok" and filled:
                    rec.ev("validate_state_reached." + setting["state"])
                    if filled == len(tx.txs_in):
                        rec.ev("validate_state_reached.all_inputs")
        if j > 0:
            if setting["edit_via"] == "attr":
                for u, g in zip(tx.unspents, recorded):
                    u.coin_value, u.script = g["coin_value"], g["script"]
            else:
                tx.set_unspents(objs(recorded))
        db = {h: G.to_pycoin(Tx, s) for h, s in db_src.items()}
        if setting["db_form"] == "getter":
            db = _Getter(db)
        st, r = observe(tx.validate_unspents, db)
        results.append((side, st, r, sum(g["coin_value"] for g in recorded) - out_sum))
    return "ran", results


def _first_failure(results, kind):
    """(step, mechanism, observed, expected) of the first step that breaks the statement, or None"""
    for j, (side, st, r, exp_fee) in enumerate(results):
        if side == "G":
            if st != "ok":
                return j, "validate_unspents.rejects_matching", r, exp_fee
            if r != exp_fee:
                return j, "validate_unspents.wrong_fee", r, exp_fee
        elif st == "ok":
            return j, "validate_unspents.accepts_discrepancy." + _GROUP[kind], r, "does not return normally"
    return None


def _judge_validate(name, net, rec, case, sides, kind, setting):
    history = setting["history"]
    db0 = sides[history[0]][1]
    rec.case(("validate", kind, len(sides[history[0]][0]), case.get("pos"), tuple(len(s["outs"]) for s in db0.values())[:4],
              tuple(R.has_witness(s) for s in db0.values())[:4], setting["entry"], setting["state"], history, setting["db_form"]),
             nontrivial=True)
    rec.ev("Tx.validate_unspents")
    rec.ev("validate_unspents." + kind)
    rec.ev("validate_state." + setting["state"])
    rec.ev("validate_entry." + setting["entry"])
    rec.ev("validate_history." + ("single" if len(history) == 1 else "repeated"))
    rec.ev("validate_db." + setting["db_form"])
    if len(history) > 1:
        rec.ev("validate_edit." + setting["edit_via"])
    status, results = _validate_run(name, net, sides, setting, rec)
    if status != "ran":
        rec.violation("validate.setup_failed", case, results, "transaction")
        return
    bad = _first_failure(results, kind)
    if bad is None:
        return
    j, mech, observed, expected = bad
    # which part of the setting does the failure need? (decided by re-running, so the key names a cause, not a coincidence)
    side = history[j]

    def fails(**over):
        s2 = dict(PLAIN, k=setting["k"], history=side)
        s2.update(over)
        st2, res2 = _validate_run(name, net, sides, s2)
        b2 = _first_failure(res2, kind) if st2 == "ran" else None
        return b2 is not None and b2[1] == mech
    if not fails():
        if setting["state"] != "unsigned" and fails(state=setting["state"], state_seed=setting["state_seed"]):
            mech += ".when_inputs_filled_in" if setting["state"] != "signed" else ".when_signed"
        elif setting["entry"] != "create_tx" and fails(entry=setting["entry"]):
            mech += ".with_" + setting["entry"] + "_unspents"
        elif setting["db_form"] != "dict" and fails(db_form=setting["db_form"]):
            mech += ".with_get_only_database"
        elif j > 0 and fails(history=history[:j + 1], dress_at=0, edit_via=setting["edit_via"]):
            mech += ".after_earlier_verification"
        else:
            mech += ".in_combined_setting"
    rec.violation(mech, case, observed, expected)


def run_validate(spec, rec, nets):
    rng = shard_rng(spec["seed"], PROPERTY, spec["tier"], spec["shard"])
    names = list(nets)
    for i in range(spec["n"]):
        name = names[i % len(names)]
        n_in = rng.choice([1, 1, 2, 2, 3, 4, 6, 8])
        kind = "none" if i % 4 == 0 else DISCREPANCIES[(i // 4 * 3 + i % 4 - 1) % len(DISCREPANCIES)]
        pos = rng.randrange(n_in) if i % 3 else (i // 3) % n_in
        _check_validate(name, nets[name], rng, rec, n_in, kind, pos)
    rec.require("Tx.validate_unspents", "validate_unspents.none", *["validate_unspents." + k for k in DISCREPANCIES if k != "amount_minus"])
    rec.require("validate_history.repeated", *["validate_state." + s for s in STATES] + ["validate_entry." + e for e in ENTRIES])
    rec.require("validate_position.first", "validate_position.later", "validate_position.shared_source_later_input", "validate_db.dict",
                "validate_db.getter", "validate_edit.set_unspents", "validate_edit.attr", "validate_state_reached.all_inputs",
                *["validate_state_reached." + s for s in STATES if s != "unsigned"])


# ---------------------------------------------------------------------------------------------
# edit -> re-query histories on one transaction object
#
# "The reported fee always equals inputs minus outputs" is a statement about every moment of a transaction object's life, not
# only the moment after create_tx returned. A caller queries, changes what the transaction records about the coins it spends
# (through every public mutator, through the constructor argument, or in place), changes inputs or outputs, and queries again.
# The model below follows the caller's edits; the reference is recomputed from the model at each query.

HIST_GROUPS = ["construction", "set_unspents", "unspents_from_db", "parse_unspents", "unspents_inplace", "unspents_assign",
               "inputs_edit", "outputs_edit", "redistribute"]
_HIST_GROUP = {"set_unspents": "set_unspents", "unspents_from_db": "unspents_from_db", "parse_unspents": "parse_unspents",
               "unspent_replace": "unspents_inplace", "unspent_value": "unspents_inplace", "unspent_script": "unspents_inplace",
               "unspents_append": "unspents_inplace", "unspents_pop": "unspents_inplace", "unspents_assign": "unspents_assign",
               "input_pop": "inputs_edit", "input_append": "inputs_edit", "output_value": "outputs_edit",
               "output_append": "outputs_edit", "output_pop": "outputs_edit", "outputs_assign": "outputs_edit",
               "redistribute": "redistribute"}
HIST_ENTRIES = ["create_tx", "manual", "ctor", "from_bin"]


def _hist_coins(sources):
    """every output of every source transaction is a coin: (tx hash, index, true value, true script)"""
    coins = []
    for s in sources:
        h = R.txid_bytes(s)
        for j, o in enumerate(s["outs"]):
            coins.append({"tx_hash": h, "tx_out_index": j, "coin_value": o["value"], "script": o["script"]})
    return coins


def _hist_reference(st, coins):
    """st = {"ins": [coin index], "outs": [value], "unsp": [None | {"coin": index or None, "v": int, "s": bytes}]}.
    Returns (class, candidates). A candidate is (sum of the recorded values of the coins the inputs spend, does a paired record
    differ from its source) under one way of pairing records with inputs. class:
      "consistent"  one record per input, position by position: exactly one candidate, a query must answer with it
      "surplus"     more records than inputs: a query refuses, or answers with a candidate (records paired by position, or by
                    outpoint when every input finds exactly one record naming its outpoint) -- never with coins not spent
      "unrecorded"  an input without a record (list too short, or None): no number is the fee
      "unjudged"    records and inputs of equal number that the caller itself misaligned (not generated)"""
    ins, u = st["ins"], st["unsp"]
    n = len(ins)
    if any(c is None or c < 0 for c in ins) or len(set(ins)) != n:
        return "unjudged", []          # an outpoint the model does not know, or spent twice (records could be one shared object)

    def cand(pairs):
        return (sum(r["v"] for _, r in pairs),
                any((r["v"], r["s"]) != (coins[c]["coin_value"], coins[c]["script"]) for c, r in pairs))
    if len(u) < n:
        return "unrecorded", []
    positional_missing = any(u[i] is None for i in range(n))
    aligned = not positional_missing and all(u[i]["coin"] in (None, ins[i]) for i in range(n))
    if len(u) == n:
        if positional_missing:
            return "unrecorded", []
        return ("consistent", [cand(list(zip(ins, u)))]) if aligned else ("unjudged", [])
    cands = []
    if aligned:
        cands.append(cand(list(zip(ins, u[:n]))))
    by_coin = {}
    for r in u:
        if r is not None and r["coin"] is not None:
            by_coin.setdefault(r["coin"], []).append(r)
    if n and all(len(by_coin.get(c, ())) == 1 for c in ins):
        c2 = cand([(c, by_coin[c][0]) for c in ins])
        if c2 not in cands:
            cands.append(c2)
    if cands:
        return "surplus", cands
    return ("unrecorded" if positional_missing else "unjudged"), []


def _hist_expected_ok(st, step, coins):
    """does the documented behaviour let this mutator succeed in state st? (used by the generator only; the executor looks at
    what really happened)"""
    op = step["op"]
    if op == "set_unspents":
        return len(step["recs"]) == len(st["ins"])
    if op == "parse_unspents":
        return True
    if op == "unspents_from_db":
        return step["ignore_missing"] or step["missing"] is None or \
            all(coins[c]["tx_hash"] != coins[step["missing"]]["tx_hash"] for c in st["ins"])
    if op == "redistribute":
        outs = [0 if j in step["zero_at"] else v for j, v in enumerate(st["outs"])]
        klass, cands = _hist_reference(st, coins)
        return klass == "consistent" and model_build([cands[0][0]], outs, step["fee"])[0] == "ok"
    if op in ("unspent_value", "unspent_script"):
        return bool(st["unsp"]) and st["unsp"][step["i"] % len(st["unsp"])] is not None
    return True


def _hist_apply(st, step, coins):
    """the effect of a mutator that returned normally, on the model"""
    op = step["op"]
    u, ins, outs = st["unsp"], st["ins"], st["outs"]

    def cp(r):
        return None if r is None else {"coin": r.get("coin"), "v": r["v"], "s": r["s"]}
    if op in ("set_unspents", "unspents_assign"):
        st["unsp"] = [cp(r) for r in step["recs"]]
    elif op == "parse_unspents":
        # the stream format has no room for "no record" other than a zero amount; it carries no outpoints
        # one record is read per input
        st["unsp"] = [None if (r is None or r["v"] == 0) else {"coin": None, "v": r["v"], "s": r["s"]} for r in step["recs"]]
    elif op == "unspents_from_db":
        gone = None if step["missing"] is None else coins[step["missing"]]["tx_hash"]
        st["unsp"] = [None if coins[c]["tx_hash"] == gone else {"coin": None, "v": coins[c]["coin_value"], "s": coins[c]["script"]}
                      for c in ins]
    elif op == "unspent_replace":
        if u:
            u[step["i"] % len(u)] = cp(step["rec"])
    elif op == "unspent_value":
        if u and u[step["i"] % len(u)] is not None:
            u[step["i"] % len(u)]["v"] = step["v"]
    elif op == "unspent_script":
        if u and u[step["i"] % len(u)] is not None:
            u[step["i"] % len(u)]["s"] = step["s"]
    elif op == "unspents_append":
        u.append(cp(step["rec"]))
    elif op == "unspents_pop":
        if u:
            u.pop(step["i"] % len(u))
    elif op == "input_pop":
        if ins:
            j = step["i"] % len(ins)
            ins.pop(j)
            if step["with_unspent"] and j < len(u):
                u.pop(j)
    elif op == "input_append":
        ins.append(step["coin"])
        if step.get("rec") is not None:
            u.append(cp(step["rec"]))
    elif op == "output_value":
        if outs:
            outs[step["j"] % len(outs)] = step["v"]
    elif op == "output_append":
        outs.append(step["v"])
    elif op == "output_pop":
        if outs:
            outs.pop()
    elif op == "outputs_assign":
        st["outs"] = list(step["values"])
    elif op == "redistribute":
        z = [0 if j in step["zero_at"] else v for j, v in enumerate(outs)]
        klass, cands = _hist_reference(st, coins)
        if klass == "consistent":
            verdict, exp = model_build([cands[0][0]], z, step["fee"])
            st["outs"] = exp if verdict == "ok" else z
        else:
            st["outs"] = None           # not generated; resynchronised by the executor
    else:
        raise ValueError("unknown history step %r" % op)


def _hist_entry_unspents(entry):
    recs = entry.get("recs") or []
    if entry["via"] == "from_bin":
        # one record is read per input; if that fails the transaction has no records at all
        return [] if len(recs) < len(entry["ins"]) else [None if r is None else dict(r) for r in recs]
    return [None if r is None else dict(r) for r in recs]


def _hist_entry_irregular(entry):
    """an entry whose records do not fit the inputs one to one (too many, too few, a None / zero-amount one)"""
    recs = entry.get("recs")
    if entry["via"] not in ("ctor", "from_bin") or not recs:
        return False
    return len(recs) != len(entry["ins"]) or any(r is None for r in recs)


def _hist_twin_unspents(st0, step, coins):
    if step["via"] == "roundtrip":
        # as_hex(include_unspents=True) writes the records when every input has one, from_hex reads them back (amount and script only)
        if _hist_reference(st0, coins)[0] != "consistent":
            return []
        return [{"coin": None, "v": r["v"], "s": r["s"]} for r in st0["unsp"]]
    return [dict(r) for r in step["recs"]]


def _hist_copy(st):
    return {"ins": list(st["ins"]), "outs": list(st["outs"]), "unsp": [None if r is None else dict(r) for r in st["unsp"]]}


def _gen_history(rng, coins, n_in):
    """entry + steps of one history, generated against the model alone. Every step is written out (replayable as is)."""
    order = list(range(len(coins)))
    rng.shuffle(order)
    ins = order[:n_in]

    def spare(st):
        free = [c for c in range(len(coins)) if c not in st["ins"] and all(r is None or r["coin"] != c for r in st["unsp"])]
        return rng.choice(free) if free else rng.randrange(len(coins))

    def mk_rec(c, p_bad=0.3, form=None):
        v, s = coins[c]["coin_value"], coins[c]["script"]
        if rng.random() < p_bad:
            r = rng.random()
            if r < 0.3:
                v += rng.choice([1, 1, 1000, 10 ** 8])
            elif r < 0.55 and v > 1:
                v -= rng.choice([1, v // 2, v - 1])
            elif r < 0.75:
                v = max(1, v // 100) if v >= 100 else v + 99
            elif r < 0.9:
                s = s[:-1] + bytes([s[-1] ^ 1]) if s else b"\x51"
            else:
                v, s = v + 1, b"\x6a" + s
        form = form or rng.choice(["spendable", "spendable", "txout"])
        return {"coin": c if form == "spendable" else None, "v": v, "s": s}

    def mk_recs(cs, p_bad=0.3, form=None):
        p = rng.choice([0.0, 0.0, p_bad, p_bad, 0.8])
        form = form or rng.choice([None, None, "spendable", "txout"])
        return [mk_rec(c, p, form) for c in cs]

    via = rng.choice(["create_tx", "create_tx", "manual", "ctor", "ctor", "ctor", "from_bin"])
    entry = {"via": via, "ins": list(ins), "version": rng.choice([1, 1, 2]), "lock_time": rng.choice([0, 0, 1, 500000000])}
    if via == "create_tx":
        recs = mk_recs(ins, form="spendable")
        total = sum(r["v"] for r in recs)
        k = rng.choice([0, 1, 1, 2, 3]) if total >= 8 else 1
        fixed = [rng.randrange(1, max(2, total // 4))] if (k == 0 or rng.random() < 0.5) and total >= 8 else []
        fee = rng.choice([0, 0, 1, 1000, (total - sum(fixed)) // 3])
        fee = min(fee, total - sum(fixed) - k) if k else fee
        amounts = fixed + [0] * k
        rng.shuffle(amounts)
        entry.update(recs=recs, amounts=amounts, fee=fee, form=rng.choice(["object", "object", "dict", "text", "mixed"]))
        st = {"ins": list(ins), "unsp": [dict(r) for r in recs], "outs": model_build([r["v"] for r in recs], amounts, fee)[1]}
    else:
        true_total = sum(coins[c]["coin_value"] for c in ins)
        n_out = rng.choice([1, 1, 2, 3])
        outs = [rng.choice([1, 546, rng.randrange(1, max(2, true_total // n_out + 1)), rng.randrange(1, true_total + 2)]) for _ in range(n_out)]
        entry["outs"] = outs
        if via == "from_bin":
            # the serialised form may carry the recorded outputs after the transaction (pycoin's own extension, as_bin(include_unspents=True))
            recs = []
            if rng.random() < 0.6:
                recs = mk_recs(ins, form="txout")
                r = rng.random()
                if r < 0.15:
                    recs[rng.randrange(len(recs))] = None
                elif r < 0.3:
                    recs = recs[:-1]
        elif via == "manual":
            recs = mk_recs(ins)
        else:
            r = rng.random()
            if r < 0.4:
                recs = mk_recs(ins)
            elif r < 0.6:
                recs = mk_recs(ins) + [mk_rec(spare({"ins": ins, "unsp": []}), 0.0) for _ in range(rng.choice([1, 1, 2]))]
            elif r < 0.75:
                recs = mk_recs(ins)[:-1]
            elif r < 0.85:
                recs = None
            else:
                recs = mk_recs(ins)
                recs[rng.randrange(len(recs))] = None
        entry["recs"] = recs
        st = {"ins": list(ins), "unsp": _hist_entry_unspents(entry), "outs": list(outs)}
    states = [st]
    steps = []
    n_rounds = rng.choice([1, 2, 2, 3, 3, 4])

    def query(on):
        q = [x for x in ("fee", "total_in", "total_out") if rng.random() < 0.6] or ["fee"]
        rng.shuffle(q)
        if rng.random() < 0.4:
            q.insert(rng.randrange(len(q) + 1), "validate")
        return {"op": "query", "on": on, "q": q, "db_form": rng.choice(["dict", "dict", "getter"])}

    def mutator(on):
        st = states[on]
        n, m = len(st["ins"]), len(st["unsp"])
        pick = rng.choice(["set_unspents"] * 6 + ["set_unspents_wrong"] * 2 + ["unspents_from_db"] * 7 + ["from_db_missing"] * 3 +
                          ["parse_unspents"] * 4 + ["unspent_replace"] * 6 + ["unspent_value"] * 6 + ["unspent_script"] * 2 +
                          ["unspent_none"] + ["unspents_assign"] * 5 + ["unspents_append"] * 3 + ["unspents_pop"] * 3 +
                          ["input_pop"] * 5 + ["input_append"] * 3 + ["output_value"] * 4 + ["output_append"] * 2 +
                          ["output_pop"] * 2 + ["outputs_assign"] * 2 + ["redistribute"] * 3)
        if pick == "set_unspents":
            return {"op": "set_unspents", "recs": mk_recs(st["ins"])}
        if pick == "set_unspents_wrong":
            recs = mk_recs(st["ins"])
            return {"op": "set_unspents", "recs": recs[:-1] if rng.random() < 0.5 else recs + [mk_rec(spare(st), 0.0)]}
        if pick == "unspents_from_db":
            return {"op": "unspents_from_db", "missing": None, "ignore_missing": rng.random() < 0.3}
        if pick == "from_db_missing":
            return {"op": "unspents_from_db", "missing": rng.choice(st["ins"]) if rng.random() < 0.7 else spare(st),
                    "ignore_missing": rng.random() < 0.7}
        if pick == "parse_unspents":
            recs = mk_recs(st["ins"], form="txout")
            if rng.random() < 0.2:
                recs[rng.randrange(len(recs))] = None
            return {"op": "parse_unspents", "recs": recs}
        if pick in ("unspent_replace", "unspent_none") and m:
            i = rng.randrange(m)
            rec = None if pick == "unspent_none" else mk_rec(st["ins"][i] if i < n else spare(st), 0.5)
            return {"op": "unspent_replace", "i": i, "rec": rec}
        if pick == "unspent_value" and m:
            i = rng.randrange(m)
            c = st["ins"][i] if i < n else None
            v = coins[c]["coin_value"] if c is not None and rng.random() < 0.5 else \
                rng.choice([1, 546, (st["unsp"][i] or {"v": 7})["v"] + rng.choice([1, 1000]), rng.randrange(1, MAXV)])
            return {"op": "unspent_value", "i": i, "v": v}
        if pick == "unspent_script" and m:
            i = rng.randrange(m)
            c = st["ins"][i] if i < n else None
            return {"op": "unspent_script", "i": i, "s": coins[c]["script"] if c is not None and rng.random() < 0.5 else G.rbytes(rng, 5)}
        if pick == "unspents_assign":
            recs = mk_recs(st["ins"])
            r = rng.random()
            if r < 0.25:
                recs = recs + [mk_rec(spare(st), 0.0) for _ in range(rng.choice([1, 1, 3]))]
            elif r < 0.45:
                recs = recs[:-1]
            return {"op": "unspents_assign", "recs": recs}
        if pick == "unspents_append":
            return {"op": "unspents_append", "rec": mk_rec(st["ins"][m] if m < n else spare(st), 0.2)}
        if pick == "unspents_pop" and m:
            return {"op": "unspents_pop", "i": m - 1 if rng.random() < 0.7 else rng.randrange(m)}
        if pick == "input_pop" and n > 1:
            return {"op": "input_pop", "i": n - 1 if rng.random() < 0.5 else rng.randrange(n), "with_unspent": rng.random() < 0.4}
        if pick == "input_append":
            c = spare(st)
            return {"op": "input_append", "coin": c, "rec": mk_rec(c, 0.2) if m == n and rng.random() < 0.5 else None}
        if pick == "output_value" and st["outs"]:
            j = rng.randrange(len(st["outs"]))
            return {"op": "output_value", "j": j, "v": rng.choice([1, st["outs"][j] + 1, max(1, st["outs"][j] - 1), rng.randrange(1, 10 ** 9)])}
        if pick == "output_append":
            return {"op": "output_append", "v": rng.choice([1, 546, rng.randrange(1, 10 ** 9)])}
        if pick == "output_pop" and len(st["outs"]) > 1:
            return {"op": "output_pop"}
        if pick == "outputs_assign":
            return {"op": "outputs_assign", "values": [rng.choice([1, 546, rng.randrange(1, 10 ** 9)]) for _ in range(rng.choice([1, 2, 3]))]}
        if pick == "redistribute" and st["outs"]:
            klass, cands = _hist_reference(st, coins)
            if klass == "consistent":
                nz = rng.choice([1, 1, 2, len(st["outs"])])
                zero_at = sorted(rng.sample(range(len(st["outs"])), min(nz, len(st["outs"]))))
                left = cands[0][0] - sum(v for j, v in enumerate(st["outs"]) if j not in zero_at)
                fee = rng.choice([0, 1, max(0, left - len(zero_at)), max(0, left // 2), max(0, left - len(zero_at) + 1), left + 5])
                return {"op": "redistribute", "zero_at": zero_at, "fee": max(0, fee)}
        return None

    if rng.random() < 0.85:
        steps.append(query(0))
    for _ in range(n_rounds):
        if len(states) == 1 and rng.random() < 0.2:
            src = states[0]
            recs = mk_recs(src["ins"], 0.6)
            step = {"op": "twin", "via": rng.choice(["from_bin", "ctor", "roundtrip"]), "recs": recs}
            steps.append(step)
            states.append({"ins": list(src["ins"]), "outs": list(src["outs"]), "unsp": _hist_twin_unspents(src, step, coins)})
            if rng.random() < 0.5:
                steps.append(query(1))
        for _ in range(rng.choice([1, 1, 1, 2])):
            on = rng.randrange(len(states))
            for _attempt in range(8):
                step = mutator(on)
                if step is None:
                    continue
                step["on"] = on
                trial = _hist_copy(states[on])
                if _hist_expected_ok(trial, step, coins):
                    _hist_apply(trial, step, coins)
                if trial["outs"] is not None and trial["ins"] and _hist_reference(trial, coins)[0] != "unjudged":
                    states[on] = trial
                    steps.append(step)
                    break
        qs = [query(on) for on in rng.sample(range(len(states)), len(states))]
        if len(states) == 2 and rng.random() < 0.5:
            qs = qs[:1]
        steps.extend(qs)
    return entry, steps


def _hist_obj(Tx, coins, r):
    if r is None:
        return None
    if r["coin"] is None:
        return Tx.TxOut(r["v"], r["s"])
    c = coins[r["coin"]]
    return Tx.Spendable(r["v"], r["s"], c["tx_hash"], c["tx_out_index"])


def _hist_read(tx, coins):
    """the model state as the public attributes of the object show it (used after a mutator did not return normally)"""
    by_outpoint = {(c["tx_hash"], c["tx_out_index"]): i for i, c in enumerate(coins)}
    unsp = []
    for u in tx.unspents:
        if u is None:
            unsp.append(None)
        else:
            h = getattr(u, "tx_hash", None)
            unsp.append({"coin": by_outpoint.get((bytes(h), u.tx_out_index)) if h is not None else None, "v": u.coin_value, "s": bytes(u.script)})
    return {"ins": [by_outpoint.get((bytes(t.previous_hash), t.previous_index), -1) for t in tx.txs_in],
            "outs": [o.coin_value for o in tx.txs_out], "unsp": unsp}


def _hist_build(name, net, coins, entry):
    Tx = net.tx
    ins = entry["ins"]
    if entry["via"] == "create_tx":
        fields = [{"coin_value": r["v"], "script": r["s"], "tx_hash": coins[c]["tx_hash"], "tx_out_index": coins[c]["tx_out_index"],
                   "block_index_available": 0, "does_seem_spent": 0, "block_index_spent": 0} for c, r in zip(ins, entry["recs"])]
        forms = [entry["form"] if entry["form"] != "mixed" else ("object", "text", "dict")[i % 3] for i in range(len(fields))]
        spendables = [_as_form(Tx.Spendable, f, fm) for f, fm in zip(fields, forms)]
        return net.tx_utils.create_tx(spendables, _payables(_addresses(name, net), entry["amounts"], None, style="bare"), entry["fee"],
                                      lock_time=entry["lock_time"], version=entry["version"])
    txs_in = [Tx.TxIn(coins[c]["tx_hash"], coins[c]["tx_out_index"]) for c in ins]
    txs_out = [Tx.TxOut(v, b"\x51") for v in entry["outs"]]
    if entry["via"] == "manual":
        tx = Tx(entry["version"], txs_in, txs_out, entry["lock_time"])
        tx.set_unspents([_hist_obj(Tx, coins, r) for r in entry["recs"]])
        return tx
    if entry["via"] == "ctor":
        recs = entry["recs"]
        return Tx(entry["version"], txs_in, txs_out, entry["lock_time"], unspents=None if recs is None else [_hist_obj(Tx, coins, r) for r in recs])
    tail = b"".join(R.ser_out({"value": 0, "script": b""} if r is None else {"value": r["v"], "script": r["s"]}) for r in (entry.get("recs") or []))
    return Tx.from_bin(Tx(entry["version"], txs_in, txs_out, entry["lock_time"]).as_bin() + tail)


def _hist_do(net, tx, step, coins, fresh_db):
    """carry out one mutator on the real object. unspents_from_db gets a database of its own: the records it installs are the
    output objects of that database's transactions, and the in-place edits of later steps must not reach the database the
    verifications use"""
    Tx = net.tx
    op = step["op"]
    if op == "set_unspents":
        tx.set_unspents([_hist_obj(Tx, coins, r) for r in step["recs"]])
    elif op == "unspents_assign":
        tx.unspents = [_hist_obj(Tx, coins, r) for r in step["recs"]]
    elif op == "parse_unspents":
        import io
        tx.parse_unspents(io.BytesIO(b"".join(R.ser_out({"value": 0, "script": b""} if r is None else {"value": r["v"], "script": r["s"]})
                                              for r in step["recs"])))
    elif op == "unspents_from_db":
        db = fresh_db()
        if step["missing"] is not None:
            del db[coins[step["missing"]]["tx_hash"]]
        if step["ignore_missing"]:
            tx.unspents_from_db(db, ignore_missing=True)
        else:
            tx.unspents_from_db(db)
    elif op == "unspent_replace":
        tx.unspents[step["i"] % len(tx.unspents)] = _hist_obj(Tx, coins, step["rec"])
    elif op == "unspent_value":
        tx.unspents[step["i"] % len(tx.unspents)].coin_value = step["v"]
    elif op == "unspent_script":
        tx.unspents[step["i"] % len(tx.unspents)].script = step["s"]
    elif op == "unspents_append":
        tx.unspents.append(_hist_obj(Tx, coins, step["rec"]))
    elif op == "unspents_pop":
        tx.unspents.pop(step["i"] % len(tx.unspents))
    elif op == "input_pop":
        j = step["i"] % len(tx.txs_in)
        tx.txs_in.pop(j)
        if step["with_unspent"] and j < len(tx.unspents):
            tx.unspents.pop(j)
    elif op == "input_append":
        c = coins[step["coin"]]
        tx.txs_in.append(Tx.TxIn(c["tx_hash"], c["tx_out_index"]))
        if step.get("rec") is not None:
            tx.unspents.append(_hist_obj(Tx, coins, step["rec"]))
    elif op == "output_value":
        tx.txs_out[step["j"] % len(tx.txs_out)].coin_value = step["v"]
    elif op == "output_append":
        tx.txs_out.append(Tx.TxOut(step["v"], b"\x52"))
    elif op == "output_pop":
        tx.txs_out.pop()
    elif op == "outputs_assign":
        tx.txs_out = [Tx.TxOut(v, b"\x53") for v in step["values"]]
    elif op == "redistribute":
        for j in step["zero_at"]:
            tx.txs_out[j % len(tx.txs_out)].coin_value = 0
        net.tx_utils.distribute_from_split_pool(tx, step["fee"])
    else:
        raise ValueError("unknown history step %r" % op)


class _NoRec(object):
    def ev(self, *a, **k):
        pass


def _hist_judge_query(rec, viol, tx, st, coins, step, db_objs, reported):
    """one query step: each reading against the reference computed afresh from the model. viol(family, stale, observed, expected)"""
    klass, cands = _hist_reference(st, coins)
    rec.ev("history.state." + klass)
    out_sum = sum(st["outs"])
    got = {}
    for q in step["q"]:
        rec.ev("history.read.%s.%s" % (q, klass if q != "total_out" else "any"))
        if q == "validate" and klass == "consistent":
            rec.ev("history.validate." + ("discrepant" if cands[0][1] else "faithful"))
        if q == "total_out":
            rec.ev("Tx.total_out")
            s, r = observe(tx.total_out)
            if s != "ok" or r != out_sum:
                viol("tx.total_out.mismatch", s == "ok" and r in reported["total_out"], r, out_sum)
            if s == "ok":
                reported["total_out"].append(r)
                got[q] = r
            continue
        if q == "validate":
            rec.ev("Tx.validate_unspents")
            db = _Getter(db_objs) if step.get("db_form") == "getter" else db_objs
            s, r = observe(tx.validate_unspents, db)
            name_, off = "validate_unspents", out_sum
        else:
            rec.ev("Tx." + q)
            s, r = observe(getattr(tx, q))
            name_, off = "tx." + q, (out_sum if q == "fee" else 0)
        stale = s == "ok" and r in (reported["total_in"] if q == "total_in" else reported["fee"])
        if s == "ok":
            reported["total_in" if q == "total_in" else "fee"].append(r)
            if q != "validate":
                got[q] = r
        if klass == "unjudged":
            continue
        if klass == "unrecorded":
            if s == "ok":
                viol(name_ + ".number_with_unrecorded_input", stale, r, "no number: an input has no recorded amount")
            else:
                rec.ev("history.refused")
            continue
        honest = [c - off for c, bad in cands if not bad]
        if q == "validate":
            if s == "ok":
                if not honest:
                    kinds = set()
                    n = len(st["ins"])
                    for c, u in zip(st["ins"], st["unsp"][:n]):
                        if u is not None and u["v"] != coins[c]["coin_value"]:
                            kinds.add("amount")
                        if u is not None and u["s"] != coins[c]["script"]:
                            kinds.add("script")
                    viol("validate_unspents.accepts_discrepancy." + ("_and_".join(sorted(kinds)) or "amount"), False, r, "does not return normally")
                elif r not in honest:
                    if klass == "surplus":
                        viol("validate_unspents.surplus_unspents_counted", stale, r, "refuses, or one of %r" % (honest,))
                    else:
                        viol("validate_unspents.wrong_fee", stale, r, honest[0])
            elif klass == "consistent" and honest:
                viol("validate_unspents.rejects_matching", False, r, honest[0])
            else:
                rec.ev("history.refused")
            continue
        allowed = [c - off for c, bad in cands]
        if s != "ok":
            if klass == "consistent":
                viol(name_ + ".refuses_complete_records", False, r, allowed[0])
            else:
                rec.ev("history.refused")
        elif r not in allowed:
            if klass == "surplus":
                viol(name_ + ".surplus_unspents_counted", stale, r, "refuses, or one of %r" % (allowed,))
            elif q == "fee":
                viol("tx.fee.not_in_minus_out", stale, r, allowed[0])
            else:
                viol("tx.total_in.mismatch", stale, r, allowed[0])
    if len(got) == 3 and got["fee"] != got["total_in"] - got["total_out"]:
        viol("tx.fee.not_total_in_minus_total_out", False, got["fee"], got["total_in"] - got["total_out"])


def _exec_history(name, net, case, rec=None):
    """run one history on fresh objects; returns [(family, stale, step index, observed, expected)]"""
    rec = rec or _NoRec()
    Tx = net.tx
    sources = case["sources"]
    coins = _hist_coins(sources)
    entry, steps = case["entry"], case["steps"]
    out = []

    def fresh_db():
        return {R.txid_bytes(s): G.to_pycoin(Tx, s) for s in sources}
    db_objs = fresh_db()
    rec.ev("history.entry." + entry["via"])
    s, tx = observe(_hist_build, name, net, coins, entry)
    if s != "ok":
        if _hist_entry_irregular(entry):
            # records that do not fit the inputs handed to the constructor / appended to the serialised form: nothing in the
            # statement makes the library take them; refusing them leaves no object to read a fee from
            rec.ev("history.entry_refused")
            return []
        return [("history.setup_failed", False, -1, tx, "transaction")]
    if _hist_entry_irregular(entry):
        rec.ev("history.entry_irregular_taken")
    if entry["via"] == "create_tx":
        rec.ev("create_tx")
        st = {"ins": list(entry["ins"]), "unsp": [dict(r) for r in entry["recs"]],
              "outs": model_build([r["v"] for r in entry["recs"]], entry["amounts"], entry["fee"])[1]}
    else:
        st = {"ins": list(entry["ins"]), "unsp": _hist_entry_unspents(entry), "outs": list(entry["outs"])}
    objs = [[tx, st, {"fee": [], "total_in": [], "total_out": []}]]
    for at, step in enumerate(steps):
        op = step["op"]
        if op == "twin":
            if len(objs) > 1:
                continue
            tx0, st0 = objs[0][0], objs[0][1]
            recs = step["recs"]

            def twin():
                if step["via"] == "from_bin":
                    t = Tx.from_bin(tx0.as_bin())
                    t.set_unspents([_hist_obj(Tx, coins, r) for r in recs])
                    return t
                if step["via"] == "roundtrip":
                    return Tx.from_hex(tx0.as_hex(include_unspents=True))
                return Tx(tx0.version, [Tx.TxIn(t.previous_hash, t.previous_index, t.script, t.sequence) for t in tx0.txs_in],
                          [Tx.TxOut(o.coin_value, o.script) for o in tx0.txs_out], tx0.lock_time,
                          unspents=[_hist_obj(Tx, coins, r) for r in recs])
            s, t2 = observe(twin)
            if s != "ok":
                if step["via"] == "roundtrip" and _hist_reference(st0, coins)[0] != "consistent":
                    rec.ev("history.twin_refused")      # serialising "with unspents" an object whose records do not fit may be refused
                    continue
                out.append(("history.setup_failed", False, at, t2, "second transaction object"))
                return out
            rec.ev("history.twin")
            objs.append([t2, {"ins": list(st0["ins"]), "outs": list(st0["outs"]), "unsp": _hist_twin_unspents(st0, step, coins)},
                         {"fee": [], "total_in": [], "total_out": []}])
            continue
        if step["on"] >= len(objs):
            continue
        o = objs[step["on"]]
        if op == "query":
            _hist_judge_query(rec, lambda fam, stale, obs, exp: out.append((fam, stale, at, obs, exp)), o[0], o[1], coins, step, db_objs, o[2])
            continue
        rec.ev("history.mutator." + _HIST_GROUP[op])
        s, e = observe(_hist_do, net, o[0], step, coins, fresh_db)
        if s == "ok":
            _hist_apply(o[1], step, coins)
            if o[1]["outs"] is None:
                o[1]["outs"] = [x.coin_value for x in o[0].txs_out]
        else:
            rec.ev("history.mutator_refused")
            s2, st2 = observe(_hist_read, o[0], coins)
            if s2 != "ok":
                return out
            o[1] = st2
    return out


_REDUCED = {}


def _run_history(name, net, rec, case):
    """execute, and for each family of disagreement reduce the history to the steps the disagreement needs, so that the
    mechanism key names the cause (which kind of change, and whether an earlier reading is needed) and the witness is short"""
    viols = _exec_history(name, net, case, rec)
    done = set()
    for fam, stale, at, obs, exp in viols:
        if fam in done or _REDUCED.get(fam, 0) >= 40:      # enough witnesses of this family from this shard
            continue
        done.add(fam)
        _REDUCED[fam] = _REDUCED.get(fam, 0) + 1
        if at < 0:
            rec.violation(fam, case, obs, exp)
            continue
        steps = list(case["steps"][:at + 1])

        def hit(steps2):
            for v in _exec_history(name, net, dict(case, steps=steps2)):
                if v[0] == fam and v[2] == len(steps2) - 1:
                    return v
            return None
        if hit(steps) is None:              # not reproducible on fresh objects: report as seen
            rec.violation(fam + ".unreduced", case, obs, exp)
            continue
        q1 = "validate" if fam.startswith("validate_unspents") else fam.split(".")[1]
        if q1 in steps[-1]["q"] and len(steps[-1]["q"]) > 1 and hit(steps[:-1] + [dict(steps[-1], q=[q1])]):
            steps[-1] = dict(steps[-1], q=[q1])
        changed = True
        while changed:
            changed = False
            i = len(steps) - 2
            while i >= 0:
                trial = steps[:i] + steps[i + 1:]
                if hit(trial):
                    steps, changed = trial, True
                i -= 1
        v = hit(steps)
        # the key: is an earlier reading needed, and which kinds of change lie between it (or construction) and the failing reading
        groups, read = set(), False
        for s_ in steps[:-1]:
            if s_["op"] == "query":
                groups, read = set(), True
            elif s_["op"] != "twin":
                groups.add(_HIST_GROUP[s_["op"]] if s_["on"] == steps[-1]["on"] else "other_object_" + _HIST_GROUP[s_["op"]])
            elif steps[-1]["on"] == 0:
                groups.add("second_object")        # (for a reading on the second object the step is its construction)
        mech = fam + ".after_" + ("+".join((["reading"] if read else []) + sorted(groups)) or "construction")
        rec.violation(mech, dict(case, steps=steps), v[3], v[4])


def _check_history(name, net, rng, rec):
    n_in = rng.choice([1, 1, 2, 2, 3, 4, 5])
    sources = [_source_tx(rng, rng.choice([1, 2, 3]), tag) for tag in range(rng.choice([n_in, n_in, max(1, n_in - 1)]) + 1)]
    coins = _hist_coins(sources)
    while len(coins) < n_in + 1:
        sources.append(_source_tx(rng, 3, len(sources)))
        coins = _hist_coins(sources)
    entry, steps = _gen_history(rng, coins, n_in)
    case = {"kind": "history", "net": name, "sources": sources, "entry": entry, "steps": steps}
    rec.case(("history", entry["via"], n_in, tuple((s["op"], s.get("on"), tuple(s.get("q", ()))) for s in steps)), nontrivial=True)
    _run_history(name, net, rec, case)


def run_history(spec, rec, nets):
    rng = shard_rng(spec["seed"], PROPERTY, spec["tier"], spec["shard"])
    names = list(nets)
    for i in range(spec["n"]):
        name = names[i % len(names)]
        _check_history(name, nets[name], rng, rec)
    rec.require("history.validate.faithful", "history.validate.discrepant", "history.read.total_out.any",
                *["history.read.%s.%s" % (q, k) for q in ("fee", "total_in", "validate") for k in ("consistent", "surplus", "unrecorded")])
    rec.require("Tx.fee", "Tx.total_in", "Tx.total_out", "Tx.validate_unspents", "history.twin", "history.refused", "history.mutator_refused",
                *(["history.state." + k for k in ("consistent", "surplus", "unrecorded")] + ["history.entry." + e for e in HIST_ENTRIES] +
                  ["history.mutator." + g for g in HIST_GROUPS if g != "construction"]))


# ---------------------------------------------------------------------------------------------
# caller-owned transactions handed to distribute_from_split_pool: every kind of output script, every way a transaction
# object comes into being, refused calls (insufficient funds in each remainder class, fee / record / amount of the wrong
# type) interleaved with judged calls on the same object and on other objects of other networks.
#
# The model is the caller's view: an output is unspecified while the caller left it at 0 and no call RETURNED a value for it.
# A call that raises produced no transaction: the caller's unspecified outputs are still unspecified, and the retry (lower
# fee, more funds) is judged against the same model. What the object looks like between the refusal and the retry is not judged.

_G1 = bytes.fromhex("0279be667ef9dcbbac55a06295ce870b07029bfcdb2dce28d959f2815b16f81798")
_G2 = bytes.fromhex("02c6047f9441ed7d6d3045406e95c07cd85c778e4b8cef3ca7abac09b95c709ee5")
_G1U = bytes.fromhex("0479be667ef9dcbbac55a06295ce870b07029bfcdb2dce28d959f2815b16f81798"
                     "483ada7726a3c4655da4fbfc0e1108a8fd17b448a68554199c47d08ffb10d4b8")
SCRIPT_KINDS = ["p2pkh", "p2sh", "p2pk", "p2pk_uncompressed", "p2pkh_wit", "p2sh_wit", "p2tr", "multisig", "address", "nulldata",
                "nulldata_push", "nulldata_long", "op_return_bare", "op_return_garbage", "op_return_inside", "empty", "op_true",
                "random", "long", "same_as_input"]
_ORDINARY = ("op_true",)
POOL_PRODUCERS = ["ctor_set", "ctor_kw", "from_bin", "from_hex_unspents", "parse_unspents", "from_db", "segwit", "dressed", "create_tx",
                  "create_tx_signed"]
BAD_CALLS = ["fee_none", "fee_str", "fee_float", "fee_list", "fee_bytes", "unspent_none", "unspent_value_none", "output_value_none",
             "output_value_str"]
_BAD_FEE = {"fee_none": None, "fee_str": "12", "fee_float": 1.5, "fee_list": [1], "fee_bytes": b"\x01"}
_POOL_SCRIPTS = {}


def _pool_scripts(name, net):
    """kind -> scripts. Written by hand from the script templates; where the network's public contract API makes the kind, its
    result is used as well (workload only: the scripts are not judged)"""
    if name in _POOL_SCRIPTS:
        return _POOL_SCRIPTS[name]
    h = [hashlib.sha256(b"c13 pool script %d" % i).digest() for i in range(4)]
    out = {"p2pkh": [b"\x76\xa9\x14" + h[0][:20] + b"\x88\xac"], "p2sh": [b"\xa9\x14" + h[1][:20] + b"\x87"],
           "p2pk": [b"\x21" + _G1 + b"\xac"], "p2pk_uncompressed": [b"\x41" + _G1U + b"\xac"],
           "p2pkh_wit": [b"\x00\x14" + h[2][:20]], "p2sh_wit": [b"\x00\x20" + h[3]], "p2tr": [b"\x51\x20" + h[0]],
           "multisig": [b"\x51\x21" + _G1 + b"\x21" + _G2 + b"\x52\xae"], "address": [],
           "nulldata": [b"\x6a" + b"c13"], "nulldata_push": [b"\x6a\x03c13", b"\x6a\x00"],
           "nulldata_long": [b"\x6a\x4c\x50" + (h[0] * 3)[:80]], "op_return_bare": [b"\x6a"],
           "op_return_garbage": [b"\x6a\x4c", b"\x6a\xff\x00", b"\x6a\x6a\x6a"], "op_return_inside": [b"\x51\x6a", b"\x00\x6a\x01\x02"],
           "empty": [b""], "op_true": [b"\x51", b"\x52", b"\x53"], "long": [b"\x51" * 600, b"\x6a\x4d\x10\x27" + b"\x00" * 10000]}
    c = net.contract
    for kind, f, args in (("p2pkh", "for_p2pkh", (h[1][:20],)), ("p2sh", "for_p2sh", (h[2][:20],)), ("p2pk", "for_p2pk", (_G2,)),
                          ("p2pkh_wit", "for_p2pkh_wit", (h[3][:20],)), ("p2sh_wit", "for_p2sh_wit", (h[0],)),
                          ("p2tr", "for_p2tr", (h[1],)), ("multisig", "for_multisig", (2, [_G1, _G2, _G1])),
                          ("nulldata", "for_nulldata", (b"c13 value conservation",)), ("nulldata_push", "for_nulldata_push", (b"c13 data",)),
                          ("op_return_bare", "for_nulldata", (b"",))):
        st, s = observe(lambda: getattr(c, f)(*args))
        if st == "ok" and isinstance(s, bytes) and s not in out[kind]:
            out[kind].append(s)
    for a in _addresses(name, net):
        st, s = observe(c.for_address, a)
        if st == "ok" and isinstance(s, bytes) and s:
            out["address"].append(s)
    if not out["address"]:
        out["address"] = list(out["p2pkh"])
    _POOL_SCRIPTS[name] = out
    return out


def _pool_pick_script(rng, scripts, kind, coins):
    if kind == "random":
        return G.rbytes(rng, rng.choice([1, 2, 5, 25, 34, 80]))
    if kind == "same_as_input":
        return coins[0]["script"]
    return rng.choice(scripts[kind])


def _pool_coin(rng, value, k, scripts):
    f = _mk_spendable_fields(rng, value, k)
    if rng.random() < 0.4:
        f["script"] = rng.choice(scripts[rng.choice(["p2pkh", "p2sh", "p2pkh_wit", "nulldata", "empty", "op_true"])])
    return {"coin_value": f["coin_value"], "script": f["script"], "tx_hash": f["tx_hash"], "tx_out_index": f["tx_out_index"]}


def _pool_rclass(rem, k):
    return "neg" if rem < 0 else "zero" if rem == 0 else "lt_k" if rem < k else "ok"


def _gen_pool(name, net, rng, i):
    """one session: how the transaction object comes into being, its outputs (amount 0 = unspecified, script kind) and the steps the
    caller takes with it. Generated against the model alone; every step is written out (replayable as is)."""
    scripts = _pool_scripts(name, net)
    producer = "create_tx_signed" if i % 45 == 43 else POOL_PRODUCERS[i % 9]
    case = {"kind": "pool", "net": name, "producer": producer, "unspent_form": rng.choice(["spendable", "spendable", "txout"]),
            "version": rng.choice([1, 1, 2]), "lock_time": rng.choice([0, 0, 1, 500000000]), "state_seed": rng.getrandbits(24),
            "dress": rng.choice(["scripts", "witness", "both", "mixed"])}
    n_in = rng.choice([1, 1, 2, 2, 3, 5])
    if producer == "from_db":
        sources = [_source_tx(rng, rng.choice([1, 2, 3]), tag) for tag in range(n_in)]
        pool = _hist_coins(sources)
        rng.shuffle(pool)
        coins = pool[:n_in]
        case["sources"] = sources
    elif producer == "create_tx_signed":
        ks = _key_material(name, net)["scripts"]
        coins = [dict(_pool_coin(rng, rng.choice([546, 10 ** 5, 10 ** 8, rng.randrange(1, 10 ** 9)]), j, scripts), script=rng.choice(ks))
                 for j in range(min(n_in, 2))]
    else:
        coins = [_pool_coin(rng, rng.choice([1, 1, 2, 7, 546, 10 ** 8 - 1, 10 ** 8, MAXV, rng.randrange(1, 1000), rng.randrange(1, 10 ** 9),
                                             rng.randrange(1, MAXV + 1)]), j, scripts) for j in range(n_in)]
    big = i % 400 == 7 and not producer.startswith("create_tx")
    if big and producer != "from_db":
        coins[0]["coin_value"] = rng.choice([10 ** 5, 10 ** 8, MAXV])
    case["coins"] = coins
    in_sum = sum(c["coin_value"] for c in coins)
    big = big and in_sum >= 1000
    k0 = [252, 253, 254][(i // 400) % 3] if big else rng.choice([1, 1, 2, 2, 3, 3, 4, 5, 0])
    n_fixed = rng.choice([0, 0, 1, 1, 2, 3]) if k0 else rng.choice([1, 2])
    fixed, budget = [], in_sum // 2
    for _ in range(n_fixed):
        v = rng.choice([1, 546, rng.randrange(1, max(2, budget // 2 + 1)), rng.randrange(1, max(2, min(budget, 10 ** 6) + 1))])
        fixed.append(v)
        budget = max(0, budget - v)
    amounts = fixed + [0] * k0
    rng.shuffle(amounts)
    focus = SCRIPT_KINDS[(i // 9) % len(SCRIPT_KINDS)]
    outs = []
    if producer.startswith("create_tx"):
        # create_tx pays to addresses; it must itself succeed: at least one satoshi per unspecified output is left
        addrs = _addresses(name, net)
        while amounts and in_sum - sum(amounts) < amounts.count(0):
            amounts.remove(max(amounts)) if max(amounts) > 0 else amounts.pop()
        if not amounts:
            amounts = [0]
        left = in_sum - sum(amounts)
        k = amounts.count(0)
        case["fee0"] = (left - min(left, rng.choice([k, k + 1, left, left, rng.randrange(k, left + 1)]))) if k else rng.choice([0, 7, max(0, left)])
        for j, a in enumerate(amounts):
            outs.append({"amount": a, "address": addrs[(j * 5 + i) % len(addrs)], "skind": "address"})
    else:
        dup = rng.random() < 0.2
        for j, a in enumerate(amounts):
            kind = focus if (a == 0 and not any(o["amount"] == 0 for o in outs)) else rng.choice(SCRIPT_KINDS)
            if big:
                kind = focus if j == 100 else "op_true"
            if dup and outs and rng.random() < 0.6:
                outs.append(dict(outs[-1], amount=a))
            else:
                outs.append({"amount": a, "script": _pool_pick_script(rng, scripts, kind, coins), "skind": kind})
    case["outs"] = outs
    # the steps, against the model
    if producer.startswith("create_tx"):
        cur = model_build([in_sum], amounts, case["fee0"])[1]
    else:
        cur = list(amounts)
    steps = []
    fresh = [0]

    def new_output(a):
        kind = rng.choice([focus, focus, rng.choice(SCRIPT_KINDS)])
        return {"op": "add_output", "amount": a, "script": _pool_pick_script(rng, scripts, kind, coins), "skind": kind}

    def new_funds(v):
        fresh[0] += 1
        return {"op": "add_funds", "coin": _pool_coin(rng, v, 50 + fresh[0], scripts)}

    def feasible_call():
        k, left = cur.count(0), in_sum - sum(cur)
        if k == 0:
            return {"op": "call", "fee": rng.choice([0, 1, 10 ** 9])}
        if left < k:
            return None
        rem = rng.choice([k, k, k + 1, 2 * k - 1, 2 * k, left, left, rng.randrange(k, left + 1)])
        return {"op": "call", "fee": left - min(rem, left)}

    def do_call(fee):
        steps.append({"op": "call", "fee": fee})
        verdict, exp = model_build([in_sum], cur, fee)
        if verdict == "ok":
            cur[:] = exp

    if big:
        # 252 / 253 / 254 unspecified outputs: refused one satoshi short of one each, then exactly one each, then a real split
        left = in_sum - sum(cur)
        do_call(left - (k0 - 1))
        do_call(left - k0)
        steps.append({"op": "rezero", "at": [j for j, a in enumerate(amounts) if a == 0]})
        for j, a in enumerate(amounts):
            cur[j] = a
        do_call(rng.choice([0, 1, 1000]))
    for _ in range(rng.choice([1, 2, 2, 3, 3, 4, 5]) if not big else 0):
        k, left = cur.count(0), in_sum - sum(cur)
        pick = rng.choice(["refuse_retry"] * 6 + ["call"] * 3 + ["bad"] * 4 + ["rezero"] * 3 + ["add_output"] * 3 + ["add_funds"] + ["huge"])
        if k == 0 and pick in ("refuse_retry", "huge") and rng.random() < 0.8:
            pick = rng.choice(["rezero", "add_output"])
        if pick == "refuse_retry" and k:
            klass = rng.choice(["lt_k"] * 5 + ["zero"] * 2 + ["neg"] * 2)
            if klass == "lt_k" and (k < 2 or left < 1):
                klass = "zero"
            if klass == "zero" and left < 0:
                klass = "neg"
            rem = rng.randrange(1, min(k, left + 1)) if klass == "lt_k" else 0 if klass == "zero" else -rng.choice([1, 2, 1000])
            fee = max(0, left - rem)
            for _rep in range(rng.choice([1, 1, 2])):
                do_call(fee)
            if rng.random() < 0.25:
                steps.append({"op": "bad", "how": rng.choice(BAD_CALLS), "i": rng.randrange(8), "fee": fee})
            r = rng.random()
            if r < 0.55:
                st = feasible_call()
                if st:
                    do_call(st["fee"])
            elif r < 0.85:
                v = max(1, k - (left - fee)) + rng.choice([0, 0, 1, k, 10 ** 6])
                steps.append(new_funds(v))
                in_sum += v
                do_call(fee)
        elif pick == "call":
            st = feasible_call()
            if st:
                do_call(st["fee"])
        elif pick == "bad":
            steps.append({"op": "bad", "how": rng.choice(BAD_CALLS), "i": rng.randrange(8), "fee": max(0, left - k) if rng.random() < 0.7 else 0})
        elif pick == "rezero":
            nz = [j for j, a in enumerate(cur) if a]
            if nz:
                at = sorted(rng.sample(nz, rng.choice([1, 1, 2, len(nz)]) if len(nz) > 1 else 1)) if len(nz) < 50 else nz[:rng.choice([1, 3, 200])]
                steps.append({"op": "rezero", "at": at})
                for j in at:
                    cur[j] = 0
        elif pick == "add_output":
            a = rng.choice([0, 0, 0, 1, 546])
            steps.append(new_output(a))
            cur.append(a)
        elif pick == "add_funds":
            v = rng.choice([1, 546, 10 ** 8, rng.randrange(1, 10 ** 6)])
            steps.append(new_funds(v))
            in_sum += v
        elif pick == "huge" and k:
            # an amount that fits no wire field: by the arithmetic of the statement simply insufficient funds
            nz = [j for j, a in enumerate(cur) if a]
            if nz:
                j = rng.choice(nz)
                steps += [{"op": "set_value", "j": j, "v": rng.choice([2 ** 64, 2 ** 64 - 1, 2 ** 63])}, {"op": "call", "fee": 0},
                          {"op": "set_value", "j": j, "v": cur[j]}]
    if not any(s["op"] == "call" for s in steps):
        st = feasible_call()
        if st:
            do_call(st["fee"])
    case["steps"] = steps
    return case


def _pool_build(name, net, case):
    import io
    Tx = net.tx
    S = Tx.Spendable
    coins, p = case["coins"], case["producer"]

    def objs(cs, form=None):
        if (form or case["unspent_form"]) == "txout":
            return [Tx.TxOut(c["coin_value"], c["script"]) for c in cs]
        return [S(c["coin_value"], c["script"], c["tx_hash"], c["tx_out_index"]) for c in cs]
    if p.startswith("create_tx"):
        payables = [(o["address"], o["amount"]) if o["amount"] else o["address"] for o in case["outs"]]
        tx = net.tx_utils.create_tx(objs(coins, "spendable"), payables, case["fee0"], lock_time=case["lock_time"], version=case["version"])
        if p == "create_tx_signed":
            observe(net.tx_utils.sign_tx, tx, _key_material(name, net)["wifs"])
        return tx
    txs_in = [Tx.TxIn(c["tx_hash"], c["tx_out_index"]) for c in coins]
    txs_out = [Tx.TxOut(o["amount"], o["script"]) for o in case["outs"]]
    if p == "ctor_kw":
        return Tx(case["version"], txs_in, txs_out, case["lock_time"], unspents=objs(coins))
    base = Tx(case["version"], txs_in, txs_out, case["lock_time"])
    if p == "ctor_set":
        base.set_unspents(objs(coins))
        return base
    if p == "dressed":
        base.set_unspents(objs(coins))
        _dress(name, net, base, {"state": case["dress"], "state_seed": case["state_seed"]}, len(coins))
        return base
    if p == "from_hex_unspents":
        base.set_unspents(objs(coins))
        return Tx.from_hex(base.as_hex(include_unspents=True))
    if p == "segwit":
        _dress(name, net, base, {"state": "witness", "state_seed": case["state_seed"]}, len(coins))
    tx = Tx.from_bin(base.as_bin())
    if p == "parse_unspents":
        tx.parse_unspents(io.BytesIO(b"".join(R.ser_out({"value": c["coin_value"], "script": c["script"]}) for c in coins)))
    elif p == "from_db":
        tx.unspents_from_db({R.txid_bytes(s): G.to_pycoin(Tx, s) for s in case["sources"]})
    else:
        tx.set_unspents(objs(coins))
    return tx


def _pool_new_unspent(net, case, c):
    Tx = net.tx
    if case["unspent_form"] == "txout" or case["producer"] in ("from_hex_unspents", "parse_unspents", "from_db"):
        return Tx.TxOut(c["coin_value"], c["script"])
    return Tx.Spendable(c["coin_value"], c["script"], c["tx_hash"], c["tx_out_index"])


def _exec_pool(name, net, case, rec, out):
    """generator: carries out one session, yielding after every step (so that sessions on other objects / networks can be
    interleaved). Appends (mechanism, step index, observed, expected) to out and stops at the first disagreement."""
    Tx = net.tx
    dist = net.tx_utils.distribute_from_split_pool
    p = case["producer"]
    rec.ev("pool.producer." + p)
    st, tx = observe(_pool_build, name, net, case)
    if st != "ok":
        if p in ("segwit", "dressed") and not getattr(Tx, "ALLOW_SEGWIT", True):
            rec.ev("pool.producer_unavailable")
            return
        out.append(("inconclusive:pool.setup_failed." + p, -1, tx, "transaction"))
        return
    in_sum = sum(c["coin_value"] for c in case["coins"])
    amounts = [o["amount"] for o in case["outs"]]
    skinds = [o["skind"] for o in case["outs"]]
    if p.startswith("create_tx"):
        verdict, cur = model_build([in_sum], amounts, case["fee0"])
        rec.ev("create_tx")
        s0, got = observe(lambda: [o.coin_value for o in tx.txs_out])
        if verdict != "ok":
            out.append(("inconclusive:pool.generator_infeasible_create_tx", -1, None, None))
            return
        if s0 != "ok" or got != cur:
            out.append(("build.outputs_mismatch.pool_entry", -1, got, cur))      # (create_tx itself is the subject of the build shards)
            return
    else:
        cur = list(amounts)
    refused_since = set()
    yield
    for at, step in enumerate(case["steps"]):
        op = step["op"]
        if op == "rezero":
            for j in step["at"]:
                tx.txs_out[j].coin_value = 0
                cur[j] = 0
        elif op == "set_value":
            tx.txs_out[step["j"]].coin_value = step["v"]
            cur[step["j"]] = step["v"]
        elif op == "add_output":
            tx.txs_out.append(Tx.TxOut(step["amount"], step["script"]))
            cur.append(step["amount"])
            skinds.append(step["skind"])
        elif op == "add_funds":
            c = step["coin"]
            tx.txs_in.append(Tx.TxIn(c["tx_hash"], c["tx_out_index"]))
            tx.unspents.append(_pool_new_unspent(net, case, c))
            in_sum += c["coin_value"]
        elif op == "bad":
            how = step["how"]
            k = cur.count(0)
            rec.ev("distribute_from_split_pool")
            if how in _BAD_FEE:
                s, r = observe(dist, tx, _BAD_FEE[how])
            else:
                if how.startswith("unspent"):
                    lst, idx = tx.unspents, step["i"] % len(tx.unspents)
                    holder = lst[idx]
                else:
                    idx = step["i"] % len(tx.txs_out)
                    holder = tx.txs_out[idx]
                if how == "unspent_none":
                    tx.unspents[idx] = None
                    s, r = observe(dist, tx, step["fee"])
                    tx.unspents[idx] = holder
                else:
                    keep = holder.coin_value
                    holder.coin_value = "12" if how == "output_value_str" else None
                    s, r = observe(dist, tx, step["fee"])
                    holder.coin_value = keep            # (the caller repairs its own edit)
            rec.ev("pool.bad_call_tried." + how)
            if s != "ok":
                rec.ev("pool.bad_call_refused." + how)
                if k:
                    refused_since.add("bad_call")
            elif k:
                # nothing in the statement makes the library refuse it; what it then did with the outputs is not judged
                rec.ev("pool.odd_call_accepted")
                return
            else:
                rec.ev("pool.bad_call_nothing_to_do")
                s2, got = observe(lambda: [o.coin_value for o in tx.txs_out])
                if s2 != "ok" or got != cur:
                    out.append(("pool.fixed_amount_changed", at, got, list(cur)))
                    return
        elif op == "call":
            fee = step["fee"]
            k = cur.count(0)
            verdict, exp = model_build([in_sum], cur, fee)
            rec.ev("distribute_from_split_pool")
            s, r = observe(dist, tx, fee)
            if verdict == "error":
                rec.ev("expected_error")
                rclass = _pool_rclass(in_sum - sum(cur) - fee, k)
                if s == "ok":
                    out.append(("pool.insufficient_funds_not_rejected." + rclass, at, observe(lambda: [o.coin_value for o in tx.txs_out])[1], "error"))
                    return
                rec.ev("pool.refused." + rclass)
                if max(cur) >= 2 ** 63:
                    rec.ev("pool.refused.amount_beyond_wire_field")
                refused_since.add(rclass)
            else:
                rec.ev("expected_tx")
                if s != "ok":
                    out.append(("pool.rejects_sufficient_funds", at, r, exp))
                    return
                s2, got = observe(lambda: [o.coin_value for o in tx.txs_out])
                if s2 != "ok":
                    out.append(("pool.outputs_unreadable", at, got, exp))
                    return
                if k:
                    for j, a in enumerate(cur):
                        if a == 0:
                            rec.ev("pool.unspecified_script." + skinds[j])
                    if k >= 252:
                        rec.ev("pool.unspecified_count_at_compact_size_boundary")
                    for c in refused_since:
                        rec.ev("pool.retry_after_refusal." + c)
                else:
                    rec.ev("pool.call.no_unspecified")
                refused_since = set()
                viol = []
                if not _judge_outputs(_Collect(viol), None, got, exp, cur, in_sum, fee, "pool"):
                    out.append((viol[0][0], at, got, exp))
                    return
                rec.ev("Tx.fee")
                rec.ev("Tx.total_in")
                rec.ev("Tx.total_out")
                s3, readings = observe(lambda: (tx.total_in(), tx.total_out(), tx.fee()))
                want = (in_sum, sum(exp), in_sum - sum(exp))
                if s3 != "ok" or tuple(readings) != want:
                    which = "tx.total_in.mismatch" if s3 == "ok" and readings[0] != want[0] else \
                        "tx.total_out.mismatch" if s3 == "ok" and readings[1] != want[1] else "tx.fee.not_in_minus_out"
                    out.append(("pool." + which, at, readings, want))
                    return
                cur = list(exp)
        else:
            raise ValueError("unknown pool step %r" % op)
        yield


class _Collect(object):
    def __init__(self, lst):
        self.lst = lst

    def violation(self, mech, case, observed=None, expected=None):
        self.lst.append((mech, observed, expected))


def _pool_alone(name, net, case):
    out = []
    for _ in _exec_pool(name, net, case, _NoRec(), out):
        pass
    return out


def _pool_refusals_marked(case):
    """per step: is it a call the model expects to be refused, or a call with an argument of the wrong type"""
    in_sum = sum(c["coin_value"] for c in case["coins"])
    amounts = [o["amount"] for o in case["outs"]]
    cur = model_build([in_sum], amounts, case["fee0"])[1] if case["producer"].startswith("create_tx") else list(amounts)
    marks = []
    for step in case["steps"]:
        op, mark = step["op"], False
        if op == "rezero":
            for j in step["at"]:
                cur[j] = 0
        elif op == "set_value":
            cur[step["j"]] = step["v"]
        elif op == "add_output":
            cur.append(step["amount"])
        elif op == "add_funds":
            in_sum += step["coin"]["coin_value"]
        elif op == "bad":
            mark = True
        elif op == "call":
            verdict, exp = model_build([in_sum], cur, step["fee"])
            mark = verdict == "error"
            cur = cur if mark else exp
        marks.append(mark)
    return marks


def _pool_report(name, net, rec, case, found):
    """name the cause: does the disagreement need the refused calls before it, the kinds of output script, the other sessions?"""
    mech, at, obs, exp = found
    if mech.startswith("inconclusive:"):
        rec.ev(mech)
        rec.note("%s: %r" % (mech, obs))
        return
    if at < 0:
        rec.violation(mech, case, obs, exp)
        return
    alone = _pool_alone(name, net, case)
    if not any(v[0] == mech for v in alone):
        rec.violation(mech + ".only_between_calls_on_other_objects", case, obs, exp)
        return
    marks = _pool_refusals_marked(case)
    if any(marks[:at]):
        plain = dict(case, steps=[s for s, m in zip(case["steps"], marks) if not m])
        if not any(v[0] == mech for v in _pool_alone(name, net, plain)):
            rec.violation(mech + ".after_refused_call", case, obs, exp)
            return
        case = plain
    if not case["producer"].startswith("create_tx") or any(s["op"] == "add_output" for s in case["steps"]):
        def strip(o):
            return dict(o, script=b"\x51", skind="op_true") if "script" in o else o
        plain = dict(case, outs=[strip(o) for o in case["outs"]], steps=[strip(s) for s in case["steps"]])
        if not any(v[0] == mech for v in _pool_alone(name, net, plain)):
            rec.violation(mech + ".by_output_script", case, obs, exp)
            return
        case = plain
    rec.violation(mech, case, obs, exp)


def _pool_case_key(case):
    return ("pool", case["producer"], case["unspent_form"], tuple(o["skind"] for o in case["outs"] if o["amount"] == 0)[:4],
            len(case["coins"]), len(case["outs"]), tuple((s["op"], s.get("how"), s.get("skind")) for s in case["steps"]))


# class C: the caller's own argument objects. create_tx reads its arguments; it must leave them as they are, and a second call
# with the very same objects (and another fee) must build the transaction of the model again. In between, calls the library
# refuses part-way through (an entry it cannot read after entries it could, an amount / fee of the wrong type).
REFUSED_BUILDS = ["spendable_garbage_text", "spendable_dict_missing_key", "spendable_none", "payable_amount_none", "payable_amount_str",
                  "payable_triple", "fee_none", "fee_str", "insufficient"]


def _arg_snapshot(spendables, payables):
    def sp(e):
        if isinstance(e, dict):
            return ("dict", sorted(e.items()))
        if isinstance(e, str):
            return ("text", e)
        return ("object", e.coin_value, bytes(e.script), bytes(e.tx_hash), e.tx_out_index)
    return ([sp(e) for e in spendables], [(type(p).__name__, p if isinstance(p, str) else tuple(p)) for p in payables], type(spendables).__name__)


def _check_reuse(name, net, rng, rec, i):
    S = net.tx.Spendable
    addrs = _addresses(name, net)
    n_in = rng.choice([1, 2, 2, 3, 4])
    fields = [_mk_spendable_fields(rng, rng.choice([1, 2, 546, 10 ** 8, rng.randrange(1, 10 ** 6), rng.randrange(1, MAXV + 1)]), j) for j in range(n_in)]
    form = ("object", "text", "dict", "mixed")[i % 4]
    forms = [form if form != "mixed" else ("object", "text", "dict")[j % 3] for j in range(n_in)]
    in_sum = sum(f["coin_value"] for f in fields)
    k = rng.choice([1, 1, 2, 3, 4])
    fixed = [rng.choice([1, 546, rng.randrange(1, max(2, in_sum // 4))]) for _ in range(rng.choice([0, 1, 2]))] if in_sum > 20 else []
    amounts = fixed + [0] * k
    rng.shuffle(amounts)
    left = in_sum - sum(fixed)
    rems = [r for r in (k, k + 1, 2 * k + 1, left, left // 2, k - 1, 0) if 0 <= r <= left]
    if not rems:
        return
    fee1, fee2 = left - rng.choice(rems), left - rng.choice(rems)
    refused = REFUSED_BUILDS[(i // 4) % len(REFUSED_BUILDS)] if i % 3 else None
    case = {"kind": "reuse", "net": name, "fields": fields, "forms": forms, "amounts": amounts, "fee1": fee1, "fee2": fee2,
            "styles": [rng.choice(["bare", "zero_tuple", "zero_list"]) if a == 0 else rng.choice(["tuple", "list"]) for a in amounts],
            "refused_first": refused}
    rec.case(("reuse", form, n_in, len(amounts), k, _pool_rclass(left - fee1, k), _pool_rclass(left - fee2, k), refused, tuple(case["styles"])),
             nontrivial=True)
    _run_reuse(name, net, rec, case)


def _run_reuse(name, net, rec, case):
    S = net.tx.Spendable
    addrs = _addresses(name, net)
    fields, amounts = case["fields"], case["amounts"]
    spendables = [_as_form(S, f, fm) for f, fm in zip(fields, case["forms"])]
    payables = []
    for j, (a, style) in enumerate(zip(amounts, case["styles"])):
        addr = addrs[(j * 7) % len(addrs)]
        payables.append(addr if style == "bare" else (addr, a) if style in ("zero_tuple", "tuple") else [addr, a])
    before = _arg_snapshot(spendables, payables)
    how = case.get("refused_first")
    if how:
        # a call the library cannot complete, on the caller's own containers; the caller then takes its bad entry out again
        fee = case["fee1"]
        if how.startswith("spendable"):
            bad = {"spendable_garbage_text": "no/spendable/at/all", "spendable_dict_missing_key": {"coin_value": 5}, "spendable_none": None}[how]
            spendables.append(bad)
        elif how.startswith("payable"):
            payables.append({"payable_amount_none": (addrs[0], None), "payable_amount_str": [addrs[0], "5"],
                             "payable_triple": (addrs[0], 5, 5)}[how])
        elif how == "insufficient":
            fee = sum(f["coin_value"] for f in fields) + 1
        else:
            fee = None if how == "fee_none" else "12"
        rec.ev("create_tx")
        st, r = observe(net.tx_utils.create_tx, spendables, payables, fee)
        if how.startswith("spendable"):
            spendables.pop()
        elif how.startswith("payable"):
            payables.pop()
        if st == "ok":
            if how == "insufficient":
                rec.violation("build.insufficient_funds_not_rejected", case, observe(lambda: [o.coin_value for o in r.txs_out])[1], "error")
                return
            rec.ev("reuse.odd_build_accepted")           # nothing in the statement makes the library refuse it
        else:
            rec.ev("reuse.refused_build." + how)
        rec.ev("reuse.bad_build_tried." + how)
    suffix = "" if not how else ".after_refused_build" if st != "ok" else ".after_odd_build"
    tx1, _ = _create_and_judge(name, net, None, rec, case, spendables, fields, amounts, case["fee1"], None, suffix, payables=payables)
    after = _arg_snapshot(spendables, payables)
    rec.ev("reuse.arguments_compared")
    if after != before:
        which = "spendables" if after[0] != before[0] or after[2] != before[2] else "payables"
        rec.violation("build.caller_%s_modified" % which + suffix, case, after, before)
        return
    rec.ev("second_build")
    rec.ev("reuse.second_build_same_arguments")
    _create_and_judge(name, net, None, rec, case, spendables, fields, amounts, case["fee2"], None, ".reused_arguments", payables=payables)
    if tx1 is not None:
        exp = model_build([f["coin_value"] for f in fields], amounts, case["fee1"])[1]
        _observe_built(rec, case, tx1, fields, exp, amounts, sum(f["coin_value"] for f in fields), case["fee1"], ".after_second_build")
    if _arg_snapshot(spendables, payables) != before:
        rec.violation("build.caller_arguments_modified.reused_arguments", case, _arg_snapshot(spendables, payables), before)


def run_pool(spec, rec, nets):
    rng = shard_rng(spec["seed"], PROPERTY, spec["tier"], spec["shard"])
    names = list(nets)
    live = []               # sessions in progress, on different networks: their steps are interleaved

    def advance(entry):
        name, case, gen, out = entry
        try:
            next(gen)
            return True
        except StopIteration:
            if out:
                _pool_report(name, nets[name], rec, case, out[0])
            return False
    for i in range(spec["n"]):
        name = names[i % len(names)]
        if i % 5 == 4:
            _check_reuse(name, nets[name], rng, rec, i // 5)
            continue
        case = _gen_pool(name, nets[name], rng, i)
        rec.case(_pool_case_key(case), nontrivial=True)
        out = []
        live.append((name, case, _exec_pool(name, nets[name], case, rec, out), out))
        if i == 3:
            rec.sample({"op": "distribute_from_split_pool session", "case": {k: v for k, v in case.items() if k != "sources"}})
        while len(live) >= 3:
            j = rng.randrange(len(live))
            if not advance(live[j]):
                live.pop(j)
    while live:
        j = rng.randrange(len(live))
        if not advance(live[j]):
            live.pop(j)
    rec.require("distribute_from_split_pool", "create_tx", "expected_error", "expected_tx", "Tx.fee", "Tx.total_in", "Tx.total_out",
                "pool.call.no_unspecified", "pool.unspecified_count_at_compact_size_boundary", "pool.refused.amount_beyond_wire_field",
                *["pool.producer." + p for p in POOL_PRODUCERS] + ["pool.unspecified_script." + k for k in SCRIPT_KINDS] +
                 ["pool.refused." + c for c in ("lt_k", "zero", "neg")] +
                 ["pool.retry_after_refusal." + c for c in ("lt_k", "zero", "neg", "bad_call")] +
                 ["pool.bad_call_tried." + h for h in BAD_CALLS])
    rec.require("reuse.arguments_compared", "reuse.second_build_same_arguments", "second_build", "reuse.refused_build.insufficient",
                *["reuse.bad_build_tried." + h for h in REFUSED_BUILDS])


# ---------------------------------------------------------------------------------------------
# class B: more than 2**16 operations on ONE object / in ONE process, each judged by running arithmetic

def run_longrun(spec, rec, nets, only=None, upto=None, ab=None):
    name = "BTC"
    net = nets[name]
    Tx = net.tx
    n_ops = upto or ((1 << 16) + 100 if spec["tier"] == "quick" else (1 << 17) + 100)
    goal = (1 << 16) + 100
    rng = shard_rng(spec["seed"], PROPERTY, "longrun", 0)
    a, b = ab or (rng.randrange(1, 1 << 20) | 1, rng.randrange(1 << 20))
    dist = net.tx_utils.distribute_from_split_pool
    def nth(i):
        return ".after_over_2_16_calls" if i >= 65535 else ".after_many_calls" if i >= 256 else ""
    # 1. one transaction object: the caller leaves its three change outputs unspecified again and asks for another fee
    if only in (None, "one_object_split"):
        coins = [{"coin_value": 10 ** 6 + 1, "script": b"\x51", "tx_hash": b"\x01" * 32, "tx_out_index": 0},
                 {"coin_value": 70001, "script": b"\x52", "tx_hash": b"\x02" * 32, "tx_out_index": 1}]
        in_sum, fixed = sum(c["coin_value"] for c in coins), 5000
        tx = Tx(1, [Tx.TxIn(c["tx_hash"], c["tx_out_index"]) for c in coins], [Tx.TxOut(0, b"\x51"), Tx.TxOut(fixed, b"\x52"),
                                                                                 Tx.TxOut(0, b"\x6a\x01\x00"), Tx.TxOut(0, b"")])
        tx.set_unspents([Tx.Spendable(c["coin_value"], c["script"], c["tx_hash"], c["tx_out_index"]) for c in coins])
        outs = tx.txs_out
        left = in_sum - fixed
        for i in range(n_ops):
            case = {"kind": "longrun", "phase": "one_object_split", "i": i, "ab": [a, b]}
            x = (a * i + b) % 9973
            refuse = i % 61 == 60
            rem = (1 + i % 2) if refuse else 3 + x
            fee = left - rem
            outs[0].coin_value = outs[2].coin_value = outs[3].coin_value = 0
            rec.ev("distribute_from_split_pool")
            st, r = observe(dist, tx, fee)
            if refuse:
                if st == "ok":
                    rec.violation("longrun.insufficient_funds_not_rejected", case, [o.coin_value for o in outs], "error")
                    return
                rec.ev("longrun.refused_then_retried")
                fee = left - 3 - x
                st, r = observe(dist, tx, fee)
                rem = 3 + x
            q, m = divmod(rem, 3)
            exp = [q + (m > 0), fixed, q + (m > 1), q]
            got = [o.coin_value for o in outs] if st == "ok" else r
            if got != exp:
                viol = []
                if st != "ok":
                    rec.violation("longrun.rejects_sufficient_funds" + nth(i), case, r, exp)
                else:
                    _judge_outputs(_Collect(viol), None, got, exp, [0, fixed, 0, 0], in_sum, fee, "longrun")
                    rec.violation(viol[0][0] + nth(i), case, got, exp)
                return
            if i % 4 == 0 or i > 65000:
                rec.ev("Tx.fee")
                st, f = observe(tx.fee)
                if st != "ok" or f != fee:
                    rec.violation("longrun.tx.fee.not_in_minus_out" + nth(i), case, f, fee)
                    return
                st, t = observe(lambda: (tx.total_in(), tx.total_out()))
                if st != "ok" or t != (in_sum, in_sum - fee):
                    rec.violation("longrun.tx.totals.mismatch" + nth(i), case, t, (in_sum, in_sum - fee))
                    return
        rec.case(("longrun", "one_object_split", n_ops), nontrivial=True)
        if n_ops >= goal:
            rec.ev("longrun.one_object_split.over_2_16")
    # 2. one process: create_tx from the same caller-owned arguments
    if only in (None, "one_process_create_tx"):
        addrs = _addresses(name, net)
        sp = [Tx.Spendable(123456789, b"\x51", b"\x03" * 32, 0), Tx.Spendable(1000, b"\x52", b"\x04" * 32, 3)]
        in_sum = 123457789
        payables = [addrs[0], (addrs[1], 777), addrs[2]]
        for i in range(n_ops):
            case = {"kind": "longrun", "phase": "one_process_create_tx", "i": i, "ab": [a, b]}
            x = (a * i + b) % 99991
            fee = in_sum - 777 - 2 - x
            rec.ev("create_tx")
            st, tx = observe(net.tx_utils.create_tx, sp, payables, fee)
            q, m = divmod(2 + x, 2)
            exp = [q + m, 777, q]
            got = [o.coin_value for o in tx.txs_out] if st == "ok" else tx
            if got != exp:
                rec.violation("longrun.create_tx.outputs_mismatch" + nth(i), case, got, exp)
                return
            if i % 8 == 0 or i > 65000:
                st, f = observe(tx.fee)
                if st != "ok" or f != fee or tx.unspents[1] is not sp[1]:
                    rec.violation("longrun.create_tx.fee_or_pairing" + nth(i), case, f, fee)
                    return
        rec.case(("longrun", "one_process_create_tx", n_ops), nontrivial=True)
        if n_ops >= goal:
            rec.ev("longrun.one_process_create_tx.over_2_16")
    # 3. one transaction object verified again and again, its record of the second coin right and wrong in turn
    if only in (None, "one_object_validate"):
        src = _source_tx(rng, 3, 0)
        for o in src["outs"]:
            o["value"] = max(2, o["value"] % 10 ** 9)
        h = R.txid_bytes(src)
        db = {h: G.to_pycoin(Tx, src)}
        sp = [Tx.Spendable(o["value"], o["script"], h, j) for j, o in enumerate(src["outs"])]
        tx = net.tx_utils.create_tx(sp, [_addresses(name, net)[0]], 1)
        true_v = src["outs"][1]["value"]
        for i in range(n_ops):
            case = {"kind": "longrun", "phase": "one_object_validate", "i": i, "ab": [a, b]}
            rec.ev("Tx.validate_unspents")
            st, r = observe(tx.validate_unspents, db)
            if st != "ok" or r != 1:
                rec.violation("longrun.validate_unspents.rejects_matching" + nth(2 * i), case, r, 1)
                return
            tx.unspents[1].coin_value = true_v + (1 if i % 3 else -1)
            st, r = observe(tx.validate_unspents, db)
            tx.unspents[1].coin_value = true_v
            if st == "ok":
                rec.violation("longrun.validate_unspents.accepts_discrepancy.amount" + nth(2 * i + 1), case, r, "does not return normally")
                return
        rec.case(("longrun", "one_object_validate", n_ops), nontrivial=True)
        if n_ops >= goal:
            rec.ev("longrun.one_object_validate.over_2_16")


# ---------------------------------------------------------------------------------------------
# converters

def _dec_strings(x, places):
    """spellings of x / 10^places as plain decimal strings with at most `places` fractional digits"""
    whole, frac = divmod(x, 10 ** places)
    full = "%d.%0*d" % (whole, places, frac)
    out = [full]
    stripped = full.rstrip("0")
    out.append(stripped[:-1] if stripped.endswith(".") else stripped)
    if frac == 0:
        out.append("%d" % whole)
        out.append("%d." % whole)
    out.append("00" + full)
    if whole == 0 and frac:
        out.append(stripped[1:])          # ".5"
    return out


def _check_convert(conv, x, rec, strings=True):
    cases = (("btc", 8, conv.satoshi_to_btc, conv.btc_to_satoshi), ("mbtc", 5, conv.satoshi_to_mbtc, conv.mbtc_to_satoshi))
    for unit, places, to_unit, to_sat in cases:
        case = {"kind": "convert", "unit": unit, "satoshi": x}
        rec.case(("conv", unit, x), nontrivial=x != 0)
        rec.ev("satoshi_to_" + unit)
        st, d = observe(to_unit, x)
        # exact = the returned number is x / 10^places as a rational (Fraction() of a Decimal / int / float is its exact value);
        # the statement does not fix the type of the result
        if st == "ok":
            st, exact = observe(lambda: Fraction(d) == Fraction(x, 10 ** places))
            exact = st == "ok" and exact
        if st != "ok" or not exact:
            rec.violation("convert.satoshi_to_%s.inexact" % unit, case, str(d) if st == "ok" else d, "%d / 10^%d" % (x, places))
        else:
            rec.ev(unit + "_to_satoshi")
            st, back = observe(to_sat, d)
            if st != "ok" or back != x:
                rec.violation("convert.%s_roundtrip" % unit, case, back, x)
            elif strings and isinstance(d, decimal.Decimal):
                # the decimal strings of the returned amount itself (what a caller prints and reads back)
                for s in (str(d), format(d, "f")):
                    rec.ev(unit + "_to_satoshi")
                    rec.ev("convert.printed_string")
                    st, v = observe(to_sat, s)
                    if st != "ok" or v != x:
                        rec.violation("convert.%s_to_satoshi.printed_string_inexact" % unit, dict(case, text=s), v, x)
                        break
        if strings:
            for s in _dec_strings(x, places):
                rec.ev(unit + "_to_satoshi")
                rec.ev("convert.string")
                st, v = observe(to_sat, s)
                if st != "ok" or v != x:
                    rec.violation("convert.%s_to_satoshi.string_inexact" % unit, dict(case, text=s), v, x)
                    break
            ex = decimal.Decimal(x).scaleb(-places)     # exact: pure exponent shift
            rec.ev(unit + "_to_satoshi")
            rec.ev("convert.decimal")
            st, v = observe(to_sat, ex)
            if st != "ok" or v != x:
                rec.violation("convert.%s_to_satoshi.decimal_inexact" % unit, case, v, x)
        if x % 10 ** places == 0:
            # a whole number of units handed over as an int
            rec.ev(unit + "_to_satoshi")
            rec.ev("convert.int." + unit)
            st, v = observe(to_sat, x // 10 ** places)
            if st != "ok" or v != x:
                rec.violation("convert.%s_to_satoshi.int_inexact" % unit, case, v, x)


def _convert_sweep_values():
    vals = set(range(0, 3001))
    for p in range(1, 16):
        for d in range(-3, 4):
            vals.add(10 ** p + d)
            vals.add(3 * 10 ** p + d)
            vals.add(29 * 10 ** p + d)          # 0.29 is the classic float casualty
    for c in (10 ** 8, 10 ** 5, MAXV, MAXV // 2, 2 ** 31, 2 ** 32, 2 ** 53):
        for d in range(-1500, 1501):
            vals.add(c + d)
    return sorted(v for v in vals if 0 <= v <= MAXV)


def run_convert(spec, rec):
    from pycoin import convention as conv
    rec.require("satoshi_to_btc", "btc_to_satoshi", "satoshi_to_mbtc", "mbtc_to_satoshi", "convert.string", "convert.printed_string",
                "convert.decimal", "convert.int.btc", "convert.int.mbtc")
    if spec["kind"] == "convert_sweep":
        for x in _convert_sweep_values():
            _check_convert(conv, x, rec)
        rec.sample({"op": "satoshi_to_btc", "satoshi": 29000000, "expected": "0.29", "strings": _dec_strings(29000000, 8)})
        return
    rng = shard_rng(spec["seed"], PROPERTY, spec["tier"], spec["shard"])
    for i in range(spec["n"]):
        r = rng.random()
        if r < 0.4:
            x = rng.randrange(0, MAXV + 1)
        elif r < 0.6:
            x = rng.randrange(0, 10 ** rng.randrange(1, 16))
        elif r < 0.8:
            x = rng.randrange(0, 21 * 10 ** 6) * 10 ** 8 + rng.choice([0, 1, 10, 99999999, 50000000, 29000000, rng.randrange(10 ** 8)])
        else:
            x = min(MAXV, rng.randrange(1, 10 ** 6) * 10 ** rng.randrange(0, 10))
        _check_convert(conv, x, rec, strings=(i % 2 == 0))


# ---------------------------------------------------------------------------------------------

def run_shard(spec, rec):
    kind = spec["kind"]
    if kind.startswith("convert"):
        return run_convert(spec, rec)
    nets = _networks(rec)
    if kind == "split_exhaustive":
        rec.require("split_with_remainder")
        return run_split_exhaustive(spec, rec, nets)
    if kind == "build_sweep":
        rec.require(*["build.remainder." + c for c in ("neg", "lt_k", "eq_k", "k+1", "big", "no_unspecified")])
        rec.require("build.entry.create_tx", "build.entry.split_pool", "build.payables_mixed", "build.container.list", "build.container.tuple",
                    *["build.form." + f for f in ("object", "text", "dict", "mixed")])
        rec.require("create_tx", "distribute_from_split_pool", "expected_error", "expected_tx", "Tx.fee", "Tx.total_in", "Tx.total_out", "pairing",
                    "second_build", "aftermath.failed_build", *["aftermath." + g for g in sorted(set(_AFTER_GROUP.values()) | {"spendables_list_edit"})])
        return run_build_sweep(spec, rec, nets)
    if kind == "validate":
        return run_validate(spec, rec, nets)
    if kind == "history":
        return run_history(spec, rec, nets)
    if kind == "pool":
        return run_pool(spec, rec, nets)
    if kind == "longrun":
        rec.require("distribute_from_split_pool", "create_tx", "Tx.validate_unspents", "Tx.fee", "longrun.refused_then_retried",
                    *["longrun.%s.over_2_16" % ph for ph in ("one_object_split", "one_process_create_tx", "one_object_validate")])
        return run_longrun(spec, rec, nets)
    rec.require("create_tx", "expected_error", "expected_tx", "aftermath.spendables_list_edit", "aftermath.second_build")
    rng = shard_rng(spec["seed"], PROPERTY, spec["tier"], spec["shard"])
    names = list(nets)
    for i in range(spec["n"]):
        name = names[i % len(names)]
        in_values, amounts, fee = _rand_build_params(rng)
        aftermath = [rng.choice(AFTERMATH) for _ in range(rng.choice([1, 1, 2, 3]))] if rng.random() < 0.4 else []
        _check_build(name, nets[name], rng, rec, in_values, amounts, fee, form=rng.choice(["object", "object", "text", "dict", "mixed"]),
                     via="create_tx" if rng.random() < 0.85 else "split_pool", aftermath=aftermath,
                     container="tuple" if rng.random() < 0.08 else "list",
                     extra={"lock_time": rng.choice([1, 499999999, 500000000, 0xffffffff]), "version": rng.choice([1, 2, 3])} if rng.random() < 0.2 else None)
        if i == 5:
            rec.sample({"op": "create_tx", "net": name, "in_values": in_values, "amounts(0=unspecified)": amounts, "fee": fee,
                        "model": model_build(in_values, amounts, fee)})


def replay_case(case, rec):
    kind = case.get("kind")
    if kind == "convert":
        from pycoin import convention as conv
        return _check_convert(conv, int(case["satoshi"]), rec)
    nets = _networks(rec)
    if kind == "split":
        net = nets["BTC"]
        got = list(net.tx_utils.split_with_remainder(int(case["total"]), int(case["count"])))
        exp = model_split(int(case["total"]), int(case["count"]))
        if got != exp:
            mech = "split.sum_mismatch" if sum(got) != int(case["total"]) else \
                "split.remainder_not_to_earlier" if sorted(got, reverse=True) == exp else "split.mismatch"
            rec.violation(mech, case, got, exp)
        return
    name = case.get("net", "BTC")
    if kind == "build":
        rng = shard_rng(0, PROPERTY, "replay", 0)
        for form in ([case.get("form", "object")] if case.get("via") == "split_pool" else ["object", "text", "dict", "mixed"]):
            _check_build(name, nets[name], rng, rec, [int(v) for v in case["in_values"]], [int(v) for v in case["amounts"]],
                         int(case["fee"]), form=form, via=case.get("via", "create_tx"), aftermath=case.get("aftermath") or (),
                         container=case.get("container", "list"),
                         extra={a: int(b) for a, b in case["extra"].items()} if case.get("extra") else None)
        return
    if kind == "pool":
        c2 = dict(case)
        if c2.get("sources"):
            c2["sources"] = [G.unpack(s_) for s_ in c2["sources"]]
        found = _pool_alone(name, nets[name], c2)
        if found:
            _pool_report(name, nets[name], rec, c2, found[0])
        return
    if kind == "reuse":
        return _run_reuse(name, nets[name], rec, case)
    if kind == "longrun":
        return run_longrun({"seed": 0, "tier": "quick"}, rec, nets, only=case["phase"], upto=int(case["i"]) + 1,
                           ab=[int(v) for v in case["ab"]])
    if kind == "validate":
        def recs(lst):
            return [dict(g, coin_value=int(g["coin_value"]), tx_out_index=int(g["tx_out_index"]), script=G._unpack_bytes(g["script"]),
                         tx_hash=G._unpack_bytes(g["tx_hash"])) for g in lst]

        def dbs(lst):
            return {G._unpack_bytes(e["hash"]): G.unpack(e["tx"]) for e in lst}
        disc = case["discrepancy"]
        setting = dict(PLAIN, history="G" if disc == "none" else "B")
        setting.update(case.get("setting") or {})
        side = (recs(case["recorded"]), dbs(case["db"]))
        sides = {"G": side, "B": None} if disc == "none" else \
            {"B": side, "G": (recs(case["good_recorded"]), dbs(case["good_db"])) if "good_recorded" in case else None}
        _judge_validate(name, nets[name], rec, case, sides, disc, setting)
        return
    if kind == "history":
        def fix_rec(r):
            return None if r is None else {"coin": None if r.get("coin") is None else int(r["coin"]), "v": int(r["v"]), "s": G._unpack_bytes(r["s"])}

        def fix(d):
            d = dict(d)
            for key in ("recs",):
                if d.get(key) is not None:
                    d[key] = [fix_rec(r) for r in d[key]]
            if "rec" in d:
                d["rec"] = fix_rec(d["rec"])
            if "s" in d:
                d["s"] = G._unpack_bytes(d["s"])
            for key in ("v", "fee", "i", "j", "coin", "missing", "on", "version", "lock_time"):
                if d.get(key) is not None:
                    d[key] = int(d[key])
            for key in ("ins", "outs", "amounts", "values", "zero_at"):
                if d.get(key) is not None:
                    d[key] = [int(v) for v in d[key]]
            return d
        c2 = {"kind": "history", "net": name, "sources": [G.unpack(s_) for s_ in case["sources"]], "entry": fix(case["entry"]),
              "steps": [fix(s_) for s_ in case["steps"]]}
        _run_history(name, nets[name], rec, c2)
        return
    raise ValueError("unknown case kind %r" % kind)
