"""C13 — building a transaction conserves value to the satoshi; fee arithmetic; spent-output authentication; exact unit conversion."""
import decimal
import hashlib
from fractions import Fraction

from vmon.probe import shard_rng, observe
from vmon.refs import txser as R
from vmon.gen import txgen as G

PROPERTY = "C13"
PRELOAD_NETWORK_ORDERS = [["btc", "xtn", "ltc", "bch", "grs", "doge", "dash", "btg"], ["btg", "grs", "bch", "doge", "ltc", "xtn", "btc"]]
LEVEL = "exploration"
TECHNIQUE = ("integer arithmetic model of the split pool + caller-activity histories after a build + single-discrepancy source databases "
             "verified in several transaction states / call histories + edit -> re-query histories on one transaction object against a "
             "model of the caller's edits + exact rational conversion oracle")
RULE = ("cases: (a) create_tx / distribute_from_split_pool builds with 1..8 spendables (objects, text, dict forms), payables mixing fixed "
        "amounts and 0..6 unspecified outputs, fees 0..sum(inputs); every remainder class R mod k for k<=8 and the boundary R in {k-1,k,k+1} "
        "are enumerated, the rest is seeded random; about 40% of the create_tx builds are followed by 1-3 caller activities (edits of the "
        "caller's own spendables list / dict entries / payables list, a second build from the same spendables (also after a failed build), edits "
        "of that second transaction, distribute_from_split_pool again) after each of which the first transaction is observed again; list or tuple "
        "container, non-default lock_time/version; distinct by (k, n_in, n_out, R class, R mod k, spendable form, activities); (b) split_with_remainder "
        "exhaustively for total<=80 x count<=9 and at 21e14-scale totals; (c) validate_unspents against a database of source transactions "
        "with no discrepancy and with exactly one (amount +-1 / recorded as 0, script byte/length, outputs swapped, wrong tx under the hash, missing tx, index "
        "out of range) at every input position, with the spending transaction built by create_tx or by hand (Spendable or plain TxOut unspents), "
        "left unsigned / inputs filled with scripts and-or witness stacks / really signed (p2pkh, p2wpkh, p2pk sources), a dict or a get-only "
        "database, and verified once or in a history of 2-3 verifications on the same object (faithful and discrepant records installed in "
        "turn through set_unspents or attribute edits); (d) the four converters on every amount 0..3000, neighbourhoods of 10^k, 10^8, 21e14 and "
        "random amounts, as Decimal, int (whole BTC / whole mBTC) and decimal strings in several spellings plus the strings str() / format(,'f') give for the returned amount; (e) histories on ONE transaction object (sometimes two with "
        "the same id): made by create_tx, by hand + set_unspents, by the constructor's unspents= argument (complete, too long, too short, "
        "with a None, absent) or parsed from bytes with or without trailing records; then 1-4 rounds of [1-2 changes, readings], the changes "
        "drawn from set_unspents (right / wrong length), unspents_from_db (full database, a source missing, ignore_missing), parse_unspents, "
        "tx.unspents[i]=..., .coin_value=, .script=, append / pop / assignment of tx.unspents, txs_in pop / append with or without the record, "
        "txs_out value / append / pop / assignment, zeroing outputs + distribute_from_split_pool (feasible or not), a second object with the "
        "same inputs and outputs (from_bin + set_unspents, constructor, as_hex(include_unspents=True) -> from_hex) used in turn with the "
        "first; the readings fee / total_in / total_out / validate_unspents in random order and subset; distinct by entry and the sequence of "
        "operations. Non-trivial: k>=1 or a discrepancy or amount != 0 or a history.")
ASSUMPTIONS = [
    "an output is 'unspecified' when its payable is a bare address or carries amount 0 (create_tx docstring); 'insufficient funds raise an "
    "error' is read under the statement's condition 'when some outputs are left unspecified' (k >= 1): with k = 0 the fee argument does not "
    "enter the transaction and only fee() = total_in() - total_out(), pairing and the fixed amounts are checked",
    "'raise an error' / 'never returns normally' = any exception",
    "specified outputs must carry exactly their specified amount, in payable order",
    "validate_unspents is also required to return (the fee) when every recorded amount and script equals the source's; without this the "
    "negative half would be vacuous",
    "a 'wrong tx under the hash' database entry is paired with a spendable that matches the wrong transaction, and a missing transaction "
    "with an amount discrepancy, so that in every judged case a recorded amount or script differs from the true source",
    "addresses come from network.address.for_p2pkh/for_p2sh/for_p2pkh_wit of the network under test (workload only; the output scripts are "
    "not judged here, that is C08)",
    "decimal strings are plain digit strings with at most 8 (BTC) / 5 (mBTC) fractional digits (leading zeros, a missing integer part and a "
    "bare trailing point included), and what str() / format(.., 'f') print for the amount a satoshi_to_* converter returned; 'exact' is a "
    "statement about the value: the type of a converter's result is not judged",
    "the return value of distribute_from_split_pool is not judged (the statement speaks about the transaction)",
    "records that do not fit the inputs one to one, handed to the Tx constructor or appended to the serialised form, may be refused at "
    "that point (any exception; the unchanged library takes them): there is then no object whose fee could be read. The same for "
    "as_hex(include_unspents=True) on such an object",
    "'each input stays paired with the spendable it came from' and the value clauses are statements about the returned transaction for as "
    "long as it exists: what the caller later does with containers it owns (the spendables list / tuple, dict-form entries, the payables "
    "list), with another transaction built from the same spendables, or a repeated distribute_from_split_pool must not change it. Edits of "
    "the Spendable objects themselves and of a list handed to Tx.set_unspents are not judged (those objects are shared by design)",
    "'the reported fee always equals inputs minus outputs' holds at every reading during the life of a transaction object, whatever was "
    "read before and however the caller changed the recorded unspents, the inputs or the outputs in between (public mutators, the "
    "constructor argument, in-place edits of the public lists / attributes). 'inputs' = the recorded amounts of the outputs the inputs "
    "spend, record i belonging to input i. With one record per input a reading must return that number. With more records than inputs "
    "a reading may refuse (any exception; the unchanged library does) or answer with the records paired to the inputs (by position, or by "
    "outpoint when each input finds exactly one Spendable record naming it), never with a sum that counts coins not spent. With an "
    "input that has no record (list too short, a None entry, a zero-amount entry of the serialised form) no number is the fee (every coin "
    "of the workload is worth >= 1): a reading must not return one. Histories in which the caller itself misaligns an equal number of "
    "records and inputs are not generated",
    "in a history, validate_unspents is judged on the records paired with the inputs: it must return the fee when all of them equal their "
    "sources (one record per input), must not return when one differs, and with surplus records may refuse",
    "set_unspents / unspents_from_db / parse_unspents / distribute_from_split_pool are taken to do what their docstrings say when they "
    "return; when one raises, the model is re-read from the object's public attributes (a reading after a failed call is still judged)",
    "the verification clause does not depend on the state of the spending transaction (inputs empty, filled in or signed; unspents given as "
    "Spendable or TxOut; verified before or not) nor on the database being a dict: a get(hash)-only object like pycoin.services.tx_db.TxDb "
    "is as good; input scripts / witnesses written by the check are arbitrary bytes because validate_unspents is not a signature check",
]
EXPLANATION = ("outputs, unspents, fee()/total_in()/total_out() of every built transaction are compared with a pure integer model written "
               "from the statement, straight after construction and again after each later caller activity; validate_unspents must return the fee on a faithful database and must not return on any single "
               "discrepancy; converter results are compared as exact rationals; in edit -> re-query histories every reading is compared with inputs minus "
               "outputs recomputed from a model of the caller's edits, and a disagreement is reduced to the steps it needs before it is named")
TIMEOUT = {"quick": 600, "thorough": 3 * 3600}

NETS = ["BTC", "XTN", "LTC", "BCH", "BTG"]
MAXV = 21 * 10 ** 14


def exhaustive(tier):
    return False


def configurations(tier):
    return [{"networks": NETS}]


def plan(tier, seed):
    if tier == "quick":
        return ([{"kind": "split_exhaustive"}, {"kind": "build_sweep"}] + [{"kind": "build", "n": 12000} for _ in range(5)] +
                [{"kind": "validate", "n": 1900} for _ in range(4)] + [{"kind": "history", "n": 5000} for _ in range(2)] +
                [{"kind": "convert_sweep"}] + [{"kind": "convert", "n": 90000} for _ in range(2)])
    return ([{"kind": "split_exhaustive"}, {"kind": "build_sweep"}] + [{"kind": "build", "n": 600000} for _ in range(16)] +
            [{"kind": "validate", "n": 90000} for _ in range(12)] + [{"kind": "history", "n": 120000} for _ in range(8)] + [{"kind": "convert_sweep"}] + [{"kind": "convert", "n": 4500000} for _ in range(6)])


# ---------------------------------------------------------------------------------------------
# the arithmetic model (from the statement)

def model_split(total, count):
    """count positive-or-zero shares of total differing by at most one, earlier ones larger"""
    q, r = divmod(total, count)
    return [q + 1] * r + [q] * (count - r)


def model_build(in_values, amounts, fee):
    """amounts: list of ints, 0 = unspecified. Returns ("error", None) or ("ok", [output values])."""
    k = sum(1 for a in amounts if a == 0)
    if k == 0:
        return "ok", list(amounts)
    rem = sum(in_values) - sum(amounts) - fee
    if rem < 0 or rem < k:
        return "error", None
    shares = iter(model_split(rem, k))
    return "ok", [a if a else next(shares) for a in amounts]


def selftest(rec):
    n = 0
    # brute force: the only way to split T into k parts, each within one of the others, larger ones first
    for total in range(0, 40):
        for k in range(1, 8):
            sols = []

            def rec_(prefix, left, slots):
                if slots == 0:
                    if left == 0:
                        sols.append(prefix)
                    return
                hi = prefix[-1] if prefix else left
                for v in range(min(hi, left), -1, -1):
                    rec_(prefix + [v], left - v, slots - 1)
            rec_([], total, k)
            sols = [s for s in sols if max(s) - min(s) <= 1]
            assert sols == [model_split(total, k)], (total, k, sols)
            n += 1
    assert model_build([10], [0], 0) == ("ok", [10])
    assert model_build([10], [0, 0, 0], 0) == ("ok", [4, 3, 3])
    assert model_build([10], [0, 0, 0], 7) == ("ok", [1, 1, 1])
    assert model_build([10], [0, 0, 0], 8) == ("error", None)
    assert model_build([10], [4, 0], 6) == ("error", None)
    assert model_build([10], [4, 0], 5) == ("ok", [4, 1])
    assert model_build([10], [11, 0], 0) == ("error", None)
    assert model_build([3, 4], [2, 0, 1, 0], 1) == ("ok", [2, 2, 1, 1])
    assert model_build([3, 4], [20], 5) == ("ok", [20])
    # conversion oracle: 1 BTC = 10^8 satoshi, 1 mBTC = 10^5 satoshi (definition)
    assert Fraction(decimal.Decimal("20999999.99999999")) == Fraction(MAXV - 1, 10 ** 8)
    assert _dec_strings(123456789, 8)[0] == "1.23456789" and "1.5" in _dec_strings(150000000, 8) and "15" in _dec_strings(1500000, 5)
    assert R.selftest() == 3
    # the history reference on hand-made states: coins 0..2 worth 10, 20, 30
    coins = [{"tx_hash": bytes([i]) * 32, "tx_out_index": i, "coin_value": 10 * (i + 1), "script": b"\x51"} for i in range(3)]

    def r_(c, v=None, form="spendable"):
        return {"coin": c if form == "spendable" else None, "v": coins[c]["coin_value"] if v is None else v, "s": b"\x51"}
    ref = lambda ins, unsp: _hist_reference({"ins": ins, "outs": [], "unsp": unsp}, coins)
    assert ref([0, 1], [r_(0), r_(1)]) == ("consistent", [(30, False)])
    assert ref([0, 1], [r_(0), r_(1, 21)]) == ("consistent", [(31, True)])
    assert ref([0, 1], [r_(0, form="txout"), r_(1, form="txout")]) == ("consistent", [(30, False)])
    assert ref([0, 1], [r_(0)]) == ("unrecorded", []) and ref([0, 1], [r_(0), None]) == ("unrecorded", []) and ref([0], []) == ("unrecorded", [])
    assert ref([0, 1], [r_(0), r_(1), r_(2)]) == ("surplus", [(30, False)])            # never 60
    assert ref([0, 2], [r_(0), r_(1), r_(2)]) == ("surplus", [(40, False)])            # input 1 dropped: paired by outpoint
    assert ref([0, 2], [r_(0, form="txout"), r_(1, form="txout"), r_(2, form="txout")]) == ("surplus", [(30, True)])   # by position only
    assert ref([1, 0], [r_(0), r_(1)]) == ("unjudged", [])
    assert ref([0, 1], [r_(0), None, r_(2)]) == ("unrecorded", [])
    return {"split_uniqueness_bruteforce": n, "model_examples": 9, "history_reference_examples": 12}


# ---------------------------------------------------------------------------------------------

def _networks(rec=None):
    import importlib
    nets = {}
    for n in NETS:
        try:
            nets[n] = importlib.import_module("pycoin.symbols." + n.lower()).network
        except Exception as e:
            if rec is not None:
                rec.note("config_absent: network %s not importable (%s)" % (n, type(e).__name__))
    return nets


_ADDR = {}


def _addresses(name, net):
    if name not in _ADDR:
        out = []
        for k in range(6):
            h = hashlib.sha256(b"c13 address %d" % k).digest()
            for f, arg in (("for_p2pkh", h[:20]), ("for_p2sh", h[:20]), ("for_p2pkh_wit", h[:20]), ("for_p2sh_wit", h)):
                st, a = observe(getattr(net.address, f), arg)
                if st == "ok" and isinstance(a, str) and a:
                    out.append(a)
        assert len(out) >= 6, "no usable addresses for %s" % name
        _ADDR[name] = out
    return _ADDR[name]


def _mk_spendable_fields(rng, value, k):
    return {"coin_value": value, "script": G.rbytes(rng, rng.choice([0, 1, 23, 25, 25, 34])),
            "tx_hash": G.rbytes(rng, 31) + bytes([k + 1]), "tx_out_index": rng.choice([0, 0, 1, 2, 7, 0xfffffffe, rng.getrandbits(16)]),
            "block_index_available": rng.choice([0, 0, 1, 500000]), "does_seem_spent": 0, "block_index_spent": 0}


def _as_form(S, f, form):
    s = G.spendable_to_pycoin(S, f)
    if form == "object":
        return s
    if form == "text":
        return s.as_text()
    return s.as_dict()


def _payables(addrs, amounts, rng, style=None):
    out = []
    for j, a in enumerate(amounts):
        addr = addrs[(j * 7 + (rng.randrange(len(addrs)) if rng else 0)) % len(addrs)]
        if a == 0:
            st = style or rng.choice(["bare", "bare", "zero_tuple", "zero_list"])
            out.append(addr if st == "bare" else (addr, 0) if st == "zero_tuple" else [addr, 0])
        else:
            out.append((addr, a) if (rng is None or rng.random() < 0.8) else [addr, a])
    return out


def _judge_outputs(rec, case, got, exp, amounts, in_sum, fee, prefix, suffix=""):
    """classify a disagreement between built outputs and the model by the statement clause it breaks"""
    k = amounts.count(0)
    if len(got) != len(exp):
        rec.violation(prefix + ".output_count_changed" + suffix, case, got, exp)
        return False
    if got == exp:
        return True
    unspec = [g for g, a in zip(got, amounts) if a == 0]
    if any(g != a for g, a in zip(got, amounts) if a != 0):
        mech = ".fixed_amount_changed"
    elif k and sum(got) + fee != in_sum:
        mech = ".value_not_conserved"
    elif any(u <= 0 for u in unspec):
        mech = ".nonpositive_split_output"
    elif max(unspec) - min(unspec) > 1:
        mech = ".uneven_split"
    elif any(b > a for a, b in zip(unspec, unspec[1:])):
        mech = ".remainder_not_to_earlier"
    else:
        mech = ".outputs_mismatch"
    rec.violation(prefix + mech + suffix, case, got, exp)
    return False


def _observe_built(rec, case, tx, fields, exp, amounts, in_sum, fee, suffix=""):
    """outputs, total_in/total_out/fee and input/unspent pairing of a built transaction against the model; True when all agree.
    suffix names the caller activity that preceded the observation ("" = straight after construction)."""
    k = amounts.count(0)
    st0, got = observe(lambda: [o.coin_value for o in tx.txs_out])
    if st0 != "ok":
        rec.violation("build.outputs_unreadable" + suffix, case, got, exp)
        return False
    good = _judge_outputs(rec, case, got, exp, amounts, in_sum, fee, "build", suffix)
    # fee arithmetic as reported by the transaction
    rec.ev("Tx.total_in")
    st1, ti = observe(tx.total_in)
    rec.ev("Tx.total_out")
    st2, to = observe(tx.total_out)
    rec.ev("Tx.fee")
    st3, fe = observe(tx.fee)
    if st1 != "ok" or ti != in_sum:
        rec.violation("tx.total_in.mismatch" + suffix, case, ti, in_sum)
        good = False
    if st2 != "ok" or to != sum(got):
        rec.violation("tx.total_out.mismatch" + suffix, case, to, sum(got))
        good = False
    if st3 != "ok" or fe != in_sum - sum(got):
        rec.violation("tx.fee.not_in_minus_out" + suffix, case, fe, in_sum - sum(got))
        good = False
    elif k and fe != fee:
        rec.violation("tx.fee.not_requested_fee" + suffix, case, fe, fee)
        good = False
    # pairing
    rec.ev("pairing")

    def paired():
        if len(tx.txs_in) != len(fields):
            return "input count"
        if len(tx.unspents) != len(fields):
            return "unspent count"
        for i, f in enumerate(fields):
            ti_, u = tx.txs_in[i], tx.unspents[i]
            if (bytes(ti_.previous_hash), ti_.previous_index) != (f["tx_hash"], f["tx_out_index"]) or u is None or \
                    (u.coin_value, bytes(u.script)) != (f["coin_value"], f["script"]) or \
                    (bytes(getattr(u, "tx_hash", f["tx_hash"])), getattr(u, "tx_out_index", f["tx_out_index"])) != (f["tx_hash"], f["tx_out_index"]):
                return "mismatch at %d" % i
        return None
    st4, why = observe(paired)
    if st4 != "ok" or why:
        rec.violation("build.pairing_broken" + suffix, case, "input/unspent %s" % (why if st4 == "ok" else "unreadable"),
                      "unspents[i] is the spendable of txs_in[i]")
        good = False
    return good


def _create_and_judge(name, net, rng, rec, case, spendables, fields, amounts, fee, kw=None, suffix=""):
    """create_tx on the given (caller-owned) container of spendables against the model of `fields`; returns (tx or None, payables)"""
    addrs = _addresses(name, net)
    in_values = [f["coin_value"] for f in fields]
    verdict, exp = model_build(in_values, amounts, fee)
    payables = _payables(addrs, amounts, rng)
    rec.ev("create_tx")
    st, tx = observe(lambda: net.tx_utils.create_tx(spendables, payables, fee, **(kw or {})))
    if verdict == "error":
        rec.ev("expected_error")
        if st == "ok":
            rec.violation("build.insufficient_funds_not_rejected" + suffix, case, [o.coin_value for o in tx.txs_out], "error")
        return None, payables
    rec.ev("expected_tx")
    if st != "ok":
        rec.violation("build.rejects_sufficient_funds" + suffix, case, tx, exp)
        return None, payables
    if not _observe_built(rec, case, tx, fields, exp, amounts, sum(in_values), fee, suffix):
        return None, payables           # already reported; nothing built on top of it is judged
    return tx, payables


# what the caller may do after (or between) builds with the things it owns. None of it may reach a transaction that was
# already returned: create_tx takes "a list of Spendable objects" and returns a finished transaction.
AFTERMATH = ["list_append", "list_pop", "list_reverse", "list_sort", "list_clear", "list_insert0", "list_replace", "list_del_slice",
             "entries_edit", "payables_edit", "second_build", "second_build_other", "second_tx_edit", "redistribute"]
_AFTER_GROUP = {"entries_edit": "spendable_entry_edit", "payables_edit": "payables_edit", "second_build": "second_build",
                "second_build_other": "second_build", "second_tx_edit": "second_tx_edit", "redistribute": "redistribute"}


def _second_params(cur):
    """payables / fee of a second build, a deterministic function of the caller's current spendables"""
    total = sum(f["coin_value"] for f in cur)
    k2 = 1 + (total + len(cur)) % 3
    fixed2 = [1 + total % 5] if total > 40 and len(cur) % 2 else []
    left = total - sum(fixed2)
    rem2 = [k2, k2 + 1, k2 - 1, 2 * k2 + 1, left, left // 2][(total // 7) % 6]
    fee2 = max(0, left - rem2)
    return fixed2 + [0] * k2, fee2


def _run_aftermath(name, net, rng, rec, case, tx, fields, forms, spendables, payables, amounts, fee, kw, aftermath):
    """the caller goes on using its own containers / builds again from the same spendables; after every step the transaction
    returned earlier must still be the transaction of the model"""
    S = net.tx.Spendable
    in_sum = sum(f["coin_value"] for f in fields)
    exp = model_build([f["coin_value"] for f in fields], amounts, fee)[1]
    cur, cur_forms = [dict(f) for f in fields], list(forms)       # model of the caller's container
    is_list = isinstance(spendables, list)
    fresh = [0]

    def new_entry():
        fresh[0] += 1
        f = _mk_spendable_fields(rng, [1, 546, 10 ** 8, 12345][fresh[0] % 4], 100 + fresh[0])
        form = forms[fresh[0] % len(forms)]
        return f, form, _as_form(S, f, form)

    def permute(order):
        spendables[:] = [spendables[i] for i in order]
        cur[:] = [cur[i] for i in order]
        cur_forms[:] = [cur_forms[i] for i in order]

    for act in aftermath:
        group = _AFTER_GROUP.get(act, "spendables_list_edit")
        if act.startswith("list_"):
            if not is_list:
                continue
            if act in ("list_append", "list_insert0", "list_replace"):
                f, form, e = new_entry()
                if act == "list_append":
                    spendables.append(e), cur.append(f), cur_forms.append(form)
                elif act == "list_insert0" or not cur:
                    spendables.insert(0, e), cur.insert(0, f), cur_forms.insert(0, form)
                else:
                    j = len(cur) // 2
                    spendables[j], cur[j], cur_forms[j] = e, f, form
            elif act == "list_pop" and cur:
                j = len(cur) // 2
                spendables.pop(j), cur.pop(j), cur_forms.pop(j)
            elif act == "list_reverse":
                permute(list(range(len(cur)))[::-1])
            elif act == "list_sort":
                order = sorted(range(len(cur)), key=lambda i: (cur[i]["coin_value"], i))
                permute(order if order != list(range(len(cur))) else order[::-1])
            elif act == "list_clear":
                del spendables[:], cur[:], cur_forms[:]
            elif act == "list_del_slice":
                h = len(cur) // 2
                del spendables[h:], cur[h:], cur_forms[h:]
        elif act == "entries_edit":
            for i, e in enumerate(spendables):
                if isinstance(e, dict):
                    c = cur[i] = dict(cur[i])
                    c["coin_value"] += 1 + i
                    c["tx_out_index"] = (c["tx_out_index"] + 1) % 0xffffffff
                    c["script"] = b"\x51" + c["script"]
                    e["coin_value"], e["tx_out_index"], e["script_hex"] = c["coin_value"], c["tx_out_index"], c["script"].hex()
        elif act == "payables_edit":
            for p in payables:
                if isinstance(p, list):
                    p[1] += 7
            payables.reverse()
            payables.append(payables[0])
        elif act in ("second_build", "second_build_other", "second_tx_edit"):
            if cur and len({(f["tx_hash"], f["tx_out_index"]) for f in cur}) == len(cur):
                a2, f2 = (amounts, fee) if act != "second_build_other" else _second_params(cur)
                rec.ev("second_build")
                tx2, _ = _create_and_judge(name, net, rng, rec, case, spendables, cur, list(a2), f2, kw, ".second_build_same_spendables")
                if tx2 is not None and act == "second_tx_edit":
                    def edit():
                        for o in tx2.txs_out:
                            o.coin_value += 1
                        tx2.txs_out.pop()
                        t0 = tx2.txs_in[0]
                        t0.previous_index ^= 1
                        t0.previous_hash = bytes(32)
                        t0.script = b"\x01\x02"
                        tx2.txs_in.reverse()
                        tx2.txs_in.pop()
                        tx2.unspents.reverse()
                        tx2.unspents.pop()
                    observe(edit)
        elif act == "redistribute":
            rec.ev("distribute_from_split_pool")
            observe(net.tx_utils.distribute_from_split_pool, tx, fee)
        rec.ev("aftermath." + group)
        if not _observe_built(rec, case, tx, fields, exp, amounts, in_sum, fee, ".after_" + group):
            return


def _check_build(name, net, rng, rec, in_values, amounts, fee, form="object", via="create_tx", tag=None, aftermath=(),
                 container="list", extra=None):
    """one build through create_tx (or Tx + distribute_from_split_pool) against the model, then the caller's later activity"""
    Tx = net.tx
    S = Tx.Spendable
    fields = [_mk_spendable_fields(rng, v, i) for i, v in enumerate(in_values)]
    aftermath = list(aftermath or ()) if via == "create_tx" else []
    case = {"kind": "build", "net": name, "in_values": list(in_values), "amounts": list(amounts), "fee": fee, "form": form, "via": via}
    if aftermath:
        case["aftermath"] = aftermath
    if via == "create_tx" and container != "list":
        case["container"] = container
    if via == "create_tx" and extra:
        case["extra"] = dict(extra)
    k = amounts.count(0)
    verdict, exp = model_build(in_values, amounts, fee)
    in_sum = sum(in_values)
    rem = in_sum - sum(amounts) - fee
    rclass = "neg" if rem < 0 else "lt_k" if rem < k else "eq_k" if rem == k else "k+1" if rem == k + 1 else "big"
    rec.case(("build", via, form if via == "create_tx" else "", k, len(in_values), len(amounts), rclass, rem % k if k and rem >= 0 else -1,
              fee == 0, tag, tuple(aftermath), container if via == "create_tx" else "", bool(extra)), nontrivial=k >= 1)
    rec.ev("build.remainder." + (rclass if k else "no_unspecified"))
    rec.ev("build.entry." + via)
    if via == "create_tx":
        rec.ev("build.form." + form)
        rec.ev("build.container." + container)
        if any(a == 0 for a in amounts) and any(a != 0 for a in amounts):
            rec.ev("build.payables_mixed")
    if via == "create_tx":
        forms = [form if form != "mixed" else ("object", "text", "dict")[i % 3] for i in range(len(fields))]
        entries = [_as_form(S, f, fm) for f, fm in zip(fields, forms)]
        spendables = entries if container == "list" else tuple(entries)
        tx, payables = _create_and_judge(name, net, rng, rec, case, spendables, fields, amounts, fee, extra)
        if tx is not None and aftermath:
            _run_aftermath(name, net, rng, rec, case, tx, fields, forms, spendables, payables, amounts, fee, extra, aftermath)
        elif verdict == "error" and aftermath:
            # a query after a failed call: the same container must still build the transaction of the model
            rec.ev("aftermath.failed_build")
            _create_and_judge(name, net, rng, rec, case, spendables, fields, [0], 0, extra, ".after_failed_build")
        return tx

    def build():
        t = Tx(1, [G.spendable_to_pycoin(S, f).tx_in() for f in fields], [Tx.TxOut(a, b"\x51") for a in amounts])
        t.set_unspents([G.spendable_to_pycoin(S, f) for f in fields])
        net.tx_utils.distribute_from_split_pool(t, fee)        # (its return value is not part of the statement)
        return t
    rec.ev("distribute_from_split_pool")
    st, tx = observe(build)
    if verdict == "error":
        rec.ev("expected_error")
        if st == "ok":
            rec.violation("build.insufficient_funds_not_rejected", case, [o.coin_value for o in tx.txs_out], "error")
        return
    rec.ev("expected_tx")
    if st != "ok":
        rec.violation("build.rejects_sufficient_funds", case, tx, exp)
        return
    _observe_built(rec, case, tx, fields, exp, amounts, in_sum, fee)
    return tx


def _rand_build_params(rng):
    n_in = rng.choice([1, 1, 2, 2, 3, 4, 5, 8])
    in_values = [rng.choice([1, 1, 2, 10 ** 8 - 1, 10 ** 8, 10 ** 8 + 1, MAXV, rng.randrange(1, 1000), rng.randrange(1, MAXV + 1),
                             rng.randrange(1, 10 ** 9)]) for _ in range(n_in)]
    total = sum(in_values)
    k = rng.choice([0, 1, 1, 2, 2, 3, 3, 4, 5, 6])
    n_fixed = rng.choice([0, 0, 1, 1, 2, 3]) if k else rng.choice([1, 2, 3])
    mode = rng.random()
    fixed = []
    budget = total
    for _ in range(n_fixed):
        v = rng.choice([1, 1, 546, rng.randrange(1, max(2, budget // 2 + 1)), rng.randrange(1, max(2, min(budget, 10 ** 6) + 1))])
        fixed.append(v)
        budget = max(0, budget - v)
    left = total - sum(fixed)
    # choose the remainder R deliberately, then derive the fee
    if k and left >= 0:
        r = rng.random()
        if r < 0.45:
            rem = rng.choice([k - 1, k, k + 1, 0, 1, 2 * k - 1, 2 * k, 2 * k + 1, k + rng.randrange(0, 3 * k + 1)])
        elif r < 0.55:
            rem = -rng.choice([1, 2, 1000])
        elif r < 0.75:
            rem = left - rng.choice([0, 0, 1, 1000, 10000])
        else:
            rem = rng.randrange(0, left + 1)
        fee = left - rem
        if fee < 0:
            fee = rng.choice([0, left]) if left >= 0 else 0
    else:
        fee = rng.choice([0, 0, 1, 10000, max(0, left), total, total + 1])
    amounts = fixed + [0] * k
    rng.shuffle(amounts)
    return in_values, amounts, fee


def run_build_sweep(spec, rec, nets):
    """every remainder class and boundary, every k, several input/fixed layouts, every spendable form, both entry points"""
    rng = shard_rng(spec["seed"], PROPERTY, "sweep", 0)
    names = list(nets)
    i = 0
    for k in range(1, 9):
        rems = sorted(set(list(range(0, 3 * k + 2)) + [10 ** 6 + r for r in range(k)] + [MAXV - 5000 + r for r in range(k)] + [-1, -2]))
        for rem in rems:
            for layout in range(4):
                fixed = [[], [7], [1, 5000], [3, 3, 3]][layout]
                fee = [0, 1, 10000, 12345][(layout + rem) % 4]
                need = rem + sum(fixed) + fee
                if need < 1:
                    need, fee = 1, 1 - rem - sum(fixed)        # keep at least one satoshi of input; R stays as chosen
                    if fee < 0:
                        continue
                n_in = 1 + (i % 3)
                in_values = [need - (n_in - 1)] + [1] * (n_in - 1) if need >= n_in else [need]
                if min(in_values) < 1 or sum(in_values) > 4 * MAXV:
                    continue
                amounts = list(fixed) + [0] * k
                if layout == 2:
                    amounts = [0] * (k // 2) + list(fixed) + [0] * (k - k // 2)
                elif layout == 3:
                    amounts = [0] + list(fixed) + [0] * (k - 1)
                name = names[i % len(names)]
                _check_build(name, nets[name], rng, rec, in_values, amounts, fee, form=("object", "text", "dict", "mixed")[i % 4],
                             via="create_tx" if i % 5 else "split_pool", tag="sweep",
                             aftermath=[AFTERMATH[(i // 4) % len(AFTERMATH)]] + ([AFTERMATH[(i // 56) % len(AFTERMATH)]] if i % 3 == 0 else []),
                             container="tuple" if i % 11 == 3 else "list", extra={"lock_time": 500000000 + i, "version": 2} if i % 7 == 2 else None)
                i += 1
    # k = 0: nothing to distribute
    for fee in (0, 5, 10 ** 9):
        for name in names:
            _check_build(name, nets[name], rng, rec, [1000, 2000], [1500, 100], fee, tag="sweep")
            _check_build(name, nets[name], rng, rec, [1000], [1500], fee, via="split_pool", tag="sweep")
    rec.sample({"op": "create_tx", "in_values": [10], "amounts(0=unspecified)": [0, 0, 0], "fee": 0, "expected_outputs": model_build([10], [0, 0, 0], 0)[1]})


def run_split_exhaustive(spec, rec, nets):
    net = nets["BTC"]
    rng = shard_rng(spec["seed"], PROPERTY, "split", 0)
    cases = [(t, c) for t in range(0, 81) for c in range(1, 10)]
    cases += [(MAXV - d, c) for d in range(0, 12) for c in (1, 2, 3, 5, 6, 7, 10, 100)]
    cases += [(rng.randrange(0, MAXV + 1), rng.choice([1, 2, 3, 4, 5, 6, 7, 9, 13, 50])) for _ in range(3000 if spec["tier"] == "quick" else 200000)]
    for total, count in cases:
        rec.ev("split_with_remainder")
        rec.case(("split", total if total < 100 else total % count, count, total >= 100), nontrivial=total > 0)
        st, got = observe(lambda: list(net.tx_utils.split_with_remainder(total, count)))
        exp = model_split(total, count)
        if st != "ok" or got != exp:
            case = {"kind": "split", "total": total, "count": count}
            if st == "ok" and sum(got) != total:
                mech = "split.sum_mismatch"
            elif st == "ok" and len(got) == count and sorted(got, reverse=True) == exp:
                mech = "split.remainder_not_to_earlier"
            else:
                mech = "split.mismatch"
            rec.violation(mech, case, got, exp)
    rec.sample({"op": "split_with_remainder", "total": 10, "count": 3, "expected": model_split(10, 3)})


# ---------------------------------------------------------------------------------------------
# validate_unspents

DISCREPANCIES = ["amount_plus", "amount_minus", "script_byte", "script_longer", "script_shorter", "swapped_output", "wrong_tx",
                 "missing_tx", "index_out_of_range", "index_far_out_of_range", "amount_and_script", "amount_zero"]
_GROUP = {"amount_plus": "amount", "amount_minus": "amount", "amount_zero": "amount", "script_byte": "script", "script_longer": "script",
          "script_shorter": "script", "amount_and_script": "amount_and_script", "swapped_output": "swapped_output",
          "wrong_tx": "wrong_tx_under_hash", "missing_tx": "missing_tx", "index_out_of_range": "index_out_of_range",
          "index_far_out_of_range": "index_out_of_range"}
# the setting a verification happens in. The statement quantifies over none of it: whatever was done to the spending
# transaction before (inputs filled in by signing, an earlier verification, unspents installed by hand), a differing
# amount or script must not pass and a faithful record must.
STATES = ["unsigned", "scripts", "witness", "both", "mixed", "signed"]
ENTRIES = ["create_tx", "manual_spendable", "manual_txout"]
PLAIN = {"k": 1, "entry": "create_tx", "state": "unsigned", "dress_at": 0, "db_form": "dict", "edit_via": "set_unspents", "state_seed": 0}
_KEYS = {}


def _key_material(name, net):
    """a few keys of the network with the scripts they can sign for (workload for the 'signed' state)"""
    if name not in _KEYS:
        from pycoin.encoding.hash import hash160
        wifs, scripts = [], []
        for e in (1, 2, 3, 5):
            key = net.keys.private(secret_exponent=e)
            wifs.append(key.wif())
            for f, arg in (("for_p2pkh", hash160(key.sec())), ("for_p2pkh_wit", hash160(key.sec())), ("for_p2pk", key.sec())):
                st, sc = observe(getattr(net.contract, f), arg)
                if st == "ok" and isinstance(sc, bytes) and sc:
                    scripts.append(sc)
        _KEYS[name] = {"wifs": wifs, "scripts": scripts}
    return _KEYS[name]


def _source_tx(rng, n_out, tag, key_scripts=None):
    """a well-formed source transaction with n_out outputs of value 1..MAXV (sometimes with witness data: the id must ignore it)"""
    d = G.rand_tx(rng, n_in=rng.choice([1, 1, 2]), n_out=n_out, witness=rng.choice(["none", "none", "some", "all"]), p_edge=0.1,
                  max_big=0, distinct_outpoints=True)
    for j, o in enumerate(d["outs"]):
        o["value"] = rng.choice([1, 2, 546, 10 ** 8, MAXV, rng.randrange(1, MAXV + 1), rng.randrange(1, 10 ** 7)])
        o["script"] = rng.choice(key_scripts) if key_scripts else (G.rbytes(rng, rng.choice([1, 2, 23, 25, 25, 34, 67])) or b"\x51")
    d["lock_time"] = tag            # keeps source transactions (and so their hashes) distinct
    return d


def _rand_setting(rng, kind, keyed):
    if kind == "none":
        history = rng.choice(["G", "G", "GG"])
    elif kind in ("index_out_of_range", "index_far_out_of_range"):
        history = "B"               # the spending transaction itself differs between the faithful and the discrepant side
    else:
        history = rng.choice(["B", "B", "B", "GB", "BG", "BB", "GBG", "GGB"])
    return {"k": rng.choice([0, 1, 1, 2]), "entry": rng.choice(["create_tx", "create_tx", "create_tx", "manual_spendable", "manual_txout"]),
            "state": "signed" if keyed else rng.choice(["unsigned", "unsigned", "scripts", "witness", "witness", "both", "mixed"]),
            "dress_at": rng.randrange(len(history)), "db_form": rng.choice(["dict", "dict", "getter"]),
            "edit_via": rng.choice(["set_unspents", "attr"]), "state_seed": rng.getrandbits(24), "history": history}


def _check_validate(name, net, rng, rec, n_in, kind, pos):
    keyed = rng.random() < 0.25
    ks = _key_material(name, net)["scripts"] if keyed else None
    sources = [_source_tx(rng, rng.choice([1, 2, 3, 5]), tag, ks) for tag in range(n_in)]
    hashes = [R.txid_bytes(s) for s in sources]
    picks = [rng.randrange(len(s["outs"])) for s in sources]
    if rng.random() < 0.3 and n_in >= 2 and len(sources[0]["outs"]) >= 2:       # two inputs from the same source transaction
        sources[1], hashes[1] = sources[0], hashes[0]
        picks[0], picks[1] = 0, 1
    recorded = [{"coin_value": s["outs"][p]["value"], "script": s["outs"][p]["script"], "tx_hash": h, "tx_out_index": p,
                 "block_index_available": 0, "does_seem_spent": 0, "block_index_spent": 0} for s, h, p in zip(sources, hashes, picks)]
    db_src = {h: s for h, s in zip(hashes, sources)}
    good_recorded, good_db = [dict(g) for g in recorded], dict(db_src)
    f = recorded[pos]
    src = sources[pos]
    if kind == "amount_plus":
        f["coin_value"] += rng.choice([1, 1, 1000])
    elif kind == "amount_minus":
        if f["coin_value"] < 2:
            f["coin_value"] += 1
            kind = "amount_plus"
        else:
            f["coin_value"] -= 1
    elif kind == "amount_zero":
        f["coin_value"] = 0             # (every source output is worth >= 1)
    elif kind == "script_byte":
        j = rng.randrange(len(f["script"]))
        f["script"] = f["script"][:j] + bytes([f["script"][j] ^ (1 << rng.randrange(8))]) + f["script"][j + 1:]
    elif kind == "script_longer":
        f["script"] = f["script"] + b"\x00"
    elif kind == "script_shorter":
        f["script"] = f["script"][:-1]
    elif kind == "amount_and_script":
        f["coin_value"] += 1
        f["script"] = b"\x6a" + f["script"]
    elif kind == "swapped_output":
        others = [q for q in range(len(src["outs"])) if q != f["tx_out_index"] and
                  (src["outs"][q]["value"], src["outs"][q]["script"]) != (f["coin_value"], f["script"])]
        if not others or hashes.count(hashes[pos]) > 1:
            f["coin_value"] += 1
            kind = "amount_plus"
        else:
            q = rng.choice(others)
            f["coin_value"], f["script"] = src["outs"][q]["value"], src["outs"][q]["script"]
    elif kind == "wrong_tx":
        # the database answers the hash with another transaction, and the spendable agrees with that other transaction
        w = _source_tx(rng, len(src["outs"]) + 1, 1000 + pos, ks)
        wo = w["outs"][f["tx_out_index"]]
        if (wo["value"], wo["script"]) == (f["coin_value"], f["script"]):
            wo["value"] += 1
        for g in recorded:
            if g["tx_hash"] == hashes[pos]:
                g["coin_value"], g["script"] = w["outs"][g["tx_out_index"]]["value"], w["outs"][g["tx_out_index"]]["script"]
        db_src[hashes[pos]] = w
    elif kind == "missing_tx":
        f["coin_value"] += 1
        del db_src[hashes[pos]]
    elif kind in ("index_out_of_range", "index_far_out_of_range"):
        if hashes.count(hashes[pos]) > 1:
            f["coin_value"] += 1
            kind = "amount_plus"
        else:
            f["tx_out_index"] = len(src["outs"]) + (0 if kind == "index_out_of_range" else rng.choice([1, 2, 1000, 0xfffffff0]))
    setting = _rand_setting(rng, kind, keyed)
    case = {"kind": "validate", "net": name, "discrepancy": kind, "pos": pos, "setting": setting,
            "recorded": [dict(g) for g in recorded], "db": [{"hash": h, "tx": G.pack(s)} for h, s in db_src.items()]}
    if "G" in setting["history"] and kind != "none":
        case["good_recorded"] = good_recorded
        case["good_db"] = [{"hash": h, "tx": G.pack(s)} for h, s in good_db.items()]
    sides = {"B": (recorded, db_src), "G": (good_recorded, good_db)}
    if kind == "none":
        sides["B"] = None
    else:
        rec.ev("validate_position." + ("first" if pos == 0 else "later"))
        if hashes.count(hashes[pos]) > 1:
            rec.ev("validate_position.shared_source" + ("_later_input" if pos > 0 else ""))
    _judge_validate(name, net, rec, case, sides, kind, setting)


class _Getter(object):
    """a transaction database with the interface of pycoin's own pycoin.services.tx_db.TxDb: get(hash) -> transaction or None,
    and no item access"""

    def __init__(self, d):
        self._d = d

    def get(self, key):
        return self._d.get(key)

    def __getitem__(self, key):
        raise NotImplementedError


def _dress(name, net, tx, setting, upto):
    """bring the spending transaction into a later stage of its life: inputs filled in as signing leaves them (arbitrary data:
    validate_unspents is not a signature check), or really signed with the keys of _key_material"""
    state = setting["state"]
    if state == "unsigned":
        return
    if state == "signed":
        observe(net.tx_utils.sign_tx, tx, _key_material(name, net)["wifs"])
        return
    for i in range(min(upto, len(tx.txs_in))):
        d = hashlib.sha256(b"c13 dress %d %d" % (setting["state_seed"], i)).digest()
        mode = state if state != "mixed" else ("none", "scripts", "witness", "both")[d[0] % 4]
        if mode in ("scripts", "both"):
            tx.txs_in[i].script = bytes([d[1] % 70 + 1]) + (d * 3)[:d[1] % 70 + 1]
        if mode in ("witness", "both"):
            w = [(d * 3)[:d[2] % 72 + 1], d[:1] + d] if d[3] % 5 else [b""]
            if d[4] & 1:
                tx.set_witness(i, w)
            else:
                tx.txs_in[i].witness = w


def _validate_run(name, net, sides, setting, rec=None):
    """build the spending transaction for the first step of the history, then for each step install that side's recorded
    unspents and verify against that side's database. Returns ("setup_failed", exception) or a list of
    (side, status, value, expected fee) per step."""
    Tx = net.tx
    S = Tx.Spendable
    history = setting["history"]

    def objs(recorded):
        if setting["entry"] == "manual_txout":
            return [Tx.TxOut(g["coin_value"], g["script"]) for g in recorded]
        return [G.spendable_to_pycoin(S, g) for g in recorded]
    rec0 = sides[history[0]][0]
    in_sum = sum(g["coin_value"] for g in rec0)
    k = min(in_sum, setting["k"])
    fee = min(in_sum - k, 1000)
    if setting["entry"] == "create_tx":
        amounts = [0] * k if k else [max(1, in_sum - fee)]
        st, tx = observe(net.tx_utils.create_tx, objs(rec0), _payables(_addresses(name, net), amounts, None, style="bare"), fee)
    else:
        def manual():
            values = model_split(in_sum - fee, k) if k else [max(1, in_sum - fee)]
            t = Tx(1, [Tx.TxIn(g["tx_hash"], g["tx_out_index"]) for g in rec0], [Tx.TxOut(v, b"\x51") for v in values])
            t.set_unspents(objs(rec0))
            return t
        st, tx = observe(manual)
    if st != "ok":
        return "setup_failed", tx
    out_sum = sum(o.coin_value for o in tx.txs_out)
    results = []
    for j, side in enumerate(history):
        recorded, db_src = sides[side]
        if j == setting["dress_at"]:
            st, e = observe(_dress, name, net, tx, setting, len(recorded))
            if st != "ok":
                return "setup_failed", e
            if rec is not None and setting["state"] != "unsigned":
                # was the state really reached (sign_tx may have signed nothing)?
                st, filled = observe(lambda: sum(1 for t in tx.txs_in if t.script or t.witness))
                if st == "ok" and filled:
                    rec.ev("validate_state_reached." + setting["state"])
                    if filled == len(tx.txs_in):
                        rec.ev("validate_state_reached.all_inputs")
        if j > 0:
            if setting["edit_via"] == "attr":
                for u, g in zip(tx.unspents, recorded):
                    u.coin_value, u.script = g["coin_value"], g["script"]
            else:
                tx.set_unspents(objs(recorded))
        db = {h: G.to_pycoin(Tx, s) for h, s in db_src.items()}
        if setting["db_form"] == "getter":
            db = _Getter(db)
        st, r = observe(tx.validate_unspents, db)
        results.append((side, st, r, sum(g["coin_value"] for g in recorded) - out_sum))
    return "ran", results


def _first_failure(results, kind):
    """(step, mechanism, observed, expected) of the first step that breaks the statement, or None"""
    for j, (side, st, r, exp_fee) in enumerate(results):
        if side == "G":
            if st != "ok":
                return j, "validate_unspents.rejects_matching", r, exp_fee
            if r != exp_fee:
                return j, "validate_unspents.wrong_fee", r, exp_fee
        elif st == "ok":
            return j, "validate_unspents.accepts_discrepancy." + _GROUP[kind], r, "does not return normally"
    return None


def _judge_validate(name, net, rec, case, sides, kind, setting):
    history = setting["history"]
    db0 = sides[history[0]][1]
    rec.case(("validate", kind, len(sides[history[0]][0]), case.get("pos"), tuple(len(s["outs"]) for s in db0.values())[:4],
              tuple(R.has_witness(s) for s in db0.values())[:4], setting["entry"], setting["state"], history, setting["db_form"]),
             nontrivial=True)
    rec.ev("Tx.validate_unspents")
    rec.ev("validate_unspents." + kind)
    rec.ev("validate_state." + setting["state"])
    rec.ev("validate_entry." + setting["entry"])
    rec.ev("validate_history." + ("single" if len(history) == 1 else "repeated"))
    rec.ev("validate_db." + setting["db_form"])
    if len(history) > 1:
        rec.ev("validate_edit." + setting["edit_via"])
    status, results = _validate_run(name, net, sides, setting, rec)
    if status != "ran":
        rec.violation("validate.setup_failed", case, results, "transaction")
        return
    bad = _first_failure(results, kind)
    if bad is None:
        return
    j, mech, observed, expected = bad
    # which part of the setting does the failure need? (decided by re-running, so the key names a cause, not a coincidence)
    side = history[j]

    def fails(**over):
        s2 = dict(PLAIN, k=setting["k"], history=side)
        s2.update(over)
        st2, res2 = _validate_run(name, net, sides, s2)
        b2 = _first_failure(res2, kind) if st2 == "ran" else None
        return b2 is not None and b2[1] == mech
    if not fails():
        if setting["state"] != "unsigned" and fails(state=setting["state"], state_seed=setting["state_seed"]):
            mech += ".when_inputs_filled_in" if setting["state"] != "signed" else ".when_signed"
        elif setting["entry"] != "create_tx" and fails(entry=setting["entry"]):
            mech += ".with_" + setting["entry"] + "_unspents"
        elif setting["db_form"] != "dict" and fails(db_form=setting["db_form"]):
            mech += ".with_get_only_database"
        elif j > 0 and fails(history=history[:j + 1], dress_at=0, edit_via=setting["edit_via"]):
            mech += ".after_earlier_verification"
        else:
            mech += ".in_combined_setting"
    rec.violation(mech, case, observed, expected)


def run_validate(spec, rec, nets):
    rng = shard_rng(spec["seed"], PROPERTY, spec["tier"], spec["shard"])
    names = list(nets)
    for i in range(spec["n"]):
        name = names[i % len(names)]
        n_in = rng.choice([1, 1, 2, 2, 3, 4, 6, 8])
        kind = "none" if i % 4 == 0 else DISCREPANCIES[(i // 4 * 3 + i % 4 - 1) % len(DISCREPANCIES)]
        pos = rng.randrange(n_in) if i % 3 else (i // 3) % n_in
        _check_validate(name, nets[name], rng, rec, n_in, kind, pos)
    rec.require("Tx.validate_unspents", "validate_unspents.none", *["validate_unspents." + k for k in DISCREPANCIES if k != "amount_minus"])
    rec.require("validate_history.repeated", *["validate_state." + s for s in STATES] + ["validate_entry." + e for e in ENTRIES])
    rec.require("validate_position.first", "validate_position.later", "validate_position.shared_source_later_input", "validate_db.dict",
                "validate_db.getter", "validate_edit.set_unspents", "validate_edit.attr", "validate_state_reached.all_inputs",
                *["validate_state_reached." + s for s in STATES if s != "unsigned"])


# ---------------------------------------------------------------------------------------------
# edit -> re-query histories on one transaction object
#
# "The reported fee always equals inputs minus outputs" is a statement about every moment of a transaction object's life, not
# only the moment after create_tx returned. A caller queries, changes what the transaction records about the coins it spends
# (through every public mutator, through the constructor argument, or in place), changes inputs or outputs, and queries again.
# The model below follows the caller's edits; the reference is recomputed from the model at each query.

HIST_GROUPS = ["construction", "set_unspents", "unspents_from_db", "parse_unspents", "unspents_inplace", "unspents_assign",
               "inputs_edit", "outputs_edit", "redistribute"]
_HIST_GROUP = {"set_unspents": "set_unspents", "unspents_from_db": "unspents_from_db", "parse_unspents": "parse_unspents",
               "unspent_replace": "unspents_inplace", "unspent_value": "unspents_inplace", "unspent_script": "unspents_inplace",
               "unspents_append": "unspents_inplace", "unspents_pop": "unspents_inplace", "unspents_assign": "unspents_assign",
               "input_pop": "inputs_edit", "input_append": "inputs_edit", "output_value": "outputs_edit",
               "output_append": "outputs_edit", "output_pop": "outputs_edit", "outputs_assign": "outputs_edit",
               "redistribute": "redistribute"}
HIST_ENTRIES = ["create_tx", "manual", "ctor", "from_bin"]


def _hist_coins(sources):
    """every output of every source transaction is a coin: (tx hash, index, true value, true script)"""
    coins = []
    for s in sources:
        h = R.txid_bytes(s)
        for j, o in enumerate(s["outs"]):
            coins.append({"tx_hash": h, "tx_out_index": j, "coin_value": o["value"], "script": o["script"]})
    return coins


def _hist_reference(st, coins):
    """st = {"ins": [coin index], "outs": [value], "unsp": [None | {"coin": index or None, "v": int, "s": bytes}]}.
    Returns (class, candidates). A candidate is (sum of the recorded values of the coins the inputs spend, does a paired record
    differ from its source) under one way of pairing records with inputs. class:
      "consistent"  one record per input, position by position: exactly one candidate, a query must answer with it
      "surplus"     more records than inputs: a query refuses, or answers with a candidate (records paired by position, or by
                    outpoint when every input finds exactly one record naming its outpoint) -- never with coins not spent
      "unrecorded"  an input without a record (list too short, or None): no number is the fee
      "unjudged"    records and inputs of equal number that the caller itself misaligned (not generated)"""
    ins, u = st["ins"], st["unsp"]
    n = len(ins)
    if any(c is None or c < 0 for c in ins) or len(set(ins)) != n:
        return "unjudged", []          # an outpoint the model does not know, or spent twice (records could be one shared object)

    def cand(pairs):
        return (sum(r["v"] for _, r in pairs),
                any((r["v"], r["s"]) != (coins[c]["coin_value"], coins[c]["script"]) for c, r in pairs))
    if len(u) < n:
        return "unrecorded", []
    positional_missing = any(u[i] is None for i in range(n))
    aligned = not positional_missing and all(u[i]["coin"] in (None, ins[i]) for i in range(n))
    if len(u) == n:
        if positional_missing:
            return "unrecorded", []
        return ("consistent", [cand(list(zip(ins, u)))]) if aligned else ("unjudged", [])
    cands = []
    if aligned:
        cands.append(cand(list(zip(ins, u[:n]))))
    by_coin = {}
    for r in u:
        if r is not None and r["coin"] is not None:
            by_coin.setdefault(r["coin"], []).append(r)
    if n and all(len(by_coin.get(c, ())) == 1 for c in ins):
        c2 = cand([(c, by_coin[c][0]) for c in ins])
        if c2 not in cands:
            cands.append(c2)
    if cands:
        return "surplus", cands
    return ("unrecorded" if positional_missing else "unjudged"), []


def _hist_expected_ok(st, step, coins):
    """does the documented behaviour let this mutator succeed in state st? (used by the generator only; the executor looks at
    what really happened)"""
    op = step["op"]
    if op == "set_unspents":
        return len(step["recs"]) == len(st["ins"])
    if op == "parse_unspents":
        return True
    if op == "unspents_from_db":
        return step["ignore_missing"] or step["missing"] is None or \
            all(coins[c]["tx_hash"] != coins[step["missing"]]["tx_hash"] for c in st["ins"])
    if op == "redistribute":
        outs = [0 if j in step["zero_at"] else v for j, v in enumerate(st["outs"])]
        klass, cands = _hist_reference(st, coins)
        return klass == "consistent" and model_build([cands[0][0]], outs, step["fee"])[0] == "ok"
    if op in ("unspent_value", "unspent_script"):
        return bool(st["unsp"]) and st["unsp"][step["i"] % len(st["unsp"])] is not None
    return True


def _hist_apply(st, step, coins):
    """the effect of a mutator that returned normally, on the model"""
    op = step["op"]
    u, ins, outs = st["unsp"], st["ins"], st["outs"]

    def cp(r):
        return None if r is None else {"coin": r.get("coin"), "v": r["v"], "s": r["s"]}
    if op in ("set_unspents", "unspents_assign"):
        st["unsp"] = [cp(r) for r in step["recs"]]
    elif op == "parse_unspents":
        # the stream format has no room for "no record" other than a zero amount; it carries no outpoints
        # one record is read per input
        st["unsp"] = [None if (r is None or r["v"] == 0) else {"coin": None, "v": r["v"], "s": r["s"]} for r in step["recs"]]
    elif op == "unspents_from_db":
        gone = None if step["missing"] is None else coins[step["missing"]]["tx_hash"]
        st["unsp"] = [None if coins[c]["tx_hash"] == gone else {"coin": None, "v": coins[c]["coin_value"], "s": coins[c]["script"]}
                      for c in ins]
    elif op == "unspent_replace":
        if u:
            u[step["i"] % len(u)] = cp(step["rec"])
    elif op == "unspent_value":
        if u and u[step["i"] % len(u)] is not None:
            u[step["i"] % len(u)]["v"] = step["v"]
    elif op == "unspent_script":
        if u and u[step["i"] % len(u)] is not None:
            u[step["i"] % len(u)]["s"] = step["s"]
    elif op == "unspents_append":
        u.append(cp(step["rec"]))
    elif op == "unspents_pop":
        if u:
            u.pop(step["i"] % len(u))
    elif op == "input_pop":
        if ins:
            j = step["i"] % len(ins)
            ins.pop(j)
            if step["with_unspent"] and j < len(u):
                u.pop(j)
    elif op == "input_append":
        ins.append(step["coin"])
        if step.get("rec") is not None:
            u.append(cp(step["rec"]))
    elif op == "output_value":
        if outs:
            outs[step["j"] % len(outs)] = step["v"]
    elif op == "output_append":
        outs.append(step["v"])
    elif op == "output_pop":
        if outs:
            outs.pop()
    elif op == "outputs_assign":
        st["outs"] = list(step["values"])
    elif op == "redistribute":
        z = [0 if j in step["zero_at"] else v for j, v in enumerate(outs)]
        klass, cands = _hist_reference(st, coins)
        if klass == "consistent":
            verdict, exp = model_build([cands[0][0]], z, step["fee"])
            st["outs"] = exp if verdict == "ok" else z
        else:
            st["outs"] = None           # not generated; resynchronised by the executor
    else:
        raise ValueError("unknown history step %r" % op)


def _hist_entry_unspents(entry):
    recs = entry.get("recs") or []
    if entry["via"] == "from_bin":
        # one record is read per input; if that fails the transaction has no records at all
        return [] if len(recs) < len(entry["ins"]) else [None if r is None else dict(r) for r in recs]
    return [None if r is None else dict(r) for r in recs]


def _hist_entry_irregular(entry):
    """an entry whose records do not fit the inputs one to one (too many, too few, a None / zero-amount one)"""
    recs = entry.get("recs")
    if entry["via"] not in ("ctor", "from_bin") or not recs:
        return False
    return len(recs) != len(entry["ins"]) or any(r is None for r in recs)


def _hist_twin_unspents(st0, step, coins):
    if step["via"] == "roundtrip":
        # as_hex(include_unspents=True) writes the records when every input has one, from_hex reads them back (amount and script only)
        if _hist_reference(st0, coins)[0] != "consistent":
            return []
        return [{"coin": None, "v": r["v"], "s": r["s"]} for r in st0["unsp"]]
    return [dict(r) for r in step["recs"]]


def _hist_copy(st):
    return {"ins": list(st["ins"]), "outs": list(st["outs"]), "unsp": [None if r is None else dict(r) for r in st["unsp"]]}


def _gen_history(rng, coins, n_in):
    """entry + steps of one history, generated against the model alone. Every step is written out (replayable as is)."""
    order = list(range(len(coins)))
    rng.shuffle(order)
    ins = order[:n_in]

    def spare(st):
        free = [c for c in range(len(coins)) if c not in st["ins"] and all(r is None or r["coin"] != c for r in st["unsp"])]
        return rng.choice(free) if free else rng.randrange(len(coins))

    def mk_rec(c, p_bad=0.3, form=None):
        v, s = coins[c]["coin_value"], coins[c]["script"]
        if rng.random() < p_bad:
            r = rng.random()
            if r < 0.3:
                v += rng.choice([1, 1, 1000, 10 ** 8])
            elif r < 0.55 and v > 1:
                v -= rng.choice([1, v // 2, v - 1])
            elif r < 0.75:
                v = max(1, v // 100) if v >= 100 else v + 99
            elif r < 0.9:
                s = s[:-1] + bytes([s[-1] ^ 1]) if s else b"\x51"
            else:
                v, s = v + 1, b"\x6a" + s
        form = form or rng.choice(["spendable", "spendable", "txout"])
        return {"coin": c if form == "spendable" else None, "v": v, "s": s}

    def mk_recs(cs, p_bad=0.3, form=None):
        p = rng.choice([0.0, 0.0, p_bad, p_bad, 0.8])
        form = form or rng.choice([None, None, "spendable", "txout"])
        return [mk_rec(c, p, form) for c in cs]

    via = rng.choice(["create_tx", "create_tx", "manual", "ctor", "ctor", "ctor", "from_bin"])
    entry = {"via": via, "ins": list(ins), "version": rng.choice([1, 1, 2]), "lock_time": rng.choice([0, 0, 1, 500000000])}
    if via == "create_tx":
        recs = mk_recs(ins, form="spendable")
        total = sum(r["v"] for r in recs)
        k = rng.choice([0, 1, 1, 2, 3]) if total >= 8 else 1
        fixed = [rng.randrange(1, max(2, total // 4))] if (k == 0 or rng.random() < 0.5) and total >= 8 else []
        fee = rng.choice([0, 0, 1, 1000, (total - sum(fixed)) // 3])
        fee = min(fee, total - sum(fixed) - k) if k else fee
        amounts = fixed + [0] * k
        rng.shuffle(amounts)
        entry.update(recs=recs, amounts=amounts, fee=fee, form=rng.choice(["object", "object", "dict", "text", "mixed"]))
        st = {"ins": list(ins), "unsp": [dict(r) for r in recs], "outs": model_build([r["v"] for r in recs], amounts, fee)[1]}
    else:
        true_total = sum(coins[c]["coin_value"] for c in ins)
        n_out = rng.choice([1, 1, 2, 3])
        outs = [rng.choice([1, 546, rng.randrange(1, max(2, true_total // n_out + 1)), rng.randrange(1, true_total + 2)]) for _ in range(n_out)]
        entry["outs"] = outs
        if via == "from_bin":
            # the serialised form may carry the recorded outputs after the transaction (pycoin's own extension, as_bin(include_unspents=True))
            recs = []
            if rng.random() < 0.6:
                recs = mk_recs(ins, form="txout")
                r = rng.random()
                if r < 0.15:
                    recs[rng.randrange(len(recs))] = None
                elif r < 0.3:
                    recs = recs[:-1]
        elif via == "manual":
            recs = mk_recs(ins)
        else:
            r = rng.random()
            if r < 0.4:
                recs = mk_recs(ins)
            elif r < 0.6:
                recs = mk_recs(ins) + [mk_rec(spare({"ins": ins, "unsp": []}), 0.0) for _ in range(rng.choice([1, 1, 2]))]
            elif r < 0.75:
                recs = mk_recs(ins)[:-1]
            elif r < 0.85:
                recs = None
            else:
                recs = mk_recs(ins)
                recs[rng.randrange(len(recs))] = None
        entry["recs"] = recs
        st = {"ins": list(ins), "unsp": _hist_entry_unspents(entry), "outs": list(outs)}
    states = [st]
    steps = []
    n_rounds = rng.choice([1, 2, 2, 3, 3, 4])

    def query(on):
        q = [x for x in ("fee", "total_in", "total_out") if rng.random() < 0.6] or ["fee"]
        rng.shuffle(q)
        if rng.random() < 0.4:
            q.insert(rng.randrange(len(q) + 1), "validate")
        return {"op": "query", "on": on, "q": q, "db_form": rng.choice(["dict", "dict", "getter"])}

    def mutator(on):
        st = states[on]
        n, m = len(st["ins"]), len(st["unsp"])
        pick = rng.choice(["set_unspents"] * 6 + ["set_unspents_wrong"] * 2 + ["unspents_from_db"] * 7 + ["from_db_missing"] * 3 +
                          ["parse_unspents"] * 4 + ["unspent_replace"] * 6 + ["unspent_value"] * 6 + ["unspent_script"] * 2 +
                          ["unspent_none"] + ["unspents_assign"] * 5 + ["unspents_append"] * 3 + ["unspents_pop"] * 3 +
                          ["input_pop"] * 5 + ["input_append"] * 3 + ["output_value"] * 4 + ["output_append"] * 2 +
                          ["output_pop"] * 2 + ["outputs_assign"] * 2 + ["redistribute"] * 3)
        if pick == "set_unspents":
            return {"op": "set_unspents", "recs": mk_recs(st["ins"])}
        if pick == "set_unspents_wrong":
            recs = mk_recs(st["ins"])
            return {"op": "set_unspents", "recs": recs[:-1] if rng.random() < 0.5 else recs + [mk_rec(spare(st), 0.0)]}
        if pick == "unspents_from_db":
            return {"op": "unspents_from_db", "missing": None, "ignore_missing": rng.random() < 0.3}
        if pick == "from_db_missing":
            return {"op": "unspents_from_db", "missing": rng.choice(st["ins"]) if rng.random() < 0.7 else spare(st),
                    "ignore_missing": rng.random() < 0.7}
        if pick == "parse_unspents":
            recs = mk_recs(st["ins"], form="txout")
            if rng.random() < 0.2:
                recs[rng.randrange(len(recs))] = None
            return {"op": "parse_unspents", "recs": recs}
        if pick in ("unspent_replace", "unspent_none") and m:
            i = rng.randrange(m)
            rec = None if pick == "unspent_none" else mk_rec(st["ins"][i] if i < n else spare(st), 0.5)
            return {"op": "unspent_replace", "i": i, "rec": rec}
        if pick == "unspent_value" and m:
            i = rng.randrange(m)
            c = st["ins"][i] if i < n else None
            v = coins[c]["coin_value"] if c is not None and rng.random() < 0.5 else \
                rng.choice([1, 546, (st["unsp"][i] or {"v": 7})["v"] + rng.choice([1, 1000]), rng.randrange(1, MAXV)])
            return {"op": "unspent_value", "i": i, "v": v}
        if pick == "unspent_script" and m:
            i = rng.randrange(m)
            c = st["ins"][i] if i < n else None
            return {"op": "unspent_script", "i": i, "s": coins[c]["script"] if c is not None and rng.random() < 0.5 else G.rbytes(rng, 5)}
        if pick == "unspents_assign":
            recs = mk_recs(st["ins"])
            r = rng.random()
            if r < 0.25:
                recs = recs + [mk_rec(spare(st), 0.0) for _ in range(rng.choice([1, 1, 3]))]
            elif r < 0.45:
                recs = recs[:-1]
            return {"op": "unspents_assign", "recs": recs}
        if pick == "unspents_append":
            return {"op": "unspents_append", "rec": mk_rec(st["ins"][m] if m < n else spare(st), 0.2)}
        if pick == "unspents_pop" and m:
            return {"op": "unspents_pop", "i": m - 1 if rng.random() < 0.7 else rng.randrange(m)}
        if pick == "input_pop" and n > 1:
            return {"op": "input_pop", "i": n - 1 if rng.random() < 0.5 else rng.randrange(n), "with_unspent": rng.random() < 0.4}
        if pick == "input_append":
            c = spare(st)
            return {"op": "input_append", "coin": c, "rec": mk_rec(c, 0.2) if m == n and rng.random() < 0.5 else None}
        if pick == "output_value" and st["outs"]:
            j = rng.randrange(len(st["outs"]))
            return {"op": "output_value", "j": j, "v": rng.choice([1, st["outs"][j] + 1, max(1, st["outs"][j] - 1), rng.randrange(1, 10 ** 9)])}
        if pick == "output_append":
            return {"op": "output_append", "v": rng.choice([1, 546, rng.randrange(1, 10 ** 9)])}
        if pick == "output_pop" and len(st["outs"]) > 1:
            return {"op": "output_pop"}
        if pick == "outputs_assign":
            return {"op": "outputs_assign", "values": [rng.choice([1, 546, rng.randrange(1, 10 ** 9)]) for _ in range(rng.choice([1, 2, 3]))]}
        if pick == "redistribute" and st["outs"]:
            klass, cands = _hist_reference(st, coins)
            if klass == "consistent":
                nz = rng.choice([1, 1, 2, len(st["outs"])])
                zero_at = sorted(rng.sample(range(len(st["outs"])), min(nz, len(st["outs"]))))
                left = cands[0][0] - sum(v for j, v in enumerate(st["outs"]) if j not in zero_at)
                fee = rng.choice([0, 1, max(0, left - len(zero_at)), max(0, left // 2), max(0, left - len(zero_at) + 1), left + 5])
                return {"op": "redistribute", "zero_at": zero_at, "fee": max(0, fee)}
        return None

    if rng.random() < 0.85:
        steps.append(query(0))
    for _ in range(n_rounds):
        if len(states) == 1 and rng.random() < 0.2:
            src = states[0]
            recs = mk_recs(src["ins"], 0.6)
            step = {"op": "twin", "via": rng.choice(["from_bin", "ctor", "roundtrip"]), "recs": recs}
            steps.append(step)
            states.append({"ins": list(src["ins"]), "outs": list(src["outs"]), "unsp": _hist_twin_unspents(src, step, coins)})
            if rng.random() < 0.5:
                steps.append(query(1))
        for _ in range(rng.choice([1, 1, 1, 2])):
            on = rng.randrange(len(states))
            for _attempt in range(8):
                step = mutator(on)
                if step is None:
                    continue
                step["on"] = on
                trial = _hist_copy(states[on])
                if _hist_expected_ok(trial, step, coins):
                    _hist_apply(trial, step, coins)
                if trial["outs"] is not None and trial["ins"] and _hist_reference(trial, coins)[0] != "unjudged":
                    states[on] = trial
                    steps.append(step)
                    break
        qs = [query(on) for on in rng.sample(range(len(states)), len(states))]
        if len(states) == 2 and rng.random() < 0.5:
            qs = qs[:1]
        steps.extend(qs)
    return entry, steps


def _hist_obj(Tx, coins, r):
    if r is None:
        return None
    if r["coin"] is None:
        return Tx.TxOut(r["v"], r["s"])
    c = coins[r["coin"]]
    return Tx.Spendable(r["v"], r["s"], c["tx_hash"], c["tx_out_index"])


def _hist_read(tx, coins):
    """the model state as the public attributes of the object show it (used after a mutator did not return normally)"""
    by_outpoint = {(c["tx_hash"], c["tx_out_index"]): i for i, c in enumerate(coins)}
    unsp = []
    for u in tx.unspents:
        if u is None:
            unsp.append(None)
        else:
            h = getattr(u, "tx_hash", None)
            unsp.append({"coin": by_outpoint.get((bytes(h), u.tx_out_index)) if h is not None else None, "v": u.coin_value, "s": bytes(u.script)})
    return {"ins": [by_outpoint.get((bytes(t.previous_hash), t.previous_index), -1) for t in tx.txs_in],
            "outs": [o.coin_value for o in tx.txs_out], "unsp": unsp}


def _hist_build(name, net, coins, entry):
    Tx = net.tx
    ins = entry["ins"]
    if entry["via"] == "create_tx":
        fields = [{"coin_value": r["v"], "script": r["s"], "tx_hash": coins[c]["tx_hash"], "tx_out_index": coins[c]["tx_out_index"],
                   "block_index_available": 0, "does_seem_spent": 0, "block_index_spent": 0} for c, r in zip(ins, entry["recs"])]
        forms = [entry["form"] if entry["form"] != "mixed" else ("object", "text", "dict")[i % 3] for i in range(len(fields))]
        spendables = [_as_form(Tx.Spendable, f, fm) for f, fm in zip(fields, forms)]
        return net.tx_utils.create_tx(spendables, _payables(_addresses(name, net), entry["amounts"], None, style="bare"), entry["fee"],
                                      lock_time=entry["lock_time"], version=entry["version"])
    txs_in = [Tx.TxIn(coins[c]["tx_hash"], coins[c]["tx_out_index"]) for c in ins]
    txs_out = [Tx.TxOut(v, b"\x51") for v in entry["outs"]]
    if entry["via"] == "manual":
        tx = Tx(entry["version"], txs_in, txs_out, entry["lock_time"])
        tx.set_unspents([_hist_obj(Tx, coins, r) for r in entry["recs"]])
        return tx
    if entry["via"] == "ctor":
        recs = entry["recs"]
        return Tx(entry["version"], txs_in, txs_out, entry["lock_time"], unspents=None if recs is None else [_hist_obj(Tx, coins, r) for r in recs])
    tail = b"".join(R.ser_out({"value": 0, "script": b""} if r is None else {"value": r["v"], "script": r["s"]}) for r in (entry.get("recs") or []))
    return Tx.from_bin(Tx(entry["version"], txs_in, txs_out, entry["lock_time"]).as_bin() + tail)


def _hist_do(net, tx, step, coins, fresh_db):
    """carry out one mutator on the real object. unspents_from_db gets a database of its own: the records it installs are the
    output objects of that database's transactions, and the in-place edits of later steps must not reach the database the
    verifications use"""
    Tx = net.tx
    op = step["op"]
    if op == "set_unspents":
        tx.set_unspents([_hist_obj(Tx, coins, r) for r in step["recs"]])
    elif op == "unspents_assign":
        tx.unspents = [_hist_obj(Tx, coins, r) for r in step["recs"]]
    elif op == "parse_unspents":
        import io
        tx.parse_unspents(io.BytesIO(b"".join(R.ser_out({"value": 0, "script": b""} if r is None else {"value": r["v"], "script": r["s"]})
                                              for r in step["recs"])))
    elif op == "unspents_from_db":
        db = fresh_db()
        if step["missing"] is not None:
            del db[coins[step["missing"]]["tx_hash"]]
        if step["ignore_missing"]:
            tx.unspents_from_db(db, ignore_missing=True)
        else:
            tx.unspents_from_db(db)
    elif op == "unspent_replace":
        tx.unspents[step["i"] % len(tx.unspents)] = _hist_obj(Tx, coins, step["rec"])
    elif op == "unspent_value":
        tx.unspents[step["i"] % len(tx.unspents)].coin_value = step["v"]
    elif op == "unspent_script":
        tx.unspents[step["i"] % len(tx.unspents)].script = step["s"]
    elif op == "unspents_append":
        tx.unspents.append(_hist_obj(Tx, coins, step["rec"]))
    elif op == "unspents_pop":
        tx.unspents.pop(step["i"] % len(tx.unspents))
    elif op == "input_pop":
        j = step["i"] % len(tx.txs_in)
        tx.txs_in.pop(j)
        if step["with_unspent"] and j < len(tx.unspents):
            tx.unspents.pop(j)
    elif op == "input_append":
        c = coins[step["coin"]]
        tx.txs_in.append(Tx.TxIn(c["tx_hash"], c["tx_out_index"]))
        if step.get("rec") is not None:
            tx.unspents.append(_hist_obj(Tx, coins, step["rec"]))
    elif op == "output_value":
        tx.txs_out[step["j"] % len(tx.txs_out)].coin_value = step["v"]
    elif op == "output_append":
        tx.txs_out.append(Tx.TxOut(step["v"], b"\x52"))
    elif op == "output_pop":
        tx.txs_out.pop()
    elif op == "outputs_assign":
        tx.txs_out = [Tx.TxOut(v, b"\x53") for v in step["values"]]
    elif op == "redistribute":
        for j in step["zero_at"]:
            tx.txs_out[j % len(tx.txs_out)].coin_value = 0
        net.tx_utils.distribute_from_split_pool(tx, step["fee"])
    else:
        raise ValueError("unknown history step %r" % op)


class _NoRec(object):
    def ev(self, *a, **k):
        pass


def _hist_judge_query(rec, viol, tx, st, coins, step, db_objs, reported):
    """one query step: each reading against the reference computed afresh from the model. viol(family, stale, observed, expected)"""
    klass, cands = _hist_reference(st, coins)
    rec.ev("history.state." + klass)
    out_sum = sum(st["outs"])
    got = {}
    for q in step["q"]:
        rec.ev("history.read.%s.%s" % (q, klass if q != "total_out" else "any"))
        if q == "validate" and klass == "consistent":
            rec.ev("history.validate." + ("discrepant" if cands[0][1] else "faithful"))
        if q == "total_out":
            rec.ev("Tx.total_out")
            s, r = observe(tx.total_out)
            if s != "ok" or r != out_sum:
                viol("tx.total_out.mismatch", s == "ok" and r in reported["total_out"], r, out_sum)
            if s == "ok":
                reported["total_out"].append(r)
                got[q] = r
            continue
        if q == "validate":
            rec.ev("Tx.validate_unspents")
            db = _Getter(db_objs) if step.get("db_form") == "getter" else db_objs
            s, r = observe(tx.validate_unspents, db)
            name_, off = "validate_unspents", out_sum
        else:
            rec.ev("Tx." + q)
            s, r = observe(getattr(tx, q))
            name_, off = "tx." + q, (out_sum if q == "fee" else 0)
        stale = s == "ok" and r in (reported["total_in"] if q == "total_in" else reported["fee"])
        if s == "ok":
            reported["total_in" if q == "total_in" else "fee"].append(r)
            if q != "validate":
                got[q] = r
        if klass == "unjudged":
            continue
        if klass == "unrecorded":
            if s == "ok":
                viol(name_ + ".number_with_unrecorded_input", stale, r, "no number: an input has no recorded amount")
            else:
                rec.ev("history.refused")
            continue
        honest = [c - off for c, bad in cands if not bad]
        if q == "validate":
            if s == "ok":
                if not honest:
                    kinds = set()
                    n = len(st["ins"])
                    for c, u in zip(st["ins"], st["unsp"][:n]):
                        if u is not None and u["v"] != coins[c]["coin_value"]:
                            kinds.add("amount")
                        if u is not None and u["s"] != coins[c]["script"]:
                            kinds.add("script")
                    viol("validate_unspents.accepts_discrepancy." + ("_and_".join(sorted(kinds)) or "amount"), False, r, "does not return normally")
                elif r not in honest:
                    if klass == "surplus":
                        viol("validate_unspents.surplus_unspents_counted", stale, r, "refuses, or one of %r" % (honest,))
                    else:
                        viol("validate_unspents.wrong_fee", stale, r, honest[0])
            elif klass == "consistent" and honest:
                viol("validate_unspents.rejects_matching", False, r, honest[0])
            else:
                rec.ev("history.refused")
            continue
        allowed = [c - off for c, bad in cands]
        if s != "ok":
            if klass == "consistent":
                viol(name_ + ".refuses_complete_records", False, r, allowed[0])
            else:
                rec.ev("history.refused")
        elif r not in allowed:
            if klass == "surplus":
                viol(name_ + ".surplus_unspents_counted", stale, r, "refuses, or one of %r" % (allowed,))
            elif q == "fee":
                viol("tx.fee.not_in_minus_out", stale, r, allowed[0])
            else:
                viol("tx.total_in.mismatch", stale, r, allowed[0])
    if len(got) == 3 and got["fee"] != got["total_in"] - got["total_out"]:
        viol("tx.fee.not_total_in_minus_total_out", False, got["fee"], got["total_in"] - got["total_out"])


def _exec_history(name, net, case, rec=None):
    """run one history on fresh objects; returns [(family, stale, step index, observed, expected)]"""
    rec = rec or _NoRec()
    Tx = net.tx
    sources = case["sources"]
    coins = _hist_coins(sources)
    entry, steps = case["entry"], case["steps"]
    out = []

    def fresh_db():
        return {R.txid_bytes(s): G.to_pycoin(Tx, s) for s in sources}
    db_objs = fresh_db()
    rec.ev("history.entry." + entry["via"])
    s, tx = observe(_hist_build, name, net, coins, entry)
    if s != "ok":
        if _hist_entry_irregular(entry):
            # records that do not fit the inputs handed to the constructor / appended to the serialised form: nothing in the
            # statement makes the library take them; refusing them leaves no object to read a fee from
            rec.ev("history.entry_refused")
            return []
        return [("history.setup_failed", False, -1, tx, "transaction")]
    if _hist_entry_irregular(entry):
        rec.ev("history.entry_irregular_taken")
    if entry["via"] == "create_tx":
        rec.ev("create_tx")
        st = {"ins": list(entry["ins"]), "unsp": [dict(r) for r in entry["recs"]],
              "outs": model_build([r["v"] for r in entry["recs"]], entry["amounts"], entry["fee"])[1]}
    else:
        st = {"ins": list(entry["ins"]), "unsp": _hist_entry_unspents(entry), "outs": list(entry["outs"])}
    objs = [[tx, st, {"fee": [], "total_in": [], "total_out": []}]]
    for at, step in enumerate(steps):
        op = step["op"]
        if op == "twin":
            if len(objs) > 1:
                continue
            tx0, st0 = objs[0][0], objs[0][1]
            recs = step["recs"]

            def twin():
                if step["via"] == "from_bin":
                    t = Tx.from_bin(tx0.as_bin())
                    t.set_unspents([_hist_obj(Tx, coins, r) for r in recs])
                    return t
                if step["via"] == "roundtrip":
                    return Tx.from_hex(tx0.as_hex(include_unspents=True))
                return Tx(tx0.version, [Tx.TxIn(t.previous_hash, t.previous_index, t.script, t.sequence) for t in tx0.txs_in],
                          [Tx.TxOut(o.coin_value, o.script) for o in tx0.txs_out], tx0.lock_time,
                          unspents=[_hist_obj(Tx, coins, r) for r in recs])
            s, t2 = observe(twin)
            if s != "ok":
                if step["via"] == "roundtrip" and _hist_reference(st0, coins)[0] != "consistent":
                    rec.ev("history.twin_refused")      # serialising "with unspents" an object whose records do not fit may be refused
                    continue
                out.append(("history.setup_failed", False, at, t2, "second transaction object"))
                return out
            rec.ev("history.twin")
            objs.append([t2, {"ins": list(st0["ins"]), "outs": list(st0["outs"]), "unsp": _hist_twin_unspents(st0, step, coins)},
                         {"fee": [], "total_in": [], "total_out": []}])
            continue
        if step["on"] >= len(objs):
            continue
        o = objs[step["on"]]
        if op == "query":
            _hist_judge_query(rec, lambda fam, stale, obs, exp: out.append((fam, stale, at, obs, exp)), o[0], o[1], coins, step, db_objs, o[2])
            continue
        rec.ev("history.mutator." + _HIST_GROUP[op])
        s, e = observe(_hist_do, net, o[0], step, coins, fresh_db)
        if s == "ok":
            _hist_apply(o[1], step, coins)
            if o[1]["outs"] is None:
                o[1]["outs"] = [x.coin_value for x in o[0].txs_out]
        else:
            rec.ev("history.mutator_refused")
            s2, st2 = observe(_hist_read, o[0], coins)
            if s2 != "ok":
                return out
            o[1] = st2
    return out


_REDUCED = {}


def _run_history(name, net, rec, case):
    """execute, and for each family of disagreement reduce the history to the steps the disagreement needs, so that the
    mechanism key names the cause (which kind of change, and whether an earlier reading is needed) and the witness is short"""
    viols = _exec_history(name, net, case, rec)
    done = set()
    for fam, stale, at, obs, exp in viols:
        if fam in done or _REDUCED.get(fam, 0) >= 40:      # enough witnesses of this family from this shard
            continue
        done.add(fam)
        _REDUCED[fam] = _REDUCED.get(fam, 0) + 1
        if at < 0:
            rec.violation(fam, case, obs, exp)
            continue
        steps = list(case["steps"][:at + 1])

        def hit(steps2):
            for v in _exec_history(name, net, dict(case, steps=steps2)):
                if v[0] == fam and v[2] == len(steps2) - 1:
                    return v
            return None
        if hit(steps) is None:              # not reproducible on fresh objects: report as seen
            rec.violation(fam + ".unreduced", case, obs, exp)
            continue
        q1 = "validate" if fam.startswith("validate_unspents") else fam.split(".")[1]
        if q1 in steps[-1]["q"] and len(steps[-1]["q"]) > 1 and hit(steps[:-1] + [dict(steps[-1], q=[q1])]):
            steps[-1] = dict(steps[-1], q=[q1])
        changed = True
        while changed:
            changed = False
            i = len(steps) - 2
            while i >= 0:
                trial = steps[:i] + steps[i + 1:]
                if hit(trial):
                    steps, changed = trial, True
                i -= 1
        v = hit(steps)
        # the key: is an earlier reading needed, and which kinds of change lie between it (or construction) and the failing reading
        groups, read = set(), False
        for s_ in steps[:-1]:
            if s_["op"] == "query":
                groups, read = set(), True
            elif s_["op"] != "twin":
                groups.add(_HIST_GROUP[s_["op"]] if s_["on"] == steps[-1]["on"] else "other_object_" + _HIST_GROUP[s_["op"]])
            elif steps[-1]["on"] == 0:
                groups.add("second_object")        # (for a reading on the second object the step is its construction)
        mech = fam + ".after_" + ("+".join((["reading"] if read else []) + sorted(groups)) or "construction")
        rec.violation(mech, dict(case, steps=steps), v[3], v[4])


def _check_history(name, net, rng, rec):
    n_in = rng.choice([1, 1, 2, 2, 3, 4, 5])
    sources = [_source_tx(rng, rng.choice([1, 2, 3]), tag) for tag in range(rng.choice([n_in, n_in, max(1, n_in - 1)]) + 1)]
    coins = _hist_coins(sources)
    while len(coins) < n_in + 1:
        sources.append(_source_tx(rng, 3, len(sources)))
        coins = _hist_coins(sources)
    entry, steps = _gen_history(rng, coins, n_in)
    case = {"kind": "history", "net": name, "sources": sources, "entry": entry, "steps": steps}
    rec.case(("history", entry["via"], n_in, tuple((s["op"], s.get("on"), tuple(s.get("q", ()))) for s in steps)), nontrivial=True)
    _run_history(name, net, rec, case)


def run_history(spec, rec, nets):
    rng = shard_rng(spec["seed"], PROPERTY, spec["tier"], spec["shard"])
    names = list(nets)
    for i in range(spec["n"]):
        name = names[i % len(names)]
        _check_history(name, nets[name], rng, rec)
    rec.require("history.validate.faithful", "history.validate.discrepant", "history.read.total_out.any",
                *["history.read.%s.%s" % (q, k) for q in ("fee", "total_in", "validate") for k in ("consistent", "surplus", "unrecorded")])
    rec.require("Tx.fee", "Tx.total_in", "Tx.total_out", "Tx.validate_unspents", "history.twin", "history.refused", "history.mutator_refused",
                *(["history.state." + k for k in ("consistent", "surplus", "unrecorded")] + ["history.entry." + e for e in HIST_ENTRIES] +
                  ["history.mutator." + g for g in HIST_GROUPS if g != "construction"]))


# ---------------------------------------------------------------------------------------------
# converters

def _dec_strings(x, places):
    """spellings of x / 10^places as plain decimal strings with at most `places` fractional digits"""
    whole, frac = divmod(x, 10 ** places)
    full = "%d.%0*d" % (whole, places, frac)
    out = [full]
    stripped = full.rstrip("0")
    out.append(stripped[:-1] if stripped.endswith(".") else stripped)
    if frac == 0:
        out.append("%d" % whole)
        out.append("%d." % whole)
    out.append("00" + full)
    if whole == 0 and frac:
        out.append(stripped[1:])          # ".5"
    return out


def _check_convert(conv, x, rec, strings=True):
    cases = (("btc", 8, conv.satoshi_to_btc, conv.btc_to_satoshi), ("mbtc", 5, conv.satoshi_to_mbtc, conv.mbtc_to_satoshi))
    for unit, places, to_unit, to_sat in cases:
        case = {"kind": "convert", "unit": unit, "satoshi": x}
        rec.case(("conv", unit, x), nontrivial=x != 0)
        rec.ev("satoshi_to_" + unit)
        st, d = observe(to_unit, x)
        # exact = the returned number is x / 10^places as a rational (Fraction() of a Decimal / int / float is its exact value);
        # the statement does not fix the type of the result
        if st == "ok":
            st, exact = observe(lambda: Fraction(d) == Fraction(x, 10 ** places))
            exact = st == "ok" and exact
        if st != "ok" or not exact:
            rec.violation("convert.satoshi_to_%s.inexact" % unit, case, str(d) if st == "ok" else d, "%d / 10^%d" % (x, places))
        else:
            rec.ev(unit + "_to_satoshi")
            st, back = observe(to_sat, d)
            if st != "ok" or back != x:
                rec.violation("convert.%s_roundtrip" % unit, case, back, x)
            elif strings and isinstance(d, decimal.Decimal):
                # the decimal strings of the returned amount itself (what a caller prints and reads back)
                for s in (str(d), format(d, "f")):
                    rec.ev(unit + "_to_satoshi")
                    rec.ev("convert.printed_string")
                    st, v = observe(to_sat, s)
                    if st != "ok" or v != x:
                        rec.violation("convert.%s_to_satoshi.printed_string_inexact" % unit, dict(case, text=s), v, x)
                        break
        if strings:
            for s in _dec_strings(x, places):
                rec.ev(unit + "_to_satoshi")
                rec.ev("convert.string")
                st, v = observe(to_sat, s)
                if st != "ok" or v != x:
                    rec.violation("convert.%s_to_satoshi.string_inexact" % unit, dict(case, text=s), v, x)
                    break
            ex = decimal.Decimal(x).scaleb(-places)     # exact: pure exponent shift
            rec.ev(unit + "_to_satoshi")
            rec.ev("convert.decimal")
            st, v = observe(to_sat, ex)
            if st != "ok" or v != x:
                rec.violation("convert.%s_to_satoshi.decimal_inexact" % unit, case, v, x)
        if x % 10 ** places == 0:
            # a whole number of units handed over as an int
            rec.ev(unit + "_to_satoshi")
            rec.ev("convert.int." + unit)
            st, v = observe(to_sat, x // 10 ** places)
            if st != "ok" or v != x:
                rec.violation("convert.%s_to_satoshi.int_inexact" % unit, case, v, x)


def _convert_sweep_values():
    vals = set(range(0, 3001))
    for p in range(1, 16):
        for d in range(-3, 4):
            vals.add(10 ** p + d)
            vals.add(3 * 10 ** p + d)
            vals.add(29 * 10 ** p + d)          # 0.29 is the classic float casualty
    for c in (10 ** 8, 10 ** 5, MAXV, MAXV // 2, 2 ** 31, 2 ** 32, 2 ** 53):
        for d in range(-1500, 1501):
            vals.add(c + d)
    return sorted(v for v in vals if 0 <= v <= MAXV)


def run_convert(spec, rec):
    from pycoin import convention as conv
    rec.require("satoshi_to_btc", "btc_to_satoshi", "satoshi_to_mbtc", "mbtc_to_satoshi", "convert.string", "convert.printed_string",
                "convert.decimal", "convert.int.btc", "convert.int.mbtc")
    if spec["kind"] == "convert_sweep":
        for x in _convert_sweep_values():
            _check_convert(conv, x, rec)
        rec.sample({"op": "satoshi_to_btc", "satoshi": 29000000, "expected": "0.29", "strings": _dec_strings(29000000, 8)})
        return
    rng = shard_rng(spec["seed"], PROPERTY, spec["tier"], spec["shard"])
    for i in range(spec["n"]):
        r = rng.random()
        if r < 0.4:
            x = rng.randrange(0, MAXV + 1)
        elif r < 0.6:
            x = rng.randrange(0, 10 ** rng.randrange(1, 16))
        elif r < 0.8:
            x = rng.randrange(0, 21 * 10 ** 6) * 10 ** 8 + rng.choice([0, 1, 10, 99999999, 50000000, 29000000, rng.randrange(10 ** 8)])
        else:
            x = min(MAXV, rng.randrange(1, 10 ** 6) * 10 ** rng.randrange(0, 10))
        _check_convert(conv, x, rec, strings=(i % 2 == 0))


# ---------------------------------------------------------------------------------------------

def run_shard(spec, rec):
    kind = spec["kind"]
    if kind.startswith("convert"):
        return run_convert(spec, rec)
    nets = _networks(rec)
    if kind == "split_exhaustive":
        rec.require("split_with_remainder")
        return run_split_exhaustive(spec, rec, nets)
    if kind == "build_sweep":
        rec.require(*["build.remainder." + c for c in ("neg", "lt_k", "eq_k", "k+1", "big", "no_unspecified")])
        rec.require("build.entry.create_tx", "build.entry.split_pool", "build.payables_mixed", "build.container.list", "build.container.tuple",
                    *["build.form." + f for f in ("object", "text", "dict", "mixed")])
        rec.require("create_tx", "distribute_from_split_pool", "expected_error", "expected_tx", "Tx.fee", "Tx.total_in", "Tx.total_out", "pairing",
                    "second_build", "aftermath.failed_build", *["aftermath." + g for g in sorted(set(_AFTER_GROUP.values()) | {"spendables_list_edit"})])
        return run_build_sweep(spec, rec, nets)
    if kind == "validate":
        return run_validate(spec, rec, nets)
    if kind == "history":
        return run_history(spec, rec, nets)
    rec.require("create_tx", "expected_error", "expected_tx", "aftermath.spendables_list_edit", "aftermath.second_build")
    rng = shard_rng(spec["seed"], PROPERTY, spec["tier"], spec["shard"])
    names = list(nets)
    for i in range(spec["n"]):
        name = names[i % len(names)]
        in_values, amounts, fee = _rand_build_params(rng)
        aftermath = [rng.choice(AFTERMATH) for _ in range(rng.choice([1, 1, 2, 3]))] if rng.random() < 0.4 else []
        _check_build(name, nets[name], rng, rec, in_values, amounts, fee, form=rng.choice(["object", "object", "text", "dict", "mixed"]),
                     via="create_tx" if rng.random() < 0.85 else "split_pool", aftermath=aftermath,
                     container="tuple" if rng.random() < 0.08 else "list",
                     extra={"lock_time": rng.choice([1, 499999999, 500000000, 0xffffffff]), "version": rng.choice([1, 2, 3])} if rng.random() < 0.2 else None)
        if i == 5:
            rec.sample({"op": "create_tx", "net": name, "in_values": in_values, "amounts(0=unspecified)": amounts, "fee": fee,
                        "model": model_build(in_values, amounts, fee)})


def replay_case(case, rec):
    kind = case.get("kind")
    if kind == "convert":
        from pycoin import convention as conv
        return _check_convert(conv, int(case["satoshi"]), rec)
    nets = _networks(rec)
    if kind == "split":
        net = nets["BTC"]
        got = list(net.tx_utils.split_with_remainder(int(case["total"]), int(case["count"])))
        exp = model_split(int(case["total"]), int(case["count"]))
        if got != exp:
            mech = "split.sum_mismatch" if sum(got) != int(case["total"]) else \
                "split.remainder_not_to_earlier" if sorted(got, reverse=True) == exp else "split.mismatch"
            rec.violation(mech, case, got, exp)
        return
    name = case.get("net", "BTC")
    if kind == "build":
        rng = shard_rng(0, PROPERTY, "replay", 0)
        for form in ([case.get("form", "object")] if case.get("via") == "split_pool" else ["object", "text", "dict", "mixed"]):
            _check_build(name, nets[name], rng, rec, [int(v) for v in case["in_values"]], [int(v) for v in case["amounts"]],
                         int(case["fee"]), form=form, via=case.get("via", "create_tx"), aftermath=case.get("aftermath") or (),
                         container=case.get("container", "list"),
                         extra={a: int(b) for a, b in case["extra"].items()} if case.get("extra") else None)
        return
    if kind == "validate":
        def recs(lst):
            return [dict(g, coin_value=int(g["coin_value"]), tx_out_index=int(g["tx_out_index"]), script=G._unpack_bytes(g["script"]),
                         tx_hash=G._unpack_bytes(g["tx_hash"])) for g in lst]

        def dbs(lst):
            return {G._unpack_bytes(e["hash"]): G.unpack(e["tx"]) for e in lst}
        disc = case["discrepancy"]
        setting = dict(PLAIN, history="G" if disc == "none" else "B")
        setting.update(case.get("setting") or {})
        side = (recs(case["recorded"]), dbs(case["db"]))
        sides = {"G": side, "B": None} if disc == "none" else \
            {"B": side, "G": (recs(case["good_recorded"]), dbs(case["good_db"])) if "good_recorded" in case else None}
        _judge_validate(name, nets[name], rec, case, sides, disc, setting)
        return
    if kind == "history":
        def fix_rec(r):
            return None if r is None else {"coin": None if r.get("coin") is None else int(r["coin"]), "v": int(r["v"]), "s": G._unpack_bytes(r["s"])}

        def fix(d):
            d = dict(d)
            for key in ("recs",):
                if d.get(key) is not None:
                    d[key] = [fix_rec(r) for r in d[key]]
            if "rec" in d:
                d["rec"] = fix_rec(d["rec"])
            if "s" in d:
                d["s"] = G._unpack_bytes(d["s"])
            for key in ("v", "fee", "i", "j", "coin", "missing", "on", "version", "lock_time"):
                if d.get(key) is not None:
                    d[key] = int(d[key])
            for key in ("ins", "outs", "amounts", "values", "zero_at"):
                if d.get(key) is not None:
                    d[key] = [int(v) for v in d[key]]
            return d
        c2 = {"kind": "history", "net": name, "sources": [G.unpack(s_) for s_ in case["sources"]], "entry": fix(case["entry"]),
              "steps": [fix(s_) for s_ in case["steps"]]}
        _run_history(name, nets[name], rec, c2)
        return
    raise ValueError("unknown case kind %r" % kind)
