"""C13 — building a transaction conserves value to the satoshi; fee arithmetic; spent-output authentication; exact unit conversion."""
import decimal
import hashlib
from fractions import Fraction

from vmon.probe import shard_rng, observe
from vmon.refs import txser as R
from vmon.gen import txgen as G

PROPERTY = "C13"
PRELOAD_NETWORK_ORDERS = [["btc", "xtn", "ltc", "bch", "grs", "doge", "dash", "btg"], ["btg", "grs", "bch", "doge", "ltc", "xtn", "btc"]]
LEVEL = "exploration"
TECHNIQUE = "integer arithmetic model of the split pool + single-discrepancy source databases + exact rational conversion oracle"
RULE = ("cases: (a) create_tx / distribute_from_split_pool builds with 1..8 spendables (objects, text, dict forms), payables mixing fixed "
        "amounts and 0..6 unspecified outputs, fees 0..sum(inputs); every remainder class R mod k for k<=8 and the boundary R in {k-1,k,k+1} "
        "are enumerated, the rest is seeded random; distinct by (k, n_in, n_out, R class, R mod k, spendable form); (b) split_with_remainder "
        "exhaustively for total<=80 x count<=9 and at 21e14-scale totals; (c) validate_unspents against a database of source transactions "
        "with no discrepancy and with exactly one (amount +-1, script byte/length, outputs swapped, wrong tx under the hash, missing tx, index "
        "out of range) at every input position; (d) the four converters on every amount 0..3000, neighbourhoods of 10^k, 10^8, 21e14 and "
        "random amounts, as Decimal, int and decimal strings in several spellings. Non-trivial: k>=1 or a discrepancy or amount != 0.")
ASSUMPTIONS = [
    "an output is 'unspecified' when its payable is a bare address or carries amount 0 (create_tx docstring); 'insufficient funds raise an "
    "error' is read under the statement's condition 'when some outputs are left unspecified' (k >= 1): with k = 0 the fee argument does not "
    "enter the transaction and only fee() = total_in() - total_out(), pairing and the fixed amounts are checked",
    "'raise an error' / 'never returns normally' = any exception",
    "specified outputs must carry exactly their specified amount, in payable order",
    "validate_unspents is also required to return (the fee) when every recorded amount and script equals the source's; without this the "
    "negative half would be vacuous",
    "a 'wrong tx under the hash' database entry is paired with a spendable that matches the wrong transaction, and a missing transaction "
    "with an amount discrepancy, so that in every judged case a recorded amount or script differs from the true source",
    "addresses come from network.address.for_p2pkh/for_p2sh/for_p2pkh_wit of the network under test (workload only; the output scripts are "
    "not judged here, that is C08)",
    "decimal strings are plain digit strings with at most 8 (BTC) / 5 (mBTC) fractional digits",
]
EXPLANATION = ("outputs, unspents, fee()/total_in()/total_out() of every built transaction are compared with a pure integer model written "
               "from the statement; validate_unspents must return the fee on a faithful database and must not return on any single "
               "discrepancy; converter results are compared as exact rationals")
TIMEOUT = {"quick": 600, "thorough": 3 * 3600}

NETS = ["BTC", "XTN", "LTC", "BCH", "BTG"]
MAXV = 21 * 10 ** 14


def exhaustive(tier):
    return False


def configurations(tier):
    return [{"networks": NETS}]


def plan(tier, seed):
    if tier == "quick":
        return ([{"kind": "split_exhaustive"}, {"kind": "build_sweep"}] + [{"kind": "build", "n": 10000} for _ in range(6)] +
                [{"kind": "validate", "n": 1500} for _ in range(5)] + [{"kind": "convert_sweep"}] + [{"kind": "convert", "n": 90000} for _ in range(2)])
    return ([{"kind": "split_exhaustive"}, {"kind": "build_sweep"}] + [{"kind": "build", "n": 600000} for _ in range(16)] +
            [{"kind": "validate", "n": 90000} for _ in range(12)] + [{"kind": "convert_sweep"}] + [{"kind": "convert", "n": 4500000} for _ in range(6)])


# ---------------------------------------------------------------------------------------------
# the arithmetic model (from the statement)

def model_split(total, count):
    """count positive-or-zero shares of total differing by at most one, earlier ones larger"""
    q, r = divmod(total, count)
    return [q + 1] * r + [q] * (count - r)


def model_build(in_values, amounts, fee):
    """amounts: list of ints, 0 = unspecified. Returns ("error", None) or ("ok", [output values])."""
    k = sum(1 for a in amounts if a == 0)
    if k == 0:
        return "ok", list(amounts)
    rem = sum(in_values) - sum(amounts) - fee
    if rem < 0 or rem < k:
        return "error", None
    shares = iter(model_split(rem, k))
    return "ok", [a if a else next(shares) for a in amounts]


def selftest(rec):
    n = 0
    # brute force: the only way to split T into k parts, each within one of the others, larger ones first
    for total in range(0, 40):
        for k in range(1, 8):
            sols = []

            def rec_(prefix, left, slots):
                if slots == 0:
                    if left == 0:
                        sols.append(prefix)
                    return
                hi = prefix[-1] if prefix else left
                for v in range(min(hi, left), -1, -1):
                    rec_(prefix + [v], left - v, slots - 1)
            rec_([], total, k)
            sols = [s for s in sols if max(s) - min(s) <= 1]
            assert sols == [model_split(total, k)], (total, k, sols)
            n += 1
    assert model_build([10], [0], 0) == ("ok", [10])
    assert model_build([10], [0, 0, 0], 0) == ("ok", [4, 3, 3])
    assert model_build([10], [0, 0, 0], 7) == ("ok", [1, 1, 1])
    assert model_build([10], [0, 0, 0], 8) == ("error", None)
    assert model_build([10], [4, 0], 6) == ("error", None)
    assert model_build([10], [4, 0], 5) == ("ok", [4, 1])
    assert model_build([10], [11, 0], 0) == ("error", None)
    assert model_build([3, 4], [2, 0, 1, 0], 1) == ("ok", [2, 2, 1, 1])
    assert model_build([3, 4], [20], 5) == ("ok", [20])
    # conversion oracle: 1 BTC = 10^8 satoshi, 1 mBTC = 10^5 satoshi (definition)
    assert Fraction(decimal.Decimal("20999999.99999999")) == Fraction(MAXV - 1, 10 ** 8)
    assert _dec_strings(123456789, 8)[0] == "1.23456789" and "1.5" in _dec_strings(150000000, 8) and "15" in _dec_strings(1500000, 5)
    assert R.selftest() == 3
    return {"split_uniqueness_bruteforce": n, "model_examples": 9}


# ---------------------------------------------------------------------------------------------

def _networks(rec=None):
    import importlib
    nets = {}
    for n in NETS:
        try:
            nets[n] = importlib.import_module("pycoin.symbols." + n.lower()).network
        except Exception as e:
            if rec is not None:
                rec.note("config_absent: network %s not importable (%s)" % (n, type(e).__name__))
    return nets


_ADDR = {}


def _addresses(name, net):
    if name not in _ADDR:
        out = []
        for k in range(6):
            h = hashlib.sha256(b"c13 address %d" % k).digest()
            for f, arg in (("for_p2pkh", h[:20]), ("for_p2sh", h[:20]), ("for_p2pkh_wit", h[:20]), ("for_p2sh_wit", h)):
                st, a = observe(getattr(net.address, f), arg)
                if st == "ok" and isinstance(a, str) and a:
                    out.append(a)
        assert len(out) >= 6, "no usable addresses for %s" % name
        _ADDR[name] = out
    return _ADDR[name]


def _mk_spendable_fields(rng, value, k):
    return {"coin_value": value, "script": G.rbytes(rng, rng.choice([0, 1, 23, 25, 25, 34])),
            "tx_hash": G.rbytes(rng, 31) + bytes([k + 1]), "tx_out_index": rng.choice([0, 0, 1, 2, 7, 0xfffffffe, rng.getrandbits(16)]),
            "block_index_available": rng.choice([0, 0, 1, 500000]), "does_seem_spent": 0, "block_index_spent": 0}


def _as_form(S, f, form):
    s = G.spendable_to_pycoin(S, f)
    if form == "object":
        return s
    if form == "text":
        return s.as_text()
    return s.as_dict()


def _payables(addrs, amounts, rng, style=None):
    out = []
    for j, a in enumerate(amounts):
        addr = addrs[(j * 7 + (rng.randrange(len(addrs)) if rng else 0)) % len(addrs)]
        if a == 0:
            st = style or rng.choice(["bare", "bare", "zero_tuple", "zero_list"])
            out.append(addr if st == "bare" else (addr, 0) if st == "zero_tuple" else [addr, 0])
        else:
            out.append((addr, a) if (rng is None or rng.random() < 0.8) else [addr, a])
    return out


def _judge_outputs(rec, case, got, exp, amounts, in_sum, fee, prefix):
    """classify a disagreement between built outputs and the model by the statement clause it breaks"""
    k = amounts.count(0)
    if len(got) != len(exp):
        rec.violation(prefix + ".output_count_changed", case, got, exp)
        return False
    if got == exp:
        return True
    unspec = [g for g, a in zip(got, amounts) if a == 0]
    if any(g != a for g, a in zip(got, amounts) if a != 0):
        mech = ".fixed_amount_changed"
    elif k and sum(got) + fee != in_sum:
        mech = ".value_not_conserved"
    elif any(u <= 0 for u in unspec):
        mech = ".nonpositive_split_output"
    elif max(unspec) - min(unspec) > 1:
        mech = ".uneven_split"
    elif any(b > a for a, b in zip(unspec, unspec[1:])):
        mech = ".remainder_not_to_earlier"
    else:
        mech = ".outputs_mismatch"
    rec.violation(prefix + mech, case, got, exp)
    return False


def _check_build(name, net, rng, rec, in_values, amounts, fee, form="object", via="create_tx", tag=None):
    """one build through create_tx (or Tx + distribute_from_split_pool) against the model"""
    Tx = net.tx
    S = Tx.Spendable
    addrs = _addresses(name, net)
    fields = [_mk_spendable_fields(rng, v, i) for i, v in enumerate(in_values)]
    case = {"kind": "build", "net": name, "in_values": list(in_values), "amounts": list(amounts), "fee": fee, "form": form, "via": via}
    k = amounts.count(0)
    verdict, exp = model_build(in_values, amounts, fee)
    in_sum = sum(in_values)
    rem = in_sum - sum(amounts) - fee
    rclass = "neg" if rem < 0 else "lt_k" if rem < k else "eq_k" if rem == k else "k+1" if rem == k + 1 else "big"
    rec.case(("build", via, form if via == "create_tx" else "", k, len(in_values), len(amounts), rclass, rem % k if k and rem >= 0 else -1,
              fee == 0, tag), nontrivial=k >= 1)
    if via == "create_tx":
        spendables = [_as_form(S, f, form if form != "mixed" else ("object", "text", "dict")[i % 3]) for i, f in enumerate(fields)]
        payables = _payables(addrs, amounts, rng)
        rec.ev("create_tx")
        st, tx = observe(net.tx_utils.create_tx, spendables, payables, fee)
    else:
        def build():
            t = Tx(1, [G.spendable_to_pycoin(S, f).tx_in() for f in fields], [Tx.TxOut(a, b"\x51") for a in amounts])
            t.set_unspents([G.spendable_to_pycoin(S, f) for f in fields])
            zc = net.tx_utils.distribute_from_split_pool(t, fee)
            if zc != k:
                rec.violation("split_pool.wrong_zero_count", case, zc, k)
            return t
        rec.ev("distribute_from_split_pool")
        st, tx = observe(build)
    if verdict == "error":
        rec.ev("expected_error")
        if st == "ok":
            rec.violation("build.insufficient_funds_not_rejected", case, [o.coin_value for o in tx.txs_out], "error")
        return
    rec.ev("expected_tx")
    if st != "ok":
        rec.violation("build.rejects_sufficient_funds", case, tx, exp)
        return
    got = [o.coin_value for o in tx.txs_out]
    _judge_outputs(rec, case, got, exp, amounts, in_sum, fee, "build")
    # fee arithmetic as reported by the transaction
    rec.ev("Tx.total_in")
    st1, ti = observe(tx.total_in)
    rec.ev("Tx.total_out")
    st2, to = observe(tx.total_out)
    rec.ev("Tx.fee")
    st3, fe = observe(tx.fee)
    if st1 != "ok" or ti != in_sum:
        rec.violation("tx.total_in.mismatch", case, ti, in_sum)
    if st2 != "ok" or to != sum(got):
        rec.violation("tx.total_out.mismatch", case, to, sum(got))
    if st3 != "ok" or fe != in_sum - sum(got):
        rec.violation("tx.fee.not_in_minus_out", case, fe, in_sum - sum(got))
    elif k and fe != fee:
        rec.violation("tx.fee.not_requested_fee", case, fe, fee)
    # pairing
    rec.ev("pairing")
    ok = len(tx.txs_in) == len(fields) and len(tx.unspents) == len(fields)
    if ok:
        for i, f in enumerate(fields):
            ti_, u = tx.txs_in[i], tx.unspents[i]
            if (bytes(ti_.previous_hash), ti_.previous_index) != (f["tx_hash"], f["tx_out_index"]) or u is None or \
                    (u.coin_value, bytes(u.script)) != (f["coin_value"], f["script"]) or \
                    (bytes(getattr(u, "tx_hash", f["tx_hash"])), getattr(u, "tx_out_index", f["tx_out_index"])) != (f["tx_hash"], f["tx_out_index"]):
                ok = False
                break
    if not ok:
        rec.violation("build.pairing_broken", case, "input/unspent %s" % ("count" if len(tx.txs_in) != len(fields) else "mismatch"), "unspents[i] is the spendable of txs_in[i]")
    return tx


def _rand_build_params(rng):
    n_in = rng.choice([1, 1, 2, 2, 3, 4, 5, 8])
    in_values = [rng.choice([1, 1, 2, 10 ** 8 - 1, 10 ** 8, 10 ** 8 + 1, MAXV, rng.randrange(1, 1000), rng.randrange(1, MAXV + 1),
                             rng.randrange(1, 10 ** 9)]) for _ in range(n_in)]
    total = sum(in_values)
    k = rng.choice([0, 1, 1, 2, 2, 3, 3, 4, 5, 6])
    n_fixed = rng.choice([0, 0, 1, 1, 2, 3]) if k else rng.choice([1, 2, 3])
    mode = rng.random()
    fixed = []
    budget = total
    for _ in range(n_fixed):
        v = rng.choice([1, 1, 546, rng.randrange(1, max(2, budget // 2 + 1)), rng.randrange(1, max(2, min(budget, 10 ** 6) + 1))])
        fixed.append(v)
        budget = max(0, budget - v)
    left = total - sum(fixed)
    # choose the remainder R deliberately, then derive the fee
    if k and left >= 0:
        r = rng.random()
        if r < 0.45:
            rem = rng.choice([k - 1, k, k + 1, 0, 1, 2 * k - 1, 2 * k, 2 * k + 1, k + rng.randrange(0, 3 * k + 1)])
        elif r < 0.55:
            rem = -rng.choice([1, 2, 1000])
        elif r < 0.75:
            rem = left - rng.choice([0, 0, 1, 1000, 10000])
        else:
            rem = rng.randrange(0, left + 1)
        fee = left - rem
        if fee < 0:
            fee = rng.choice([0, left]) if left >= 0 else 0
    else:
        fee = rng.choice([0, 0, 1, 10000, max(0, left), total, total + 1])
    amounts = fixed + [0] * k
    rng.shuffle(amounts)
    return in_values, amounts, fee


def run_build_sweep(spec, rec, nets):
    """every remainder class and boundary, every k, several input/fixed layouts, every spendable form, both entry points"""
    rng = shard_rng(spec["seed"], PROPERTY, "sweep", 0)
    names = list(nets)
    i = 0
    for k in range(1, 9):
        rems = sorted(set(list(range(0, 3 * k + 2)) + [10 ** 6 + r for r in range(k)] + [MAXV - 5000 + r for r in range(k)] + [-1, -2]))
        for rem in rems:
            for layout in range(4):
                fixed = [[], [7], [1, 5000], [3, 3, 3]][layout]
                fee = [0, 1, 10000, 12345][(layout + rem) % 4]
                need = rem + sum(fixed) + fee
                if need < 1:
                    need, fee = 1, 1 - rem - sum(fixed)        # keep at least one satoshi of input; R stays as chosen
                    if fee < 0:
                        continue
                n_in = 1 + (i % 3)
                in_values = [need - (n_in - 1)] + [1] * (n_in - 1) if need >= n_in else [need]
                if min(in_values) < 1 or sum(in_values) > 4 * MAXV:
                    continue
                amounts = list(fixed) + [0] * k
                if layout == 2:
                    amounts = [0] * (k // 2) + list(fixed) + [0] * (k - k // 2)
                elif layout == 3:
                    amounts = [0] + list(fixed) + [0] * (k - 1)
                name = names[i % len(names)]
                _check_build(name, nets[name], rng, rec, in_values, amounts, fee, form=("object", "text", "dict", "mixed")[i % 4],
                             via="create_tx" if i % 5 else "split_pool", tag="sweep")
                i += 1
    # k = 0: nothing to distribute
    for fee in (0, 5, 10 ** 9):
        for name in names:
            _check_build(name, nets[name], rng, rec, [1000, 2000], [1500, 100], fee, tag="sweep")
            _check_build(name, nets[name], rng, rec, [1000], [1500], fee, via="split_pool", tag="sweep")
    rec.sample({"op": "create_tx", "in_values": [10], "amounts(0=unspecified)": [0, 0, 0], "fee": 0, "expected_outputs": model_build([10], [0, 0, 0], 0)[1]})


def run_split_exhaustive(spec, rec, nets):
    net = nets["BTC"]
    rng = shard_rng(spec["seed"], PROPERTY, "split", 0)
    cases = [(t, c) for t in range(0, 81) for c in range(1, 10)]
    cases += [(MAXV - d, c) for d in range(0, 12) for c in (1, 2, 3, 5, 6, 7, 10, 100)]
    cases += [(rng.randrange(0, MAXV + 1), rng.choice([1, 2, 3, 4, 5, 6, 7, 9, 13, 50])) for _ in range(3000 if spec["tier"] == "quick" else 200000)]
    for total, count in cases:
        rec.ev("split_with_remainder")
        rec.case(("split", total if total < 100 else total % count, count, total >= 100), nontrivial=total > 0)
        st, got = observe(lambda: list(net.tx_utils.split_with_remainder(total, count)))
        exp = model_split(total, count)
        if st != "ok" or got != exp:
            case = {"kind": "split", "total": total, "count": count}
            if st == "ok" and sum(got) != total:
                mech = "split.sum_mismatch"
            elif st == "ok" and len(got) == count and sorted(got, reverse=True) == exp:
                mech = "split.remainder_not_to_earlier"
            else:
                mech = "split.mismatch"
            rec.violation(mech, case, got, exp)
    rec.sample({"op": "split_with_remainder", "total": 10, "count": 3, "expected": model_split(10, 3)})


# ---------------------------------------------------------------------------------------------
# validate_unspents

DISCREPANCIES = ["amount_plus", "amount_minus", "script_byte", "script_longer", "script_shorter", "swapped_output", "wrong_tx",
                 "missing_tx", "index_out_of_range", "index_far_out_of_range", "amount_and_script"]


def _source_tx(rng, n_out, tag):
    """a well-formed source transaction with n_out outputs of value 1..MAXV (sometimes with witness data: the id must ignore it)"""
    d = G.rand_tx(rng, n_in=rng.choice([1, 1, 2]), n_out=n_out, witness=rng.choice(["none", "none", "some", "all"]), p_edge=0.1,
                  max_big=0, distinct_outpoints=True)
    for j, o in enumerate(d["outs"]):
        o["value"] = rng.choice([1, 2, 546, 10 ** 8, MAXV, rng.randrange(1, MAXV + 1), rng.randrange(1, 10 ** 7)])
        o["script"] = G.rbytes(rng, rng.choice([1, 2, 23, 25, 25, 34, 67])) or b"\x51"
    d["lock_time"] = tag            # keeps source transactions (and so their hashes) distinct
    return d


def _check_validate(name, net, rng, rec, n_in, kind, pos):
    Tx = net.tx
    S = Tx.Spendable
    addrs = _addresses(name, net)
    sources = [_source_tx(rng, rng.choice([1, 2, 3, 5]), tag) for tag in range(n_in)]
    hashes = [R.txid_bytes(s) for s in sources]
    picks = [rng.randrange(len(s["outs"])) for s in sources]
    if rng.random() < 0.3 and n_in >= 2 and len(sources[0]["outs"]) >= 2:       # two inputs from the same source transaction
        sources[1], hashes[1] = sources[0], hashes[0]
        picks[0], picks[1] = 0, 1
    recorded = [{"coin_value": s["outs"][p]["value"], "script": s["outs"][p]["script"], "tx_hash": h, "tx_out_index": p,
                 "block_index_available": 0, "does_seem_spent": 0, "block_index_spent": 0} for s, h, p in zip(sources, hashes, picks)]
    db_src = {h: s for h, s in zip(hashes, sources)}
    f = recorded[pos]
    src = sources[pos]
    if kind == "amount_plus":
        f["coin_value"] += rng.choice([1, 1, 1000])
    elif kind == "amount_minus":
        if f["coin_value"] < 2:
            f["coin_value"] += 1
            kind = "amount_plus"
        else:
            f["coin_value"] -= 1
    elif kind == "script_byte":
        j = rng.randrange(len(f["script"]))
        f["script"] = f["script"][:j] + bytes([f["script"][j] ^ (1 << rng.randrange(8))]) + f["script"][j + 1:]
    elif kind == "script_longer":
        f["script"] = f["script"] + b"\x00"
    elif kind == "script_shorter":
        f["script"] = f["script"][:-1]
    elif kind == "amount_and_script":
        f["coin_value"] += 1
        f["script"] = b"\x6a" + f["script"]
    elif kind == "swapped_output":
        others = [q for q in range(len(src["outs"])) if q != f["tx_out_index"] and
                  (src["outs"][q]["value"], src["outs"][q]["script"]) != (f["coin_value"], f["script"])]
        if not others or hashes.count(hashes[pos]) > 1:
            f["coin_value"] += 1
            kind = "amount_plus"
        else:
            q = rng.choice(others)
            f["coin_value"], f["script"] = src["outs"][q]["value"], src["outs"][q]["script"]
    elif kind == "wrong_tx":
        # the database answers the hash with another transaction, and the spendable agrees with that other transaction
        w = _source_tx(rng, len(src["outs"]) + 1, 1000 + pos)
        wo = w["outs"][f["tx_out_index"]]
        if (wo["value"], wo["script"]) == (f["coin_value"], f["script"]):
            wo["value"] += 1
        for g in recorded:
            if g["tx_hash"] == hashes[pos]:
                g["coin_value"], g["script"] = w["outs"][g["tx_out_index"]]["value"], w["outs"][g["tx_out_index"]]["script"]
        db_src[hashes[pos]] = w
    elif kind == "missing_tx":
        f["coin_value"] += 1
        del db_src[hashes[pos]]
    elif kind in ("index_out_of_range", "index_far_out_of_range"):
        if hashes.count(hashes[pos]) > 1:
            f["coin_value"] += 1
            kind = "amount_plus"
        else:
            f["tx_out_index"] = len(src["outs"]) + (0 if kind == "index_out_of_range" else rng.choice([1, 2, 1000, 0xfffffff0]))
    case = {"kind": "validate", "net": name, "discrepancy": kind, "pos": pos,
            "recorded": [dict(g, script=g["script"], tx_hash=g["tx_hash"]) for g in recorded],
            "db": [{"hash": h, "tx": G.pack(s)} for h, s in db_src.items()]}
    _judge_validate(name, net, rec, case, recorded, db_src, kind, rng)


def _judge_validate(name, net, rec, case, recorded, db_src, kind, rng=None):
    Tx = net.tx
    S = Tx.Spendable
    addrs = _addresses(name, net)
    rec.case(("validate", kind, len(recorded), case.get("pos"), tuple(len(s["outs"]) for s in db_src.values())[:4],
              tuple(R.has_witness(s) for s in db_src.values())[:4]), nontrivial=True)
    db = {h: G.to_pycoin(Tx, s) for h, s in db_src.items()}
    in_sum = sum(g["coin_value"] for g in recorded)
    k = min(in_sum, 1 if rng is None else rng.choice([0, 1, 1, 2]))
    fee = min(in_sum - k, 1000)
    amounts = [0] * k if k else [max(1, in_sum - fee)]
    st, tx = observe(net.tx_utils.create_tx, [G.spendable_to_pycoin(S, g) for g in recorded], _payables(addrs, amounts, None, style="bare"), fee)
    if st != "ok":
        rec.violation("validate.setup_failed", case, tx, "transaction")
        return
    exp_fee = in_sum - sum(o.coin_value for o in tx.txs_out)
    rec.ev("Tx.validate_unspents")
    rec.ev("validate_unspents." + kind)
    st, r = observe(tx.validate_unspents, db)
    if kind == "none":
        if st != "ok":
            rec.violation("validate_unspents.rejects_matching", case, r, exp_fee)
        elif r != exp_fee:
            rec.violation("validate_unspents.wrong_fee", case, r, exp_fee)
    elif st == "ok":
        group = {"amount_plus": "amount", "amount_minus": "amount", "script_byte": "script", "script_longer": "script",
                 "script_shorter": "script", "amount_and_script": "amount_and_script", "swapped_output": "swapped_output",
                 "wrong_tx": "wrong_tx_under_hash", "missing_tx": "missing_tx", "index_out_of_range": "index_out_of_range",
                 "index_far_out_of_range": "index_out_of_range"}[kind]
        rec.violation("validate_unspents.accepts_discrepancy." + group, case, r, "does not return normally")


def run_validate(spec, rec, nets):
    rng = shard_rng(spec["seed"], PROPERTY, spec["tier"], spec["shard"])
    names = list(nets)
    for i in range(spec["n"]):
        name = names[i % len(names)]
        n_in = rng.choice([1, 1, 2, 2, 3, 4, 6, 8])
        kind = "none" if i % 4 == 0 else DISCREPANCIES[(i // 4 * 3 + i % 4 - 1) % len(DISCREPANCIES)]
        pos = rng.randrange(n_in) if i % 3 else (i // 3) % n_in
        _check_validate(name, nets[name], rng, rec, n_in, kind, pos)
    rec.require("Tx.validate_unspents", "validate_unspents.none", *["validate_unspents." + k for k in DISCREPANCIES if k != "amount_minus"])


# ---------------------------------------------------------------------------------------------
# converters

def _dec_strings(x, places):
    """spellings of x / 10^places as plain decimal strings with at most `places` fractional digits"""
    whole, frac = divmod(x, 10 ** places)
    full = "%d.%0*d" % (whole, places, frac)
    out = [full]
    stripped = full.rstrip("0")
    out.append(stripped[:-1] if stripped.endswith(".") else stripped)
    if frac == 0:
        out.append("%d" % whole)
        out.append("%d." % whole)
    out.append("00" + full)
    if whole == 0 and frac:
        out.append(stripped[1:])          # ".5"
    return out


def _check_convert(conv, x, rec, strings=True):
    cases = (("btc", 8, conv.satoshi_to_btc, conv.btc_to_satoshi), ("mbtc", 5, conv.satoshi_to_mbtc, conv.mbtc_to_satoshi))
    for unit, places, to_unit, to_sat in cases:
        case = {"kind": "convert", "unit": unit, "satoshi": x}
        rec.case(("conv", unit, x), nontrivial=x != 0)
        rec.ev("satoshi_to_" + unit)
        st, d = observe(to_unit, x)
        if st != "ok" or not isinstance(d, decimal.Decimal) or Fraction(d) != Fraction(x, 10 ** places):
            rec.violation("convert.satoshi_to_%s.inexact" % unit, case, str(d) if st == "ok" else d, "%d / 10^%d" % (x, places))
        else:
            rec.ev(unit + "_to_satoshi")
            st, back = observe(to_sat, d)
            if st != "ok" or back != x or isinstance(back, (float, decimal.Decimal)):
                rec.violation("convert.%s_roundtrip" % unit, case, back, x)
        if strings:
            for s in _dec_strings(x, places):
                rec.ev(unit + "_to_satoshi")
                st, v = observe(to_sat, s)
                if st != "ok" or v != x or isinstance(v, (float, decimal.Decimal)):
                    rec.violation("convert.%s_to_satoshi.string_inexact" % unit, dict(case, text=s), v, x)
                    break
            ex = decimal.Decimal(x).scaleb(-places)     # exact: pure exponent shift
            rec.ev(unit + "_to_satoshi")
            st, v = observe(to_sat, ex)
            if st != "ok" or v != x:
                rec.violation("convert.%s_to_satoshi.decimal_inexact" % unit, case, v, x)
    if x % 10 ** 8 == 0:
        rec.ev("btc_to_satoshi")
        st, v = observe(conv.btc_to_satoshi, x // 10 ** 8)
        if st != "ok" or v != x:
            rec.violation("convert.btc_to_satoshi.int_inexact", {"kind": "convert", "unit": "btc", "satoshi": x}, v, x)


def _convert_sweep_values():
    vals = set(range(0, 3001))
    for p in range(1, 16):
        for d in range(-3, 4):
            vals.add(10 ** p + d)
            vals.add(3 * 10 ** p + d)
            vals.add(29 * 10 ** p + d)          # 0.29 is the classic float casualty
    for c in (10 ** 8, 10 ** 5, MAXV, MAXV // 2, 2 ** 31, 2 ** 32, 2 ** 53):
        for d in range(-1500, 1501):
            vals.add(c + d)
    return sorted(v for v in vals if 0 <= v <= MAXV)


def run_convert(spec, rec):
    from pycoin import convention as conv
    rec.require("satoshi_to_btc", "btc_to_satoshi", "satoshi_to_mbtc", "mbtc_to_satoshi")
    if spec["kind"] == "convert_sweep":
        for x in _convert_sweep_values():
            _check_convert(conv, x, rec)
        rec.sample({"op": "satoshi_to_btc", "satoshi": 29000000, "expected": "0.29", "strings": _dec_strings(29000000, 8)})
        return
    rng = shard_rng(spec["seed"], PROPERTY, spec["tier"], spec["shard"])
    for i in range(spec["n"]):
        r = rng.random()
        if r < 0.4:
            x = rng.randrange(0, MAXV + 1)
        elif r < 0.6:
            x = rng.randrange(0, 10 ** rng.randrange(1, 16))
        elif r < 0.8:
            x = rng.randrange(0, 21 * 10 ** 6) * 10 ** 8 + rng.choice([0, 1, 10, 99999999, 50000000, 29000000, rng.randrange(10 ** 8)])
        else:
            x = min(MAXV, rng.randrange(1, 10 ** 6) * 10 ** rng.randrange(0, 10))
        _check_convert(conv, x, rec, strings=(i % 2 == 0))


# ---------------------------------------------------------------------------------------------

def run_shard(spec, rec):
    kind = spec["kind"]
    if kind.startswith("convert"):
        return run_convert(spec, rec)
    nets = _networks(rec)
    if kind == "split_exhaustive":
        rec.require("split_with_remainder")
        return run_split_exhaustive(spec, rec, nets)
    if kind == "build_sweep":
        rec.require("create_tx", "distribute_from_split_pool", "expected_error", "expected_tx", "Tx.fee", "Tx.total_in", "Tx.total_out", "pairing")
        return run_build_sweep(spec, rec, nets)
    if kind == "validate":
        return run_validate(spec, rec, nets)
    rec.require("create_tx", "expected_error", "expected_tx")
    rng = shard_rng(spec["seed"], PROPERTY, spec["tier"], spec["shard"])
    names = list(nets)
    for i in range(spec["n"]):
        name = names[i % len(names)]
        in_values, amounts, fee = _rand_build_params(rng)
        _check_build(name, nets[name], rng, rec, in_values, amounts, fee, form=rng.choice(["object", "object", "text", "dict", "mixed"]),
                     via="create_tx" if rng.random() < 0.85 else "split_pool")
        if i == 5:
            rec.sample({"op": "create_tx", "net": name, "in_values": in_values, "amounts(0=unspecified)": amounts, "fee": fee,
                        "model": model_build(in_values, amounts, fee)})


def replay_case(case, rec):
    kind = case.get("kind")
    if kind == "convert":
        from pycoin import convention as conv
        return _check_convert(conv, int(case["satoshi"]), rec)
    nets = _networks(rec)
    if kind == "split":
        net = nets["BTC"]
        got = list(net.tx_utils.split_with_remainder(int(case["total"]), int(case["count"])))
        exp = model_split(int(case["total"]), int(case["count"]))
        if got != exp:
            mech = "split.sum_mismatch" if sum(got) != int(case["total"]) else \
                "split.remainder_not_to_earlier" if sorted(got, reverse=True) == exp else "split.mismatch"
            rec.violation(mech, case, got, exp)
        return
    name = case.get("net", "BTC")
    if kind == "build":
        rng = shard_rng(0, PROPERTY, "replay", 0)
        for form in ([case.get("form", "object")] if case.get("via") == "split_pool" else ["object", "text", "dict", "mixed"]):
            _check_build(name, nets[name], rng, rec, [int(v) for v in case["in_values"]], [int(v) for v in case["amounts"]],
                         int(case["fee"]), form=form, via=case.get("via", "create_tx"))
        return
    if kind == "validate":
        recorded = [dict(g, coin_value=int(g["coin_value"]), tx_out_index=int(g["tx_out_index"]), script=G._unpack_bytes(g["script"]),
                         tx_hash=G._unpack_bytes(g["tx_hash"])) for g in case["recorded"]]
        db_src = {G._unpack_bytes(e["hash"]): G.unpack(e["tx"]) for e in case["db"]}
        _judge_validate(name, nets[name], rec, case, recorded, db_src, case["discrepancy"])
        return
    raise ValueError("unknown case kind %r" % kind)
