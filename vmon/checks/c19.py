"""C19 — hash primitives give standard digests in every configuration; murmur3 and BIP37 Bloom bits."""
import hashlib

from vmon.probe import shard_rng, observe
from vmon.refs import ripemd160 as RR, murmur3 as RM, b58 as RB

PROPERTY = "C19"
LEVEL = "exploration"
TECHNIQUE = ("differential runtime monitor vs hashlib + from-spec RIPEMD-160 and MurmurHash3/BIP37 references, one worker "
             "process per RIPEMD-160 configuration (native, PYCOIN_USE_PYTHON_RIPEMD160, simulated OpenSSL without ripemd160)")
RULE = ("cases: byte strings of every length 0..300 (zeros / 0xff / random; thorough: several random fills) plus 511..513, "
        "1023..1025, 10^4 (thorough 10^5, 10^6), random lengths to 2,048 biased to 64k+{0,1,54..57,62,63}, through hash160, double_sha256, hash.ripemd160 and contrib.ripemd160 in each "
        "configuration; murmur3 on every length 0..70 and 255..257, 4095..4097, 65535..65537, 70000 x seeds {0, 1, 2^31, "
        "2^32-1, 2^32, 2^64+5, 0xFBA4C795, random 32- and 70-bit}; Bloom filters of 1..36,000 bytes x 1..50 hash functions x "
        "tweaks (same list) x 0..12 items of 0..40, 65 bytes through add_item / add_hash160 / add_address / add_spendable. "
        "Non-trivial: every case (the empty input is a padding boundary); distinct by (operation, configuration, input).")
ASSUMPTIONS = [
    "hashlib SHA-256 is correct; RIPEMD-160 oracle is hashlib/OpenSSL when present, cross-checked on every run against the "
    "from-specification implementation in vmon/refs/ripemd160.py (Bosselaers' nine published vectors incl. one million 'a', "
    "every length 0..199 pure == native) which is also the fallback oracle",
    "vmon/refs/murmur3.py is MurmurHash3_x86_32 (self-tested on the SMHasher list, Core hash_tests.cpp vectors, Core "
    "bloom_tests.cpp bloom_create_insert_key filter with the public key derived from the WIF by the reference curve)",
    "seeds and tweaks wider than 32 bits are reduced mod 2^32 (uint32_t in MurmurHash3 and nTweak in BIP37)",
    "the 'OpenSSL without ripemd160' configuration is simulated inside the worker by making hashlib.new('ripemd160') raise "
    "ValueError before pycoin.encoding.hash is imported (as on Ubuntu 22); libsecp/pycrypto paths are absent here",
    "add_spendable's element is tx_hash || uint32-LE index as held by the Spendable (BIP37 outpoint serialisation)",
]
EXPLANATION = ("every digest / hash / filter returned by pycoin is compared byte for byte with the reference; in the "
               "pure-Python configurations a tap on pycoin.contrib.ripemd160.ripemd160 must see the calls made through "
               "hash160 (otherwise the configuration was not exercised and the run is inconclusive)")
TIMEOUT = {"quick": 600, "thorough": 3 * 3600}

ENV_PY = {"PYCOIN_USE_PYTHON_RIPEMD160": "1"}
SEEDS = [0, 1, 1 << 31, (1 << 32) - 1, 1 << 32, (1 << 64) + 5, 0xFBA4C795, 0x7fffffff, (1 << 32) + 1]


def exhaustive(tier):
    return False


def configurations(tier):
    return [{"name": "native", "env": {}, "ripemd160": "hashlib/OpenSSL" if RR.native_available() else "ABSENT in this interpreter"},
            {"name": "python", "env": ENV_PY, "ripemd160": "pycoin.contrib.ripemd160"},
            {"name": "sim_no_native", "env": {}, "ripemd160": "pycoin.contrib.ripemd160 after hashlib.new('ripemd160') fails (simulated)"}]


def plan(tier, seed):
    q = tier == "quick"
    shards = []
    parts = 2 if q else 6
    for cfg, env in (("native", {}), ("python", ENV_PY)):
        for p in range(parts):
            shards.append({"kind": "digests", "config": cfg, "env": dict(env), "part": p, "parts": parts,
                           "fills": 8 if q else 16, "big": [10000] if q else [10000, 100000, 1000000],
                           "n_random": 300 if q else 80000,
                           "label": "digests-%s-%d" % (cfg, p)})
    shards.append({"kind": "digests", "config": "sim_no_native", "env": {}, "part": 0, "parts": 1, "fills": 2 if q else 6,
                   "big": [10000], "n_random": 300 if q else 35000, "label": "digests-sim_no_native"})
    nm = 4 if q else 12
    for p in range(nm):
        shards.append({"kind": "murmur", "config": "native", "n": 9000 if q else 1500000, "part": p, "parts": nm, "label": "murmur%d" % p})
    nb = 5 if q else 12
    for p in range(nb):
        shards.append({"kind": "bloom", "config": "native", "n": 450 if q else 60000, "part": p, "label": "bloom%d" % p})
    return shards


def selftest(rec):
    return {"ripemd160": RR.selftest(), "murmur3_bloom_vectors": RM.selftest()}


# ---------------------------------------------------------------------------------------------

class _M(object):
    pass


def _simulate_no_native():
    """Make hashlib.new('ripemd160') fail the way an OpenSSL 3 without the legacy provider does."""
    import sys
    if "pycoin.encoding.hash" in sys.modules:
        return False
    orig = RR._hashlib_new

    def new(name, *a, **kw):
        if str(name).lower() in ("ripemd160", "rmd160", "ripemd"):
            raise ValueError("unsupported hash type %s" % name)
        return orig(name, *a, **kw)
    hashlib.new = new
    return True


def _imports(config, rec):
    m = _M()
    m.config = config
    if config == "sim_no_native":
        if not _simulate_no_native():
            raise RuntimeError("pycoin.encoding.hash already imported; cannot simulate a missing native ripemd160")
    import importlib
    st, mod = observe(importlib.import_module, "pycoin.encoding.hash")
    if st != "ok":
        rec.ev("import_hash_module")
        rec.violation("config.%s.hash_module_unusable" % config, {"kind": "import", "config": config}, mod, "importable")
        return None
    m.hash = mod
    import pycoin.contrib.ripemd160 as contrib
    m.contrib = contrib
    # tap: calls that reach the bundled implementation *through pycoin.encoding.hash*
    m.tap = [0]
    orig = contrib.ripemd160

    def tapped(data):
        m.tap[0] += 1
        return orig(data)
    tapped.__wrapped__ = orig
    contrib.ripemd160 = tapped
    m.contrib_direct = orig
    native = getattr(mod, "ripemd160_native", None)
    m.impl = "native" if (native is not None and mod.ripemd160 is native) else getattr(mod.ripemd160, "__name__", "?")
    rec.ev("impl_in_use:%s:%s" % (config, m.impl))
    return m


def _data(case):
    pat, L = case["pattern"], case["len"]
    if L == 0:
        return b""
    return (pat * (L // len(pat) + 1))[:L]


def check_digests(case, rec, M, want_pure_check=False):
    d = _data(case)
    cfg = M.config
    rec.case(("digest", cfg, d if len(d) <= 80 else (len(d), case["pattern"][:80])))
    exp_r = RR.digest(d)
    exp_h = RR.hash160(d)
    exp_d = RR.double_sha256(d)
    if want_pure_check and (RR.pure(d) != exp_r or RR.pure(hashlib.sha256(d).digest()) != exp_h):
        raise AssertionError("oracle: from-spec RIPEMD-160 disagrees with hashlib on len %d" % len(d))
    before = M.tap[0]
    rec.ev("hash160")
    st, got = observe(M.hash.hash160, d)
    if st != "ok" or bytes(got) != exp_h or len(got) != 20:
        rec.violation("hash160.%s.mismatch" % cfg, case, got, exp_h)
    if M.tap[0] > before:
        rec.ev("tap:contrib.ripemd160.via_hash160:" + cfg)
    rec.ev("double_sha256")
    st, got = observe(M.hash.double_sha256, d)
    if st != "ok" or bytes(got) != exp_d or len(got) != 32:
        rec.violation("double_sha256.mismatch", case, got, exp_d)
    rec.ev("ripemd160(data).digest()")
    st, got = observe(lambda: M.hash.ripemd160(d).digest())
    if st != "ok" or bytes(got) != exp_r or len(got) != 20:
        rec.violation("ripemd160.%s.mismatch" % cfg + _pad_class(len(d)), case, got, exp_r)
    rec.ev("contrib.ripemd160.ripemd160")
    st, got = observe(M.contrib_direct, d)
    if st != "ok" or bytes(got) != exp_r:
        rec.violation("contrib_ripemd160.mismatch" + _pad_class(len(d)), case, got, exp_r)


def _pad_class(L):
    """Which padding situation the length is in (part of the mechanism key, not of the verdict)."""
    r = L % 64
    return ".pad_spills_to_second_block" if r >= 56 else ".pad_fits"


def run_digests(spec, rec, M):
    rng = shard_rng(spec["seed"], PROPERTY, spec["tier"], spec["shard"])
    part, parts = spec["part"], spec["parts"]
    lengths = list(range(0, 301)) + [511, 512, 513, 1023, 1024, 1025] + list(spec["big"])
    i = 0
    for idx, L in enumerate(lengths):
        # lengths are dealt round-robin to the parts of one configuration; the one-megabyte input goes to part 0 only
        if (L > 100000 and part != 0) or (L <= 100000 and idx % parts != part):
            continue
        pats = [b"\x00", b"\xff"]
        nrand = max(1, spec["fills"] - 2) if L <= 1100 else 1
        for _ in range(nrand):
            pats.append(bytes(rng.getrandbits(8) for _ in range(min(max(L, 1), 300))))
        if L > 100000:
            pats = pats[2:3]
        for pat in pats:
            check_digests({"kind": "digest", "config": M.config, "len": L, "pattern": pat}, rec, M,
                          want_pure_check=(L <= 1100 and i % 7 == 0))
            i += 1
    # structured 32/33/65-byte inputs as hash160 sees them in practice
    for _ in range(60 * spec["fills"]):
        L = rng.choice([20, 32, 33, 65, 25, 34, 71, 72, 73, 105, 107, rng.randrange(0, 200)])
        check_digests({"kind": "digest", "config": M.config, "len": L, "pattern": bytes(rng.getrandbits(8) for _ in range(max(L, 1)))},
                      rec, M)
    # random lengths, biased to the padding boundaries of every block count up to 2000 bytes
    for _ in range(spec.get("n_random", 0)):
        r = rng.random()
        if r < 0.5:
            L = 64 * rng.randrange(0, 32) + rng.choice([0, 1, 54, 55, 56, 57, 62, 63])
        elif r < 0.9:
            L = rng.randrange(0, 600)
        else:
            L = rng.randrange(0, 2048)
        fill = rng.random()
        pat = bytes([rng.choice([0, 0x80, 0xff])]) if fill < 0.1 else bytes(rng.getrandbits(8) for _ in range(max(L, 1)))
        check_digests({"kind": "digest", "config": M.config, "len": L, "pattern": pat}, rec, M)
    if part == 0:
        d = bytes(range(119))
        rec.sample({"op": "hash160 / ripemd160", "config": M.config, "impl_in_use": M.impl, "data": d,
                    "hash160": observe(M.hash.hash160, d)[1], "ripemd160": observe(lambda: M.hash.ripemd160(d).digest())[1]})


# -- murmur -----------------------------------------------------------------------------------

def check_murmur(data_case, seed, rec, M):
    d = _data(data_case)
    rec.case(("mm", d if len(d) <= 80 else (len(d), data_case["pattern"][:40]), seed))
    exp = RM.murmur3_32(d, seed)
    rec.ev("murmur3")
    st, got = observe(M.bloom.murmur3, d, seed)
    if st != "ok" or got != exp or isinstance(got, bool):
        if seed >= (1 << 32) and st == "ok" and observe(M.bloom.murmur3, d, seed & 0xffffffff) == ("ok", exp):
            mech = "murmur3.mismatch.wide_seed_not_reduced"
        elif len(d) >= 65536 and st == "ok":
            mech = "murmur3.mismatch.long_input"
        else:
            mech = "murmur3.mismatch.tail%d" % (len(d) % 4)
        rec.violation(mech, dict(data_case, kind="murmur", seed=seed), got, exp)
    if seed == 0:
        rec.ev("murmur3.default_seed")
        st, got = observe(M.bloom.murmur3, d)
        if st != "ok" or got != exp:
            rec.violation("murmur3.mismatch.default_seed", dict(data_case, kind="murmur", seed=0, default=True), got, exp)


def _seed(rng):
    r = rng.random()
    if r < 0.4:
        return rng.choice(SEEDS)
    if r < 0.8:
        return rng.getrandbits(32)
    if r < 0.9:
        return rng.getrandbits(70) | (1 << 69)
    return (rng.randrange(0, 51) * 0xFBA4C795 + rng.getrandbits(32))       # an unreduced BIP37 seed


def run_murmur(spec, rec, M):
    rng = shard_rng(spec["seed"], PROPERTY, spec["tier"], spec["shard"])
    part, parts = spec["part"], spec["parts"]
    done = 0
    lengths = list(range(0, 71)) + [255, 256, 257, 1000, 4095, 4096, 4097, 65535, 65536, 65537, 70000]
    for idx, L in enumerate(lengths):
        if idx % parts != part:
            continue
        pats = (b"\x00", b"\xff", b"\x80", bytes(rng.getrandbits(8) for _ in range(min(max(L, 1), 128))))
        for pat in pats if L < 5000 else pats[2:]:
            for seed in SEEDS if L < 5000 else SEEDS[2:5]:
                check_murmur({"len": L, "pattern": pat}, seed, rec, M)
                done += 1
    while done < spec["n"]:
        L = rng.choice([0, 1, 2, 3, 4, 5, 6, 7, 8, 20, 32, 33, 36, 65, rng.randrange(0, 41), rng.randrange(0, 300)])
        pat = bytes(rng.getrandbits(8) for _ in range(max(L, 1)))
        if rng.random() < 0.1:
            pat = bytes([rng.choice([0, 0x7f, 0x80, 0xff])]) * max(L, 1)
        check_murmur({"len": L, "pattern": pat}, _seed(rng), rec, M)
        done += 1
    if part == 0:
        rec.sample({"op": "murmur3", "data": b"\x21\x43\x65", "seed": (1 << 64) + 5, "value": observe(M.bloom.murmur3, b"\x21\x43\x65", (1 << 64) + 5)[1]})


# -- bloom ------------------------------------------------------------------------------------

def check_bloom(case, rec, M):
    """case: size, k, tweak, items = list of [how, bytes, index?]."""
    size, k, tweak = case["size"], case["k"], int(case["tweak"])
    rec.case(("bloom", size, k, tweak, tuple((it[0], it[1]) for it in case["items"])))
    st, bf = observe(M.bloom.BloomFilter, size, k, tweak)
    if st != "ok":
        rec.violation("bloom.constructor_raises", case, bf, "filter")
        return
    elements = []
    for it in case["items"]:
        how, data = it[0], it[1]
        if how == "item":
            rec.ev("BloomFilter.add_item")
            st, r = observe(bf.add_item, data)
            elements.append(data)
        elif how == "hash160":
            rec.ev("BloomFilter.add_hash160")
            st, r = observe(bf.add_hash160, data)
            elements.append(data)
        elif how == "address":
            rec.ev("BloomFilter.add_address")
            addr = RB.encode_check(bytes([it[2]]) + data)
            st, r = observe(bf.add_address, addr)
            elements.append(data)
        else:
            rec.ev("BloomFilter.add_spendable")
            sp = M.Spendable(coin_value=1000, script=b"\x51", tx_hash=data, tx_out_index=it[2])
            st, r = observe(bf.add_spendable, sp)
            elements.append(data + int(it[2]).to_bytes(4, "little"))
        if st != "ok":
            rec.violation("bloom.add_raises." + how, case, r, None)
            return
    exp = RM.bip37_filter(elements, size, k, tweak)
    got = bytes(bf.filter_bytes)
    rec.ev("BloomFilter.filter_bytes")
    if got != exp:
        missing = any(e & ~g for e, g in zip(exp, got)) or len(got) != len(exp)
        extra = any(g & ~e for e, g in zip(exp, got))
        mech = "bloom.bits_mismatch." + ("wrong_positions" if missing and extra else "missing_bits" if missing else "extra_bits")
        rec.violation(mech, case, got[:64], exp[:64], detail={"set_expected": sum(bin(b).count("1") for b in exp),
                                                              "set_observed": sum(bin(b).count("1") for b in got)})
        return
    # every element is matched (a peer's contains()) through pycoin's own check_bit as well
    for e in elements[:3]:
        for pos in RM.bip37_positions(e, size, k, tweak):
            rec.ev("BloomFilter.check_bit")
            if bf.check_bit(pos) is not True:
                rec.violation("bloom.check_bit_false_for_added_element", case, pos, True)
                return
    st, params = observe(bf.filter_load_params)
    rec.ev("BloomFilter.filter_load_params")
    if st != "ok" or bytes(params[0]) != exp or params[1] != k or params[2] != tweak:
        rec.violation("bloom.filter_load_params_mismatch", case, params if st != "ok" else [params[1], params[2]], [k, tweak])


def _elements(case):
    return [it[1] + int(it[2]).to_bytes(4, "little") if it[0] == "spendable" else it[1] for it in case["items"]]


def _rand_bloom(rng, i):
    size = rng.choice([1, 1, 2, 3, 3, 7, 8, 9, 20, 64, 100, 1000, 4500, 35999, 36000, rng.randrange(1, 50), rng.randrange(1, 36001)])
    k = rng.choice([1, 2, 3, 5, 5, 8, 11, 20, 49, 50, rng.randrange(1, 51)])
    if size > 5000 and i % 4:
        size = rng.randrange(1, 600)
    tweak = rng.choice(SEEDS + [127, 2147483649, rng.getrandbits(32), rng.getrandbits(32), rng.getrandbits(66) | (1 << 65)])
    n_items = rng.choice([0, 1, 1, 1, 2, 3, 3, 5, 12])
    items = []
    for _ in range(n_items):
        r = rng.random()
        if r < 0.55:
            L = rng.choice([0, 1, 2, 3, 4, 5, 6, 7, 20, 32, 33, 36, 65, rng.randrange(0, 41)])
            items.append(["item", bytes(rng.getrandbits(8) for _ in range(L))])
        elif r < 0.7:
            items.append(["hash160", bytes(rng.getrandbits(8) for _ in range(20))])
        elif r < 0.85:
            items.append(["address", bytes(rng.getrandbits(8) for _ in range(20)), rng.choice([0, 5, 111, 196])])
        else:
            items.append(["spendable", bytes(rng.getrandbits(8) for _ in range(32)),
                          rng.choice([0, 1, 2, 255, 256, 65535, (1 << 32) - 1, rng.getrandbits(32)])])
    return {"kind": "bloom", "size": size, "k": k, "tweak": tweak, "items": items}


def run_bloom(spec, rec, M):
    rng = shard_rng(spec["seed"], PROPERTY, spec["tier"], spec["shard"])
    if spec["part"] == 0:
        # every hash-function count 1..50 and every small size with one fixed element; Core's bloom_create_insert_key
        for k in range(1, 51):
            for size in (1, 2, 3, 5, 8, 33):
                check_bloom({"kind": "bloom", "size": size, "k": k, "tweak": SEEDS[k % len(SEEDS)],
                             "items": [["item", bytes([k, size, 7])], ["item", b""]]}, rec, M)
        pub = bytes.fromhex("045b81f0017e2091e2edcd5eecf10d5bdd120a5514cb3ee65b8447ec18bfc4575c6d5bf415e54e03b1067934a0f0ba76b01c"
                            "6b9ab227142ee1d543764b69d901e0")
        check_bloom({"kind": "bloom", "size": 3, "k": 8, "tweak": 0,
                     "items": [["item", pub], ["hash160", bytes.fromhex("477abbacd4113f2e6b100526222eedd953c26a64")]]}, rec, M)
    for i in range(spec["n"]):
        c = _rand_bloom(rng, i)
        check_bloom(c, rec, M)
        if i == 0 and spec["part"] == 0:
            rec.sample({"op": "BloomFilter", "size": c["size"], "k": c["k"], "tweak": c["tweak"], "items": c["items"],
                        "filter_bytes_head": RM.bip37_filter(_elements(c), c["size"], c["k"], int(c["tweak"]))[:32]})


# ---------------------------------------------------------------------------------------------

def _bloom_imports(rec):
    m = _M()
    m.config = "native"
    import pycoin.bloomfilter as bloom
    from pycoin.symbols.btc import network
    m.bloom = bloom
    m.Spendable = network.tx.Spendable
    return m


def run_shard(spec, rec):
    kind = spec["kind"]
    if kind == "digests":
        rec.require("hash160", "double_sha256", "ripemd160(data).digest()", "contrib.ripemd160.ripemd160")
        M = _imports(spec["config"], rec)
        if M is None:
            return
        if spec["config"] in ("python", "sim_no_native"):
            # the configuration counts as exercised only if hash160 really went through the bundled implementation
            rec.require("tap:contrib.ripemd160.via_hash160:" + spec["config"])
        run_digests(spec, rec, M)
    elif kind == "murmur":
        rec.require("murmur3")
        run_murmur(spec, rec, _bloom_imports(rec))
    else:
        rec.require("BloomFilter.add_item", "BloomFilter.filter_bytes")
        run_bloom(spec, rec, _bloom_imports(rec))


def replay_case(case, rec):
    kind = case.get("kind")
    if kind in ("digest", "import"):
        import os
        cfg = case.get("config", "native")
        if cfg == "python" and not os.environ.get("PYCOIN_USE_PYTHON_RIPEMD160"):
            rec.note("replay of a 'python' configuration case without PYCOIN_USE_PYTHON_RIPEMD160 in the environment")
        M = _imports(cfg, rec)
        if M is not None and kind == "digest":
            check_digests(_fix(case), rec, M, want_pure_check=case["len"] <= 2000)
    elif kind == "murmur":
        M = _bloom_imports(rec)
        check_murmur(_fix(case), int(case["seed"]), rec, M)
    elif kind == "bloom":
        M = _bloom_imports(rec)
        c = dict(case)
        c["items"] = [[it[0], it[1] if isinstance(it[1], bytes) else b""] + list(it[2:]) for it in case["items"]]
        check_bloom(c, rec, M)
    else:
        raise ValueError("unknown case kind %r" % kind)


def _fix(case):
    c = dict(case)
    if not isinstance(c.get("pattern"), bytes):
        c["pattern"] = b"\x00"
    return c
