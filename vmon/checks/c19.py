"""C19 — hash primitives give standard digests in every configuration; murmur3 and BIP37 Bloom bits."""
import hashlib

from vmon.probe import shard_rng, observe
from vmon.refs import ripemd160 as RR, murmur3 as RM, b58 as RB

PROPERTY = "C19"
LEVEL = "exploration"
TECHNIQUE = ("differential runtime monitor vs hashlib + from-spec RIPEMD-160 and MurmurHash3/BIP37 references, one worker "
             "process per RIPEMD-160 configuration (native, PYCOIN_USE_PYTHON_RIPEMD160, simulated OpenSSL without ripemd160); "
             "also called from several threads at once under a 10 microsecond switch interval")
RULE = ("cases: byte strings of every length 0..300 (zeros / 0xff / random; thorough: several random fills) plus 511..513, "
        "1023..1025, 10^4 (thorough 10^5, 10^6), random lengths to 2,048 biased to 64k+{0,1,54..57,62,63}, through hash160, double_sha256, hash.ripemd160 and contrib.ripemd160 in each "
        "configuration; murmur3 on every length 0..70 and 255..257, 4095..4097, 65535..65537, 70000 x seeds {0, 1, 2^31, "
        "2^32-1, 2^32, 2^64+5, 0xFBA4C795, random 32- and 70-bit}; Bloom filters of 1..36,000 bytes x 1..50 hash functions x "
        "tweaks (same list) x 0..12 items of 0..40, 65 bytes through add_item / add_hash160 / add_address / add_spendable, an item "
        "now and then repeated; fixed grid: every count 1..50 x sizes 1,2,3,5,8,33, and sizes 36,000 / 35,999 / 1 x counts 1,11,50 "
        "with all four entry points and one element added twice (same and another entry point). "
        "Call HISTORIES (state kept between calls, on reused objects, at class/module level; aliasing of caller-owned buffers): "
        "random programs of 4..14 steps over 1..3 caller-owned bytearrays - hash the buffer itself or an immutable copy through "
        "hash160 / double_sha256 / hash.ripemd160 / contrib.ripemd160 (murmur3 positional and seed= spelling in the murmur shards), "
        "edit it in place (one byte, whole content, back to an earlier content, grow/shrink) and ask again, repeat / alternate values, "
        "keep several ripemd160 objects alive and read their digests later in another order (twice), make a failing call "
        "(None / str / int argument; murmur3 also a None / str / float seed) in between; the objects ripemd160() returned are USED by "
        "the caller the hashlib way between judged calls - update(chunk) (bytes, or a bytearray scribbled over afterwards), copy(), "
        "hexdigest(), digest() twice, a refused update(None / str / int) - for objects made from the EMPTY input and from a non-empty "
        "first chunk, followed by judged calls on the very bytes the object was made from and on other inputs (each use x first-chunk "
        "class x configuration is a required counter; where the object offers no update()/copy()/hexdigest(), as the pure-Python "
        "wrapper, the attempt is made and nothing is demanded of it); a bytearray argument must be left as it was and a returned "
        "bytearray is scribbled over by the caller; Bloom histories over 1..3 filters alive together (positional or keyword constructor): "
        "adds through the four entry points interleaved between filters, the public attributes tweak / hash_function_count reassigned "
        "between adds, filter_bytes replaced by a fresh zero array, a failing add (bad-checksum address, None to add_item / "
        "add_hash160, a str item, object without tx_hash, an outpoint index of 2**32 / None that does not fit its uint32 field) in between, elements passed as a bytearray the caller scribbles over afterwards; an element the history has "
        "already added (to this filter or to another one) or one of a per-shard 'wallet' of 7 keys / outpoints shared by all "
        "histories of the process added again, possibly through another entry point; filter_bytes and "
        "filter_load_params() read at intermediate points and at the end. "
        "Coverage counters (each required, per RIPEMD-160 configuration where it applies): every operation, lengths 0/55/56/63/64/"
        "119/120 and residues 0,1,55,56,63 beyond 128 bytes, murmur3 tail classes 0..3 / seed classes / no-full-block with wide seed / "
        ">= 65,536 bytes, Bloom entry points, tweak classes, counts 1 and 50, sizes 1 and 36,000, repeated elements. "
        "THE N-TH OPERATION: two long-run shards (native, pure-Python), each ONE process making 2**16+100 (thorough 2**17+100) "
        "ripemd160(data).digest() calls on fresh inputs (hash160 / double_sha256 beside them), in the native one also ONE returned "
        "RIPEMD-160 object fed 2**16+100 chunks by its caller against a running hashlib reference with fresh judged calls in between, "
        "2**16+100 murmur3 calls on fresh (input, seed) pairs and ONE 36,000-byte Bloom filter receiving 2**16+100 distinct elements "
        "through add_item / add_hash160 / add_spendable against a bit-by-bit model (the element's bits every add, the whole filter "
        "every 1,024 adds and around every power of two). "
        "SEVERAL THREADS OF ONE PROCESS: one shard per RIPEMD-160 configuration (native, PYCOIN_USE_PYTHON_RIPEMD160, simulated OpenSSL "
        "without ripemd160) in which 6 (thorough 8) threads released together by a barrier call hash160 / double_sha256 / "
        "ripemd160(data).digest() / contrib.ripemd160 at the same time, every thread on byte strings no other thread has (3-byte "
        "thread/index prefix; lengths 20, 32, 33, 65 and 64k+{0,1,54..57,62,63} over 1..4 blocks, native 1..8), each string hashed in "
        "2..3 rounds; in the native shard a second barrier phase puts every thread in murmur3 (its messages and elements x seeds of "
        "all classes) and in add_item / add_hash160 / add_spendable on a Bloom filter OF ITS OWN (sizes 1..36,000, 1..50 functions). "
        "Nothing is shared between the callers. sys.setswitchinterval(1e-5) during the threaded phase (restored afterwards) forces "
        "frequent thread switches; the threads only store what pycoin returned, the expected values were computed by the references "
        "before a thread existed and the comparison is made after join - on digests / hashes / filter bytes only, never on time. "
        "Required per configuration: every operation observed from the threads, completions of different threads alternating, "
        "at least one call during which another thread started or finished a call, messages of two and more blocks, and (pure-Python "
        "configurations) the tap on the bundled implementation reached from the threads; the number of threads, of digests, of "
        "thread changes between consecutive completions and of interleaved calls is written to the samples / notes of the evidence. "
        "Non-trivial: every case (the empty input is a padding boundary); distinct by (operation, configuration, input / program).")
ASSUMPTIONS = [
    "hashlib SHA-256 is correct; RIPEMD-160 oracle is hashlib/OpenSSL when present, cross-checked on every run against the "
    "from-specification implementation in vmon/refs/ripemd160.py (Bosselaers' nine published vectors incl. one million 'a', "
    "every length 0..199 pure == native) which is also the fallback oracle",
    "vmon/refs/murmur3.py is MurmurHash3_x86_32 (self-tested on the SMHasher list, Core hash_tests.cpp vectors, Core "
    "bloom_tests.cpp bloom_create_insert_key filter with the public key derived from the WIF by the reference curve)",
    "seeds and tweaks wider than 32 bits are reduced mod 2^32 (uint32_t in MurmurHash3 and nTweak in BIP37)",
    "the 'OpenSSL without ripemd160' configuration is simulated inside the worker by making hashlib.new('ripemd160') raise "
    "ValueError before pycoin.encoding.hash is imported (as on Ubuntu 22); libsecp/pycrypto paths are absent here",
    "add_spendable's element is tx_hash || uint32-LE index as held by the Spendable (BIP37 outpoint serialisation)",
    "adding an element a second time (to the same filter, or to another filter alive in the process) sets the positions BIP37 "
    "prescribes for it in that filter under its current parameters, like the first time",
    "filter_load_params() may announce the tweak it was given or its reduction mod 2^32 (nTweak is a uint32 on the wire); "
    "check_bit may answer with any true value",
    "a bytearray is a byte string: its digest is the standard digest of its content at the time of the call, and hashing it "
    "does not change it",
    "an object returned by ripemd160(data) that accepts update(chunk) is a RIPEMD-160 object fed data || chunk: its digest() / "
    "hexdigest() (either letter case) and those of its copy() are the standard digest of what it was fed; an update() that raises "
    "AttributeError (method not offered) or refuses a non-bytes argument fed nothing; after any other exception from update(), or "
    "an accepted non-bytes argument, that object is no longer judged; whatever the caller does with such an object has no "
    "influence on any other call",
    "'for every input' holds whichever thread of a process makes the call and whatever other threads are hashing meanwhile: the "
    "hash functions are functions of their argument, so N threads each hashing its own byte strings (and adding to its own Bloom "
    "filter) must each get the standard digests / the BIP37 bits; nothing is demanded of an object two threads use at once "
    "(no filter, buffer or hash object is shared between the threads of the workload)",
    "a Bloom filter announces filter_load_params(); an element added while (hash_function_count, tweak) had some value must set "
    "exactly the BIP37 positions for those values (the values a peer is told if the filter is loaded then); when a public "
    "attribute cannot be assigned (exception) or a deliberately invalid add does not raise, the history is dropped, not judged",
]
EXPLANATION = ("every digest / hash / filter returned by pycoin is compared byte for byte with the reference; in the "
               "pure-Python configurations a tap on pycoin.contrib.ripemd160.ripemd160 must see the calls made through "
               "hash160 and through ripemd160(data) (otherwise the configuration was not exercised and the run is inconclusive); "
               "a tap on hashlib.new reports (in a note, not as a requirement: a tree may clone a template object instead of calling "
               "hashlib.new every time) whether pycoin obtained its RIPEMD-160 objects from hashlib in the native configuration - the "
               "native digests themselves are required and judged; "
               "in a history the "
               "reference is evaluated on a snapshot of the caller's buffer taken just before each call and a Bloom model "
               "(one bit set per filter) follows every step; in the threaded shards a wrong answer is repeated alone after join to "
               "name the mechanism (only_when_called_concurrently / and_when_called_alone), and a witness is replayed by running the "
               "whole threaded workload of that configuration again")
TIMEOUT = {"quick": 600, "thorough": 3 * 3600}

ENV_PY = {"PYCOIN_USE_PYTHON_RIPEMD160": "1"}
SEEDS = [0, 1, 1 << 31, (1 << 32) - 1, 1 << 32, (1 << 64) + 5, 0xFBA4C795, 0x7fffffff, (1 << 32) + 1]


def exhaustive(tier):
    return False


def configurations(tier):
    return [{"name": "native", "env": {}, "ripemd160": "hashlib/OpenSSL" if RR.native_available() else "ABSENT in this interpreter"},
            {"name": "python", "env": ENV_PY, "ripemd160": "pycoin.contrib.ripemd160"},
            {"name": "sim_no_native", "env": {}, "ripemd160": "pycoin.contrib.ripemd160 after hashlib.new('ripemd160') fails (simulated)"}]


def plan(tier, seed):
    q = tier == "quick"
    shards = []
    parts = 2 if q else 6
    for cfg, env in (("native", {}), ("python", ENV_PY)):
        for p in range(parts):
            shards.append({"kind": "digests", "config": cfg, "env": dict(env), "part": p, "parts": parts,
                           "fills": 8 if q else 16, "big": [10000] if q else [10000, 100000, 1000000],
                           "n_random": 300 if q else 80000, "n_hist": 350 if q else 40000,
                           "label": "digests-%s-%d" % (cfg, p)})
    shards.append({"kind": "digests", "config": "sim_no_native", "env": {}, "part": 0, "parts": 1, "fills": 2 if q else 6,
                   "big": [10000], "n_random": 300 if q else 35000, "n_hist": 350 if q else 20000,
                   "label": "digests-sim_no_native"})
    nm = 4 if q else 12
    for p in range(nm):
        shards.append({"kind": "murmur", "config": "native", "n": 9000 if q else 1500000, "n_hist": 400 if q else 60000, "part": p, "parts": nm,
                       "label": "murmur%d" % p})
    nb = 5 if q else 12
    for p in range(nb):
        shards.append({"kind": "bloom", "config": "native", "n": 450 if q else 60000, "n_hist": 400 if q else 50000, "part": p, "label": "bloom%d" % p})
    # the N-th operation: more than 2**16 (thorough 2**17) operations on one process / one object, one shard per RIPEMD-160
    # configuration (murmur3 and the one Bloom filter ride in the native one)
    nlong = (1 << 16) + 100 if q else (1 << 17) + 100
    shards.append({"kind": "longrun", "config": "native", "env": {}, "n": nlong, "part": 0, "label": "longrun-native"})
    shards.append({"kind": "longrun", "config": "python", "env": dict(ENV_PY), "n": nlong, "part": 0, "label": "longrun-python"})
    # several threads of one process hashing at the same time, one shard per RIPEMD-160 configuration (murmur3 and one Bloom
    # filter per thread ride in the native one)
    for cfg, env in (("native", {}), ("python", ENV_PY), ("sim_no_native", {})):
        nat = cfg == "native"
        shards.append({"kind": "threads", "config": cfg, "env": dict(env), "threads": 6 if q else 8,
                       "n_msgs": (300 if q else 4000) if nat else (80 if q else 1200), "rounds": 3 if nat else 2,
                       "max_blocks": 8 if nat else 4, "bloom": nat, "n_bloom": 60 if q else 600, "part": 0,
                       "label": "threads-%s" % cfg})
    return shards


def selftest(rec):
    return {"ripemd160": RR.selftest(), "murmur3_bloom_vectors": RM.selftest()}


# ---------------------------------------------------------------------------------------------

class _M(object):
    pass


def _simulate_no_native():
    """Make hashlib.new('ripemd160') fail the way an OpenSSL 3 without the legacy provider does."""
    import sys
    if "pycoin.encoding.hash" in sys.modules:
        return False
    orig = RR._hashlib_new

    def new(name, *a, **kw):
        if str(name).lower() in _RIPEMD_NAMES:
            raise ValueError("unsupported hash type %s" % name)
        return orig(name, *a, **kw)
    hashlib.new = new
    return True


_RIPEMD_NAMES = ("ripemd160", "rmd160", "ripemd")


def _tap_native(m):
    """Count the RIPEMD-160 objects pycoin obtains from hashlib (the oracle uses the hashlib.new captured by refs/ripemd160
    at import, so its own calls are not counted).  Installed before pycoin.encoding.hash is imported."""
    m.ntap = [0]
    inner = hashlib.new
    if getattr(inner, "_c19_tap", None) is not None:          # replay in one process: keep one wrapper, move the counter
        inner._c19_tap[0] = m.ntap
        return

    holder = [m.ntap]

    def new(name, *a, **kw):
        h = inner(name, *a, **kw)
        if str(name).lower() in _RIPEMD_NAMES:
            holder[0][0] += 1
        return h
    new._c19_tap = holder
    hashlib.new = new


def _note_native_tap(rec, M):
    """The hashlib.new tap in the native configuration is evidence, not a requirement: say what it saw."""
    cfg = M.config
    missing = [w for w in ("via_hash160", "via_ripemd160") if not rec.counters.get("tap:hashlib.ripemd160.%s:%s" % (w, cfg))]
    st, h = observe(M.hash.ripemd160, b"abc")
    kind = "%s.%s" % (type(h).__module__, type(h).__name__) if st == "ok" else "unobtainable"
    rec.ev("native:ripemd160_object_is_" + ("hashlib_object" if kind.startswith(("_hashlib.", "hashlib.")) else "other_object"))
    if missing:
        rec.ev("native:hashlib.new_tap_silent")
        rec.note("native configuration: the hashlib.new tap saw no RIPEMD-160 request during %s (implementation in use: %s, "
                 "object returned: %s); the native digests were nevertheless observed and judged against the reference, "
                 "so this is reported, not required" % (" / ".join(missing), M.impl, kind))


def _imports(config, rec):
    m = _M()
    m.config = config
    if config == "sim_no_native":
        if not _simulate_no_native():
            raise RuntimeError("pycoin.encoding.hash already imported; cannot simulate a missing native ripemd160")
    _tap_native(m)
    import importlib
    import pycoin.contrib.ripemd160 as contrib
    m.contrib = contrib
    # tap: calls that reach the bundled implementation *through pycoin.encoding.hash* (installed before that module is
    # imported, so that it also sees a `from pycoin.contrib.ripemd160 import ripemd160` spelling)
    m.tap = [0]
    orig = contrib.ripemd160

    def tapped(data):
        m.tap[0] += 1
        return orig(data)
    tapped.__wrapped__ = orig
    contrib.ripemd160 = tapped
    m.contrib_direct = orig
    st, mod = observe(importlib.import_module, "pycoin.encoding.hash")
    if st != "ok":
        rec.ev("import_hash_module")
        rec.violation("config.%s.hash_module_unusable" % config, {"kind": "import", "config": config}, mod, "importable")
        return None
    m.hash = mod
    native = getattr(mod, "ripemd160_native", None)
    m.impl = "native" if (native is not None and mod.ripemd160 is native) else getattr(mod.ripemd160, "__name__", "?")
    rec.ev("impl_in_use:%s:%s" % (config, m.impl))
    return m


def _data(case):
    pat, L = case["pattern"], case["len"]
    if L == 0:
        return b""
    return (pat * (L // len(pat) + 1))[:L]


def _eqb(got, exp):
    """got is a byte string equal to exp (any bytes-like answer is accepted; a str / int / None answer is a mismatch)."""
    return isinstance(got, (bytes, bytearray, memoryview)) and bytes(got) == exp


_BOUNDARY_RESIDUES = (0, 1, 55, 56, 63)


def _len_class(L):
    """The padding situation of a length, for the coverage counters: the boundaries the property names and 'beyond'."""
    if L in (0, 55, 56, 63, 64, 119, 120):
        return "len=%d" % L
    if L > 128 and L % 64 in _BOUNDARY_RESIDUES:
        return "len>128,len%%64=%d" % (L % 64)
    return None


def _digest_requirements(cfg):
    req = ["config:%s:%s" % (cfg, op) for op in ("hash160", "double_sha256", "ripemd160(data).digest()", "contrib.ripemd160.ripemd160")]
    req += ["config:%s:ripemd160:len=%d" % (cfg, L) for L in (0, 55, 56, 63, 64, 119, 120)]
    req += ["config:%s:ripemd160:len>128,len%%64=%d" % (cfg, r) for r in _BOUNDARY_RESIDUES]
    return req


def check_digests(case, rec, M, want_pure_check=False):
    d = _data(case)
    cfg = M.config
    lc = _len_class(len(d))
    if lc is not None:
        rec.ev("config:%s:ripemd160:%s" % (cfg, lc))
    rec.case(("digest", cfg, d if len(d) <= 80 else (len(d), case["pattern"][:80])))
    exp_r = RR.digest(d)
    exp_h = RR.hash160(d)
    exp_d = RR.double_sha256(d)
    if want_pure_check and (RR.pure(d) != exp_r or RR.pure(hashlib.sha256(d).digest()) != exp_h):
        raise AssertionError("oracle: from-spec RIPEMD-160 disagrees with hashlib on len %d" % len(d))
    before, nbefore = M.tap[0], M.ntap[0]
    rec.ev("hash160")
    rec.ev("config:%s:hash160" % cfg)
    st, got = observe(M.hash.hash160, d)
    if st != "ok" or not _eqb(got, exp_h):
        rec.violation("hash160.%s.mismatch" % cfg, case, got, exp_h)
    if M.tap[0] > before:
        rec.ev("tap:contrib.ripemd160.via_hash160:" + cfg)
    if M.ntap[0] > nbefore:
        rec.ev("tap:hashlib.ripemd160.via_hash160:" + cfg)
    rec.ev("double_sha256")
    rec.ev("config:%s:double_sha256" % cfg)
    st, got = observe(M.hash.double_sha256, d)
    if st != "ok" or not _eqb(got, exp_d):
        rec.violation("double_sha256.mismatch", case, got, exp_d)
    before, nbefore = M.tap[0], M.ntap[0]
    rec.ev("ripemd160(data).digest()")
    rec.ev("config:%s:ripemd160(data).digest()" % cfg)
    st, got = observe(lambda: M.hash.ripemd160(d).digest())
    if st != "ok" or not _eqb(got, exp_r):
        rec.violation("ripemd160.%s.mismatch" % cfg + _pad_class(len(d)), case, got, exp_r)
    if M.tap[0] > before:
        rec.ev("tap:contrib.ripemd160.via_ripemd160:" + cfg)
    if M.ntap[0] > nbefore:
        rec.ev("tap:hashlib.ripemd160.via_ripemd160:" + cfg)
    rec.ev("contrib.ripemd160.ripemd160")
    rec.ev("config:%s:contrib.ripemd160.ripemd160" % cfg)
    st, got = observe(M.contrib_direct, d)
    if st != "ok" or not _eqb(got, exp_r):
        rec.violation("contrib_ripemd160.mismatch" + _pad_class(len(d)), case, got, exp_r)


def _pad_class(L):
    """Which padding situation the length is in (part of the mechanism key, not of the verdict)."""
    r = L % 64
    return ".pad_spills_to_second_block" if r >= 56 else ".pad_fits"


def run_digests(spec, rec, M):
    rng = shard_rng(spec["seed"], PROPERTY, spec["tier"], spec["shard"])
    part, parts = spec["part"], spec["parts"]
    lengths = list(range(0, 301)) + [511, 512, 513, 1023, 1024, 1025] + list(spec["big"])
    i = 0
    for idx, L in enumerate(lengths):
        # lengths are dealt round-robin to the parts of one configuration; the one-megabyte input goes to part 0 only
        if (L > 100000 and part != 0) or (L <= 100000 and idx % parts != part):
            continue
        pats = [b"\x00", b"\xff"]
        nrand = max(1, spec["fills"] - 2) if L <= 1100 else 1
        for _ in range(nrand):
            pats.append(bytes(rng.getrandbits(8) for _ in range(min(max(L, 1), 300))))
        if L > 100000:
            pats = pats[2:3]
        for pat in pats:
            check_digests({"kind": "digest", "config": M.config, "len": L, "pattern": pat}, rec, M,
                          want_pure_check=(L <= 1100 and i % 7 == 0))
            i += 1
    # structured 32/33/65-byte inputs as hash160 sees them in practice
    for _ in range(60 * spec["fills"]):
        L = rng.choice([20, 32, 33, 65, 25, 34, 71, 72, 73, 105, 107, rng.randrange(0, 200)])
        check_digests({"kind": "digest", "config": M.config, "len": L, "pattern": bytes(rng.getrandbits(8) for _ in range(max(L, 1)))},
                      rec, M)
    # random lengths, biased to the padding boundaries of every block count up to 2000 bytes
    for _ in range(spec.get("n_random", 0)):
        r = rng.random()
        if r < 0.5:
            L = 64 * rng.randrange(0, 32) + rng.choice([0, 1, 54, 55, 56, 57, 62, 63])
        elif r < 0.9:
            L = rng.randrange(0, 600)
        else:
            L = rng.randrange(0, 2048)
        fill = rng.random()
        pat = bytes([rng.choice([0, 0x80, 0xff])]) if fill < 0.1 else bytes(rng.getrandbits(8) for _ in range(max(L, 1)))
        check_digests({"kind": "digest", "config": M.config, "len": L, "pattern": pat}, rec, M)
    if part == 0:
        d = bytes(range(119))
        rec.sample({"op": "hash160 / ripemd160", "config": M.config, "impl_in_use": M.impl, "data": d,
                    "hash160": observe(M.hash.hash160, d)[1], "ripemd160": observe(lambda: M.hash.ripemd160(d).digest())[1]})


# -- murmur -----------------------------------------------------------------------------------

def check_murmur(data_case, seed, rec, M):
    d = _data(data_case)
    rec.case(("mm", d if len(d) <= 80 else (len(d), data_case["pattern"][:40]), seed))
    exp = RM.murmur3_32(d, seed)
    rec.ev("murmur3")
    rec.ev("murmur3.tail%d_bytes" % (len(d) % 4))
    rec.ev("murmur3.seed_wider_than_32_bits" if seed >> 32 else "murmur3.seed_top_bit_set" if seed >> 31 else "murmur3.seed_31_bits")
    if len(d) < 4 and seed >> 32:
        rec.ev("murmur3.no_full_block.seed_wider_than_32_bits")
    if len(d) >= 65536:
        rec.ev("murmur3.input_65536_bytes_or_more")
    st, got = observe(M.bloom.murmur3, d, seed)
    if st != "ok" or got != exp or isinstance(got, bool):
        if seed >= (1 << 32) and st == "ok" and observe(M.bloom.murmur3, d, seed & 0xffffffff) == ("ok", exp):
            mech = "murmur3.mismatch.wide_seed_not_reduced"
        elif len(d) >= 65536 and st == "ok":
            mech = "murmur3.mismatch.long_input"
        else:
            mech = "murmur3.mismatch.tail%d" % (len(d) % 4)
        rec.violation(mech, dict(data_case, kind="murmur", seed=seed), got, exp)
    if seed == 0:
        rec.ev("murmur3.default_seed")
        st, got = observe(M.bloom.murmur3, d)
        if st != "ok" or got != exp:
            rec.violation("murmur3.mismatch.default_seed", dict(data_case, kind="murmur", seed=0, default=True), got, exp)


def _seed(rng):
    r = rng.random()
    if r < 0.4:
        return rng.choice(SEEDS)
    if r < 0.8:
        return rng.getrandbits(32)
    if r < 0.9:
        return rng.getrandbits(70) | (1 << 69)
    return (rng.randrange(0, 51) * 0xFBA4C795 + rng.getrandbits(32))       # an unreduced BIP37 seed


def run_murmur(spec, rec, M):
    rng = shard_rng(spec["seed"], PROPERTY, spec["tier"], spec["shard"])
    part, parts = spec["part"], spec["parts"]
    done = 0
    lengths = list(range(0, 71)) + [255, 256, 257, 1000, 4095, 4096, 4097, 65535, 65536, 65537, 70000]
    for idx, L in enumerate(lengths):
        if idx % parts != part:
            continue
        pats = (b"\x00", b"\xff", b"\x80", bytes(rng.getrandbits(8) for _ in range(min(max(L, 1), 128))))
        for pat in pats if L < 5000 else pats[2:]:
            for seed in SEEDS if L < 5000 else SEEDS[2:5]:
                check_murmur({"len": L, "pattern": pat}, seed, rec, M)
                done += 1
    while done < spec["n"]:
        L = rng.choice([0, 1, 2, 3, 4, 5, 6, 7, 8, 20, 32, 33, 36, 65, rng.randrange(0, 41), rng.randrange(0, 300)])
        pat = bytes(rng.getrandbits(8) for _ in range(max(L, 1)))
        if rng.random() < 0.1:
            pat = bytes([rng.choice([0, 0x7f, 0x80, 0xff])]) * max(L, 1)
        check_murmur({"len": L, "pattern": pat}, _seed(rng), rec, M)
        done += 1
    if part == 0:
        rec.sample({"op": "murmur3", "data": b"\x21\x43\x65", "seed": (1 << 64) + 5, "value": observe(M.bloom.murmur3, b"\x21\x43\x65", (1 << 64) + 5)[1]})


# -- bloom ------------------------------------------------------------------------------------

def _bloom_param_events(rec, size, k, tweak):
    """Coverage counters for the parameter regions the property quantifies over (filters that receive an element)."""
    rec.ev("BloomFilter.tweak_wider_than_32_bits" if tweak >> 32 else "BloomFilter.tweak_32_bits")
    if (k - 1) * RM.BIP37_SEED_MUL + tweak >> 32:
        rec.ev("BloomFilter.seed_i*0xFBA4C795+tweak_exceeds_32_bits")
    if k == RM.MAX_HASH_FUNCS:
        rec.ev("BloomFilter.hash_function_count=50")
    if k == 1:
        rec.ev("BloomFilter.hash_function_count=1")
    if size == RM.MAX_BLOOM_FILTER_SIZE:
        rec.ev("BloomFilter.size=36000")
    if size == 1:
        rec.ev("BloomFilter.size=1")


_BLOOM_REQUIRED = ["BloomFilter.add_item", "BloomFilter.add_hash160", "BloomFilter.add_address", "BloomFilter.add_spendable",
                   "BloomFilter.filter_bytes", "BloomFilter.filter_load_params", "BloomFilter.peer_matches_element",
                   "BloomFilter.tweak_wider_than_32_bits", "BloomFilter.tweak_32_bits",
                   "BloomFilter.seed_i*0xFBA4C795+tweak_exceeds_32_bits", "BloomFilter.hash_function_count=50",
                   "BloomFilter.hash_function_count=1", "BloomFilter.size=36000", "BloomFilter.size=1",
                   "BloomFilter.same_element_added_again"]


def _tweak_equal(announced, tweak):
    """nTweak is a uint32 on the wire: an implementation may keep (and announce) the tweak it was given or its reduction."""
    return isinstance(announced, int) and not isinstance(announced, bool) and (announced - tweak) & RM.M32 == 0


def check_bloom(case, rec, M):
    """case: size, k, tweak, items = list of [how, bytes, index?]."""
    size, k, tweak = case["size"], case["k"], int(case["tweak"])
    rec.case(("bloom", size, k, tweak, tuple((it[0], it[1]) for it in case["items"])))
    if case["items"]:
        _bloom_param_events(rec, size, k, tweak)
        if len(set(_elements(case))) < len(case["items"]):
            rec.ev("BloomFilter.same_element_added_again")
    st, bf = observe(M.bloom.BloomFilter, size, k, tweak)
    if st != "ok":
        rec.violation("bloom.constructor_raises", case, bf, "filter")
        return
    elements = []
    for it in case["items"]:
        how, data = it[0], it[1]
        if how == "item":
            rec.ev("BloomFilter.add_item")
            st, r = observe(bf.add_item, data)
            elements.append(data)
        elif how == "hash160":
            rec.ev("BloomFilter.add_hash160")
            st, r = observe(bf.add_hash160, data)
            elements.append(data)
        elif how == "address":
            rec.ev("BloomFilter.add_address")
            addr = RB.encode_check(bytes([it[2]]) + data)
            st, r = observe(bf.add_address, addr)
            elements.append(data)
        else:
            rec.ev("BloomFilter.add_spendable")
            sp = M.Spendable(coin_value=1000, script=b"\x51", tx_hash=data, tx_out_index=it[2])
            st, r = observe(bf.add_spendable, sp)
            elements.append(data + int(it[2]).to_bytes(4, "little"))
        if st != "ok":
            rec.violation("bloom.add_raises." + how, case, r, None)
            return
    exp = RM.bip37_filter(elements, size, k, tweak)
    st, got = observe(lambda: bytes(bf.filter_bytes))
    rec.ev("BloomFilter.filter_bytes")
    if st != "ok":
        rec.violation("bloom.filter_bytes_unreadable", case, got, exp[:64])
        return
    if got != exp:
        missing = any(e & ~g for e, g in zip(exp, got)) or len(got) != len(exp)
        extra = any(g & ~e for e, g in zip(exp, got))
        mech = "bloom.bits_mismatch." + ("wrong_positions" if missing and extra else "missing_bits" if missing else "extra_bits")
        rec.violation(mech, case, got[:64], exp[:64], detail={"set_expected": sum(bin(b).count("1") for b in exp),
                                                              "set_observed": sum(bin(b).count("1") for b in got)})
        return
    # every element is matched by a peer (the reference's contains() on the bytes pycoin produced) ...
    for e in elements[:3]:
        rec.ev("BloomFilter.peer_matches_element")
        if not RM.bip37_contains(got, e, k, tweak):
            rec.violation("bloom.peer_does_not_match_added_element", case, got[:64], exp[:64])
            return
    # ... and through pycoin's own check_bit as well (any true value counts)
    for e in elements[:3]:
        for pos in RM.bip37_positions(e, size, k, tweak):
            rec.ev("BloomFilter.check_bit")
            st, r = observe(bf.check_bit, pos)
            if st != "ok" or not r:
                rec.violation("bloom.check_bit_false_for_added_element", case, r, True)
                return
    st, params = observe(lambda: tuple(bf.filter_load_params()))
    rec.ev("BloomFilter.filter_load_params")
    if st != "ok" or len(params) != 3 or not _eqb(params[0], exp) or params[1] != k or not _tweak_equal(params[2], tweak):
        rec.violation("bloom.filter_load_params_mismatch", case, params if st != "ok" else list(params[1:]), [k, tweak])


def _elements(case):
    return [it[1] + int(it[2]).to_bytes(4, "little") if it[0] == "spendable" else it[1] for it in case["items"]]


def _rand_bloom(rng, i):
    size = rng.choice([1, 1, 2, 3, 3, 7, 8, 9, 20, 64, 100, 1000, 4500, 35999, 36000, rng.randrange(1, 50), rng.randrange(1, 36001)])
    k = rng.choice([1, 2, 3, 5, 5, 8, 11, 20, 49, 50, rng.randrange(1, 51)])
    if size > 5000 and i % 4:
        size = rng.randrange(1, 600)
    tweak = rng.choice(SEEDS + [127, 2147483649, rng.getrandbits(32), rng.getrandbits(32), rng.getrandbits(66) | (1 << 65)])
    n_items = rng.choice([0, 1, 1, 1, 2, 3, 3, 5, 12])
    items = []
    for _ in range(n_items):
        r = rng.random()
        if items and rng.random() < 0.12:
            items.append(list(rng.choice(items)))                 # the same element again
        elif r < 0.55:
            L = rng.choice([0, 1, 2, 3, 4, 5, 6, 7, 20, 32, 33, 36, 65, rng.randrange(0, 41)])
            items.append(["item", bytes(rng.getrandbits(8) for _ in range(L))])
        elif r < 0.7:
            items.append(["hash160", bytes(rng.getrandbits(8) for _ in range(20))])
        elif r < 0.85:
            items.append(["address", bytes(rng.getrandbits(8) for _ in range(20)), rng.choice([0, 5, 111, 196])])
        else:
            items.append(["spendable", bytes(rng.getrandbits(8) for _ in range(32)),
                          rng.choice([0, 1, 2, 255, 256, 65535, (1 << 32) - 1, rng.getrandbits(32)])])
    return {"kind": "bloom", "size": size, "k": k, "tweak": tweak, "items": items}


def run_bloom(spec, rec, M):
    rng = shard_rng(spec["seed"], PROPERTY, spec["tier"], spec["shard"])
    if spec["part"] == 0:
        # every hash-function count 1..50 and every small size with one fixed element; Core's bloom_create_insert_key
        for k in range(1, 51):
            for size in (1, 2, 3, 5, 8, 33):
                check_bloom({"kind": "bloom", "size": size, "k": k, "tweak": SEEDS[k % len(SEEDS)],
                             "items": [["item", bytes([k, size, 7])], ["item", b""]]}, rec, M)
        pub = bytes.fromhex("045b81f0017e2091e2edcd5eecf10d5bdd120a5514cb3ee65b8447ec18bfc4575c6d5bf415e54e03b1067934a0f0ba76b01c"
                            "6b9ab227142ee1d543764b69d901e0")
        check_bloom({"kind": "bloom", "size": 3, "k": 8, "tweak": 0,
                     "items": [["item", pub], ["hash160", bytes.fromhex("477abbacd4113f2e6b100526222eedd953c26a64")]]}, rec, M)
        # the largest filter BIP37 allows and its neighbour, every entry point; an element added a second time
        # (same entry point and through another one) sets nothing new
        h, txh = bytes(range(40, 60)), bytes(range(100, 132))
        for size, tweak in ((RM.MAX_BLOOM_FILTER_SIZE, 0xdeadbeef), (RM.MAX_BLOOM_FILTER_SIZE, (1 << 40) + 99),
                            (RM.MAX_BLOOM_FILTER_SIZE - 1, 5), (1, 1 << 32)):
            for k in (1, 11, RM.MAX_HASH_FUNCS):
                check_bloom({"kind": "bloom", "size": size, "k": k, "tweak": tweak,
                             "items": [["item", pub], ["hash160", h], ["address", h, 0], ["spendable", txh, 1],
                                       ["item", txh + (1).to_bytes(4, "little")], ["item", pub], ["item", b"\x07"]]}, rec, M)
    for i in range(spec["n"]):
        c = _rand_bloom(rng, i)
        check_bloom(c, rec, M)
        if i == 0 and spec["part"] == 0:
            rec.sample({"op": "BloomFilter", "size": c["size"], "k": c["k"], "tweak": c["tweak"], "items": c["items"],
                        "filter_bytes_head": RM.bip37_filter(_elements(c), c["size"], c["k"], int(c["tweak"]))[:32]})


# -- call histories: state between calls, reused objects, caller-owned buffers -----------------------

_BAD_ARGS = {"none": None, "str": "abc", "int": 7}
_BAD_SEEDS = {"none": None, "str": "7", "float": 1.5}
_OBJ_USES = ("update", "copy", "hexdigest", "digest_twice", "refused_update")
_FIRST_CHUNKS = ("first_chunk_empty", "first_chunk_nonempty")
_HLENS = [0, 1, 2, 3, 4, 5, 7, 8, 20, 32, 33, 36, 55, 56, 63, 64, 65, 119, 120, 128]


def _fn_table(M):
    """name -> (call(arg, seed), oracle(content, seed), digest length or None, mechanism name)."""
    t = {}
    cfg = M.config
    if getattr(M, "hash", None) is not None:
        t["ripemd160"] = (lambda a, s: M.hash.ripemd160(a).digest(), lambda d, s: RR.digest(d), 20, "ripemd160." + cfg)
        t["hash160"] = (lambda a, s: M.hash.hash160(a), lambda d, s: RR.hash160(d), 20, "hash160." + cfg)
        t["double_sha256"] = (lambda a, s: M.hash.double_sha256(a), lambda d, s: RR.double_sha256(d), 32, "double_sha256")
        t["contrib"] = (lambda a, s: M.contrib_direct(a), lambda d, s: RR.digest(d), 20, "contrib_ripemd160")
    if getattr(M, "bloom", None) is not None:
        t["murmur3"] = (lambda a, s: M.bloom.murmur3(a, s), lambda d, s: RM.murmur3_32(d, s), None, "murmur3")
        t["murmur3_kw"] = (lambda a, s: M.bloom.murmur3(a, seed=s), lambda d, s: RM.murmur3_32(d, s), None, "murmur3")
    return t


def _same(got, exp, n):
    if n is None:
        return isinstance(got, int) and not isinstance(got, bool) and got == exp
    return isinstance(got, (bytes, bytearray)) and len(got) == n and bytes(got) == exp


def _scribble(b):
    for j in range(len(b)):
        b[j] ^= 0xa5


def check_history(case, rec, M):
    """case: steps = ["new", slot, data] | ["edit", slot, offset, data] | ["set", slot, data] |
    ["call", fn, slot, "buf"|"bytes", seed] | ["calld", fn, data] | ["hold", h, slot] | ["holdd", h, data] | ["digest", h] |
    ["upd", h, data, "buf"|"bytes"] | ["badupd", h, what] | ["copy", h, h2] | ["hex", h] | ["bad", fn, what] | ["badseed", fn, what].
    Every value returned must be the standard one for the content the buffer had when the call was made; a RIPEMD-160 object
    the caller keeps and uses (update / copy / hexdigest / digest several times) answers for the bytes it was fed and has no
    influence on any other call."""
    fns = _fn_table(M)
    steps = case["steps"]
    cfg = M.config
    rec.case((case["kind"], cfg, repr(steps)))
    bufs, held, seen = {}, {}, []
    edited = False
    used = None                                                   # first-chunk class of the last object the caller used

    def use(ent, what):
        fc = _FIRST_CHUNKS[1 if ent["first"] else 0]
        rec.ev("history.ripemd160_object.%s" % what)
        rec.ev("config:%s:history.ripemd160_object.%s.%s" % (cfg, what, fc))
        return fc

    for st in steps:
        op = st[0]
        if op == "new":
            bufs[st[1]] = bytearray(st[2])
        elif op == "edit":
            b, off, data = bufs[st[1]], int(st[2]), st[3]
            b[off:off + len(data)] = data
            edited = True
        elif op == "set":
            bufs[st[1]][:] = st[2]
            edited = True
        elif op == "bad":
            rec.ev("history.call_with_invalid_argument")
            observe(fns[st[1]][0], _BAD_ARGS[st[2]], 0)              # nothing is demanded of this call
        elif op == "badseed":
            rec.ev("history.call_with_invalid_seed")
            observe(fns[st[1]][0], bytes(st[3]), _BAD_SEEDS[st[2]])  # nothing is demanded of this call
        elif op in ("hold", "holdd"):
            snap = bytes(bufs[st[2]]) if op == "hold" else bytes(st[2])
            rec.ev("history.ripemd160_object_kept")
            s_, h = observe(M.hash.ripemd160, snap)
            held[st[1]] = {"st": s_, "obj": h, "snap": snap, "first": snap, "judged": True, "updated": False}
        elif op in ("upd", "badupd", "copy", "hex"):
            ent = held.get(st[1])
            if ent is None or ent["st"] != "ok":
                continue                                         # the object could not be obtained: judged at its "digest" step
            if op == "upd":
                data = bytes(st[2])
                arg = bytearray(data) if st[3] == "buf" else data
                used = use(ent, "update")
                s2, r = observe(lambda: ent["obj"].update(arg))
                if st[3] == "buf":
                    rec.ev("history.ripemd160_object.update.callers_bytearray_overwritten_afterwards")
                    _scribble(arg)
                if s2 == "ok":
                    rec.ev("history.ripemd160_object.update_accepted:" + cfg)
                    ent["snap"] += data
                    ent["updated"] = True
                elif isinstance(r, AttributeError):
                    rec.ev("history.ripemd160_object.update_not_offered:" + cfg)       # nothing was fed
                else:
                    rec.ev("history.ripemd160_object.update_raised:" + cfg)             # content unknown from here on
                    ent["judged"] = False
            elif op == "badupd":
                used = use(ent, "refused_update")
                s2, r = observe(lambda: ent["obj"].update(_BAD_ARGS[st[2]]))
                if s2 == "ok":
                    ent["judged"] = False                        # it accepted something that is not a byte string: unjudged
            elif op == "copy":
                used = use(ent, "copy")
                s2, o2 = observe(lambda: ent["obj"].copy())
                if s2 == "ok":
                    rec.ev("history.ripemd160_object.copy_obtained:" + cfg)
                    held[st[2]] = dict(ent, obj=o2)
                else:
                    rec.ev("history.ripemd160_object.copy_not_offered:" + cfg)
            else:
                used = use(ent, "hexdigest")
                s2, r = observe(lambda: ent["obj"].hexdigest())
                if s2 != "ok":
                    rec.ev("history.ripemd160_object.hexdigest_not_offered:" + cfg)
                elif ent["judged"]:
                    exp = RR.digest(ent["snap"])
                    rec.ev("history.ripemd160_object.hexdigest_judged:" + cfg)
                    if not isinstance(r, str) or r.lower() != exp.hex():
                        rec.violation("history.ripemd160.%s.object_hexdigest_mismatch%s" % (cfg, ".after_update" if ent["updated"] else ""),
                                      case, r, exp.hex())
                        return
        elif op == "digest":
            ent = held.get(st[1])
            if ent is None or not ent["judged"]:
                continue
            s_, h, snap = ent["st"], ent["obj"], ent["snap"]
            exp = RR.digest(snap)
            if s_ == "ok":
                used = use(ent, "digest_twice")
            for again in (False, True):
                rec.ev("history.ripemd160_object.digest_later")
                rec.ev("config:%s:history.ripemd160_object.digest_later" % cfg)
                s2, got = (s_, h) if s_ != "ok" else observe(h.digest)
                if s2 != "ok" or not _same(got, exp, 20):
                    stale = s2 == "ok" and any(_same(got, RR.digest(o), 20) for o in seen if o != snap)
                    rec.violation("history.ripemd160.%s.object_digest_%s" % (cfg, "of_other_input" if stale else "mismatch")
                                  + (".after_update" if ent["updated"] else "") + (".second_read" if again else ""), case, got, exp)
                    return
                if isinstance(got, bytearray):                   # a mutable answer belongs to the caller
                    rec.ev("history.returned_bytearray_overwritten_by_caller")
                    _scribble(got)
            seen.append(snap)
        else:
            if op == "calld":
                fn, slot, how, seed = st[1], None, "bytes", None
                snap = bytes(st[2])
            else:
                fn, slot, how, seed = st[1], st[2], st[3], st[4]
                snap = bytes(bufs[slot])
            seed = None if seed is None else int(seed)
            call, oracle, n, name = fns[fn]
            exp = oracle(snap, seed)
            rec.ev("history.%s.%s" % (fn, "callers_bytearray" if how == "buf" else "bytes"))
            if case["kind"] == "dhist":
                rec.ev("config:%s:history.%s" % (cfg, fn))
                if used is not None:
                    rec.ev("config:%s:history.judged_call_after_object_used.%s" % (cfg, used))
            s_, got = observe(call, bufs[slot] if how == "buf" else snap, seed)
            if s_ != "ok" or not _same(got, exp, n):
                stale = s_ == "ok" and any(_same(got, oracle(o, seed), n) for o in seen if o != snap)
                mech = "history.%s.%s" % (name, "value_of_earlier_content" if stale else "mismatch")
                if edited and stale:
                    mech += ".after_inplace_edit"
                if used is not None:
                    mech += ".after_returned_object_used." + used
                rec.violation(mech, case, got, exp)
                return
            if how == "buf" and bytes(bufs[slot]) != snap:
                rec.violation("history.%s.callers_bytearray_modified" % name, case, bytes(bufs[slot]), snap)
                return
            if isinstance(got, bytearray):
                rec.ev("history.returned_bytearray_overwritten_by_caller")
                _scribble(got)
            seen.append(snap)


def _rb(rng, n):
    return bytes(rng.getrandbits(8) for _ in range(n))


def _hlen(rng):
    return rng.choice(_HLENS + [rng.randrange(0, 41), rng.randrange(0, 200)])


def _rand_edit(rng, slot, contents, pool):
    """An in-place change of a caller-owned buffer (the object stays the same)."""
    cur = contents[slot]
    r = rng.random()
    if cur and r < 0.45:
        off = rng.choice([0, len(cur) - 1, rng.randrange(len(cur))])
        new = bytes([cur[off] ^ rng.choice([1, 0x80, 0xff, rng.randrange(1, 256)])])
        contents[slot] = cur[:off] + new + cur[off + 1:]
        step = ["edit", slot, off, new]
    elif cur and r < 0.6:
        new = _rb(rng, len(cur))                                  # next record read into the same buffer
        contents[slot] = new
        step = ["edit", slot, 0, new]
    elif r < 0.8:
        new = rng.choice(pool)                                    # back to a content seen before
        contents[slot] = new
        step = ["set", slot, new]
    elif r < 0.9:
        new = cur + _rb(rng, rng.choice([1, 1, 4, 9, 64]))
        contents[slot] = new
        step = ["set", slot, new]
    else:
        new = cur[:rng.randrange(len(cur) + 1)]
        contents[slot] = new
        step = ["set", slot, new]
    pool.append(contents[slot])
    return step


def _rand_history(rng, kind, fns, seeded):
    nslots = rng.choice([1, 1, 2, 3])
    steps, contents, pool = [], {}, []
    for s in range(nslots):
        L = _hlen(rng)
        data = bytes([rng.choice([0, 0x80, 0xff])]) * L if rng.random() < 0.1 else _rb(rng, L)
        if s and rng.random() < 0.3:
            data = contents[0]                                    # two distinct buffers, equal content
        contents[s] = data
        pool.append(data)
        steps.append(["new", s, data])
    n = nslots + (rng.randrange(4, 15) if seeded else rng.randrange(5, 18))
    last, held, nh, firsts = None, [], 0, {}
    while len(steps) < n:
        r = rng.random()
        if not seeded and rng.random() < 0.22:
            # a RIPEMD-160 object the caller keeps and uses the hashlib way, judged calls in between
            q = rng.random()
            if not held or q < 0.3:
                if rng.random() < 0.45:
                    slot = rng.randrange(nslots)
                    steps.append(["hold", nh, slot])
                    firsts[nh] = contents[slot]
                else:
                    data = b"" if rng.random() < 0.55 else _rb(rng, rng.choice([1, 20, 32, 55, 56, 63, 64, 65, rng.randrange(1, 130)]))
                    steps.append(["holdd", nh, data])
                    firsts[nh] = data
                held.append(nh)
                h = nh
                nh += 1
                if rng.random() < 0.5:
                    continue
                q = rng.uniform(0.3, 1.0)                         # ... and use it right away
            else:
                h = rng.choice(held)
            if q < 0.5:
                chunk = _rb(rng, rng.choice([0, 1, 8, 20, 32, 55, 56, 63, 64, 65, rng.randrange(0, 130)]))
                steps.append(["upd", h, chunk, rng.choice(["bytes", "bytes", "buf"])])
            elif q < 0.62:
                steps.append(["copy", h, nh])
                firsts[nh] = firsts[h]
                held.append(nh)
                nh += 1
            elif q < 0.76:
                steps.append(["hex", h])
            elif q < 0.88:
                steps.append(["badupd", h, rng.choice(sorted(_BAD_ARGS))])
            else:
                steps.append(["digest", h])
                if rng.random() < 0.5:
                    held.remove(h)
            if rng.random() < 0.65:                               # a judged call right after the caller touched the object
                fn = rng.choice(["ripemd160", "ripemd160", "hash160", "contrib"])
                if rng.random() < 0.5:
                    steps.append(["calld", fn, firsts[h]])        # ... on the very bytes the object was made from
                else:
                    steps.append(["call", fn, rng.randrange(nslots), rng.choice(["buf", "bytes"]), None])
            continue
        if last is not None and r < 0.35:
            fn, s, seed = last
            steps.append(_rand_edit(rng, s, contents, pool))
            if seeded and rng.random() < 0.3:
                seed = _seed(rng)
            if rng.random() < 0.15:
                fn = rng.choice(fns)
            steps.append(["call", fn, s, rng.choice(["buf", "buf", "bytes"]), seed])
            last = (fn, s, seed) if rng.random() < 0.7 else None
        elif r < 0.72:
            fn, s = rng.choice(fns), rng.randrange(nslots)
            if last is not None and rng.random() < 0.4:
                fn = last[0]
            seed = (last[2] if last is not None and rng.random() < 0.5 else _seed(rng)) if seeded else None
            steps.append(["call", fn, s, rng.choice(["buf", "buf", "bytes"]), seed])
            last = (fn, s, seed)
        elif r < 0.82:
            steps.append(_rand_edit(rng, rng.randrange(nslots), contents, pool))
        elif r >= 0.93:
            if seeded and rng.random() < 0.5:
                steps.append(["badseed", rng.choice(fns), rng.choice(sorted(_BAD_SEEDS)), _rb(rng, rng.choice([1, 2, 3, 5, 6, 7, 9]))])
            else:
                steps.append(["bad", rng.choice(fns), rng.choice(sorted(_BAD_ARGS))])
    rng.shuffle(held)
    for h in held:
        steps.append(["digest", h])
    return {"kind": kind, "steps": steps}


def run_histories(spec, rec, M, kind):
    rng = shard_rng(spec["seed"], PROPERTY, spec["tier"], spec["shard"], salt="hist")
    if kind == "dhist":
        fns, weights = ["ripemd160", "hash160", "double_sha256", "contrib"], [5, 3, 1, 2]
    else:
        fns, weights = ["murmur3", "murmur3_kw"], [1, 1]
    wf = [f for f, w in zip(fns, weights) for _ in range(w)]
    for i in range(spec.get("n_hist", 0)):
        c = _rand_history(rng, kind, wf, seeded=(kind == "mhist"))
        c["config"] = M.config
        check_history(c, rec, M)
        if i == 0 and spec["part"] == 0:
            rec.sample({"op": "call history", "config": M.config, "steps": c["steps"]})


# -- Bloom histories: several filters alive, public attributes reassigned, failing adds ------------

def _step_element(st):
    """The BIP37 element of an "add" step."""
    return st[3] + int(st[4]).to_bytes(4, "little") if st[2] == "spendable" else st[3]


def _bh_mech(case, upto, f):
    before = case["steps"][:upto + 1]
    if any(s[0] == "attr" and s[1] == f for s in before):
        return "after_param_reassigned"
    if any(s[0] == "clear" and s[1] == f for s in before):
        return "after_filter_bytes_replaced"
    mine = set(_step_element(s) for s in before if s[0] == "add" and s[1] == f)
    if any(s[0] == "add" and s[1] != f and _step_element(s) in mine for s in before):
        return "element_also_added_to_other_filter"
    if any(s[0] == "make" and s[1] != f for s in before):
        return "other_filter_alive"
    if any(s[0] == "bad" for s in before):
        return "after_failed_add"
    if any(s[0] == "add" and s[5] for s in before):
        return "callers_buffer_reused"
    return "plain"


def check_bloom_history(case, rec, M):
    """case: filters = [[size, k, tweak, keyword_constructor], ...]; steps = ["make", f] | ["add", f, how, data, extra, scribble] |
    ["attr", f, "tweak"|"hash_function_count", value] | ["clear", f] | ["bad", f, how] | ["check", f]."""
    rec.case(("bhist", repr(case["filters"]), repr(case["steps"])))
    live, model = {}, {}
    where = {}                                                    # element -> filters it was added to

    def verify(i, f):
        bf, m = live[f], model[f]
        exp = bytes(m["bits"])
        rec.ev("history.BloomFilter.filter_bytes")
        s_, got = observe(lambda: bytes(bf.filter_bytes))
        if s_ != "ok" or got != exp:
            missing = s_ != "ok" or len(got) != len(exp) or any(e & ~g for e, g in zip(exp, got))
            extra = s_ == "ok" and any(g & ~e for e, g in zip(exp, got))
            rec.violation("bloom.history.bits_%s.%s" % ("wrong_positions" if missing and extra else "missing" if missing else "extra",
                                                        _bh_mech(case, i, f)), case,
                          got[:64] if s_ == "ok" else got, exp[:64], detail={"filter": f, "step": i})
            return False
        rec.ev("history.BloomFilter.filter_load_params")
        s_, params = observe(lambda: tuple(bf.filter_load_params()))
        if (s_ != "ok" or len(params) != 3 or not _eqb(params[0], exp) or params[1] != m["k"]
                or not _tweak_equal(params[2], m["tweak"])):
            rec.violation("bloom.history.filter_load_params_mismatch." + _bh_mech(case, i, f), case,
                          params if s_ != "ok" else list(params[1:]), [m["k"], m["tweak"]], detail={"filter": f, "step": i})
            return False
        return True

    for i, st in enumerate(case["steps"]):
        op, f = st[0], st[1]
        if op == "make":
            size, k, tweak, kw = case["filters"][f]
            tweak = int(tweak)
            rec.ev("history.BloomFilter.constructed_" + ("keywords" if kw else "positional"))
            if kw:
                s_, bf = observe(M.bloom.BloomFilter, size_in_bytes=size, hash_function_count=k, tweak=tweak)
            else:
                s_, bf = observe(M.bloom.BloomFilter, size, k, tweak)
            if s_ != "ok":
                rec.violation("bloom.constructor_raises", case, bf, "filter")
                return
            live[f] = bf
            model[f] = {"size": size, "k": k, "tweak": tweak, "bits": bytearray(size)}
        elif op == "add":
            how, data, extra, scribble = st[2], st[3], st[4], st[5]
            bf, m = live[f], model[f]
            element = data
            rec.ev("history.BloomFilter.add_" + how)
            if how == "item" or how == "hash160":
                arg = bytearray(data) if scribble else data
                s_, r = observe(bf.add_item if how == "item" else bf.add_hash160, arg)
                if scribble:
                    rec.ev("history.BloomFilter.callers_buffer_overwritten_after_add")
                    for j in range(len(arg)):
                        arg[j] ^= 0xa5
            elif how == "address":
                s_, r = observe(bf.add_address, RB.encode_check(bytes([extra]) + data))
            else:
                sp = M.Spendable(coin_value=1000, script=b"\x51", tx_hash=data, tx_out_index=extra)
                s_, r = observe(bf.add_spendable, sp)
                element = data + int(extra).to_bytes(4, "little")
            if s_ != "ok":
                rec.violation("bloom.history.add_raises.%s.%s" % (how, _bh_mech(case, i, f)), case, r, None)
                return
            for pos in RM.bip37_positions(element, m["size"], m["k"], m["tweak"]):
                m["bits"][pos >> 3] |= 1 << (pos & 7)
            fs = where.setdefault(element, set())
            if f in fs:
                rec.ev("history.BloomFilter.element_added_again_to_same_filter")
            if fs - {f}:
                rec.ev("history.BloomFilter.element_already_in_another_filter")
            fs.add(f)
            if case.get("wallet") and element in case["wallet"]:
                rec.ev("history.BloomFilter.wallet_element_shared_between_histories")
        elif op == "attr":
            name, value = st[2], int(st[3])
            rec.ev("history.BloomFilter.%s_reassigned" % name)
            s_, r = observe(setattr, live[f], name, value)
            if s_ != "ok":
                rec.ev("history.BloomFilter.attribute_not_assignable")      # not judged
                return
            model[f]["k" if name == "hash_function_count" else "tweak"] = value
        elif op == "clear":
            rec.ev("history.BloomFilter.filter_bytes_replaced")
            s_, r = observe(setattr, live[f], "filter_bytes", bytearray(model[f]["size"]))
            if s_ != "ok":
                rec.ev("history.BloomFilter.attribute_not_assignable")
                return
            model[f]["bits"] = bytearray(model[f]["size"])
        elif op == "bad":
            how = st[2]
            rec.ev("history.BloomFilter.failing_add")
            bf = live[f]
            if how == "address":
                good = RB.encode_check(b"\x00" + bytes(20))
                s_, r = observe(bf.add_address, good[:-1] + ("2" if good[-1] != "2" else "3"))
            elif how == "none":
                s_, r = observe(bf.add_item, None)
            elif how == "hash160_none":
                s_, r = observe(bf.add_hash160, None)
            elif how == "str":
                s_, r = observe(bf.add_item, "abcdefg")            # a str where bytes are expected
            elif how == "index_2**32":                            # an outpoint index that does not fit its uint32 field
                s_, r = observe(lambda: bf.add_spendable(M.Spendable(coin_value=1000, script=b"\x51", tx_hash=bytes(range(32)),
                                                                     tx_out_index=1 << 32)))
            elif how == "index_none":
                s_, r = observe(lambda: bf.add_spendable(M.Spendable(coin_value=1000, script=b"\x51", tx_hash=bytes(range(32)),
                                                                     tx_out_index=None)))
            else:
                s_, r = observe(bf.add_spendable, object())
            rec.ev("history.BloomFilter.failing_add." + how)
            if s_ == "ok":
                rec.ev("history.BloomFilter.invalid_add_did_not_raise")      # element unknown: not judged
                return
        else:
            if not verify(i, f):
                return
    last = len(case["steps"]) - 1
    for f in sorted(live):
        if not verify(last, f):
            return


def _rand_item(rng, used=None, wallet=None):
    r = rng.random()
    if used is not None:
        q = rng.random()
        if used and q < 0.22:                                     # an element this history has added before (any filter)
            how, data, extra, _ = rng.choice(used)
            it = [how, data, extra, how in ("item", "hash160") and rng.random() < 0.35]
            used.append(it)
            return it
        if wallet and q < 0.34:                                   # a wallet's key / outpoint: goes into every filter it builds
            how, data, extra = rng.choice(wallet)
            it = [how, data, extra, how in ("item", "hash160") and rng.random() < 0.35]
            used.append(it)
            return it
        it = _rand_item(rng)
        used.append(it)
        return it
    if r < 0.55:
        L = rng.choice([0, 1, 2, 3, 4, 5, 6, 7, 20, 32, 33, 36, 65, rng.randrange(0, 41)])
        return ["item", _rb(rng, L), None, rng.random() < 0.35]
    if r < 0.7:
        return ["hash160", _rb(rng, 20), None, rng.random() < 0.35]
    if r < 0.85:
        return ["address", _rb(rng, 20), rng.choice([0, 5, 111, 196]), False]
    return ["spendable", _rb(rng, 32), rng.choice([0, 1, 2, 255, 256, 65535, (1 << 32) - 1, rng.getrandbits(32)]), False]


_BLOOM_BAD_ADDS = ["address", "none", "spendable", "hash160_none", "str", "index_2**32", "index_none"]


def _rand_k(rng):
    return rng.choice([1, 2, 3, 5, 5, 8, 11, 20, 49, 50, rng.randrange(1, 51)])


def _rand_tweak(rng):
    return rng.choice(SEEDS + [127, 2147483649, rng.getrandbits(32), rng.getrandbits(32), rng.getrandbits(66) | (1 << 65)])


def _rand_wallet(rng):
    """A few elements a wallet puts into every filter it builds (one filter per peer connection, rebuilt when it fills up)."""
    w = []
    for _ in range(3):
        w.append([rng.choice(["hash160", "address", "item"]), _rb(rng, 20), 0])
    for _ in range(2):
        w.append(["spendable", _rb(rng, 32), rng.choice([0, 1, 7])])
    w.append(["item", _rb(rng, 33), None])
    w.append(["item", _rb(rng, 36), None])
    return w


def _rand_bhist(rng, wallet=None):
    used = []
    nf = rng.choice([1, 1, 2, 2, 3])
    filters = []
    for _ in range(nf):
        size = rng.choice([1, 2, 3, 7, 8, 9, 20, 64, 100, 1000, rng.randrange(1, 50), rng.randrange(1, 600),
                           rng.choice([4500, 35999, 36000])])
        filters.append([size, _rand_k(rng), _rand_tweak(rng), rng.random() < 0.4])
    steps = [["make", 0]]
    made = 1
    n = rng.randrange(3, 13)
    while len(steps) < n:
        f = rng.randrange(made)
        r = rng.random()
        if made < nf and r < 0.3:
            steps.append(["make", made])
            made += 1
        elif r < 0.62:
            steps.append(["add", f] + _rand_item(rng, used, wallet))
        elif r < 0.8:
            if rng.random() < 0.5:
                steps.append(["attr", f, "tweak", _rand_tweak(rng)])
            else:
                steps.append(["attr", f, "hash_function_count", _rand_k(rng)])
            if rng.random() < 0.8:
                steps.append(["add", f] + _rand_item(rng, used, wallet))
        elif r < 0.85:
            steps.append(["clear", f])
        elif r < 0.92:
            steps.append(["bad", f, rng.choice(_BLOOM_BAD_ADDS)])
        else:
            steps.append(["check", f])
    if not any(s[0] == "add" for s in steps):
        steps.append(["add", rng.randrange(made)] + _rand_item(rng, used, wallet))
    c = {"kind": "bhist", "filters": filters, "steps": steps}
    if wallet:
        c["wallet"] = [_step_element(["add", 0] + w) for w in wallet]
    return c


def run_bloom_histories(spec, rec, M):
    rng = shard_rng(spec["seed"], PROPERTY, spec["tier"], spec["shard"], salt="hist")
    wallet = _rand_wallet(rng)
    for i in range(spec.get("n_hist", 0)):
        c = _rand_bhist(rng, wallet)
        check_bloom_history(c, rec, M)
        if i == 0 and spec["part"] == 0:
            rec.sample({"op": "BloomFilter history", "filters": c["filters"], "steps": c["steps"]})


# -- the N-th operation: one process, one object, more than 2**16 uses -------------------------------

def _near_power_of_two(i):
    return any(abs(i - (1 << j)) <= 2 for j in range(8, 18))


def _nth(i):
    """Part of the mechanism key: did the fault show only from the 2**16-th use on."""
    return ".from_use_65535_on" if i >= 65534 else ""


def run_longrun(spec, rec):
    cfg, N = spec["config"], int(spec["n"])
    rec.require("longrun:%s:ripemd160(data).digest()" % cfg, "longrun:%s:hash160" % cfg, "longrun:%s:more_than_2**16_operations_in_one_process" % cfg)
    M = _imports(cfg, rec)
    if M is None:
        return
    one_block = cfg != "native"                                   # the bundled implementation costs ~0.3 ms a block
    # 1. the module-level functions, a fresh input every call
    nv = 0
    for i in range(N):
        L = (i * 7) % 56 if one_block else (i * 7) % 131
        d = ((i.to_bytes(4, "little") + b"\x5a") * (L // 5 + 1))[:L]
        s_, got = observe(lambda: M.hash.ripemd160(d).digest())
        if s_ != "ok" or not _eqb(got, RR.digest(d)):
            rec.violation("longrun.ripemd160.%s.mismatch%s" % (cfg, _nth(i)), {"kind": "longrun", "config": cfg, "op": "ripemd160", "call": i, "data": d},
                          got, RR.digest(d))
            nv += 1
        if not one_block or i % 8 == 0 or _near_power_of_two(i):
            rec.ev("longrun:%s:hash160" % cfg)
            s_, got = observe(M.hash.hash160, d)
            if s_ != "ok" or not _eqb(got, RR.hash160(d)):
                rec.violation("longrun.hash160.%s.mismatch%s" % (cfg, _nth(i)), {"kind": "longrun", "config": cfg, "op": "hash160", "call": i, "data": d},
                              got, RR.hash160(d))
                nv += 1
            rec.ev("longrun:%s:double_sha256" % cfg)
            s_, got = observe(M.hash.double_sha256, d)
            if s_ != "ok" or not _eqb(got, RR.double_sha256(d)):
                rec.violation("longrun.double_sha256.mismatch" + _nth(i), {"kind": "longrun", "config": cfg, "op": "double_sha256", "call": i, "data": d},
                              got, RR.double_sha256(d))
                nv += 1
        if nv > 8:
            break
    else:
        rec.ev("longrun:%s:more_than_2**16_operations_in_one_process" % cfg)
    rec.ev("longrun:%s:ripemd160(data).digest()" % cfg, i + 1)
    rec.case(("longrun", cfg, "functions", N), n=i + 1)
    # 2. ONE object returned by ripemd160(), fed more than 2**16 times by its caller (where it offers update());
    #    running hashlib reference; a judged fresh call now and then
    s_, h = observe(M.hash.ripemd160, b"")
    if s_ == "ok" and callable(getattr(h, "update", None)) and RR.native_available():
        rec.require("longrun:%s:one_object.more_than_2**16_updates" % cfg)
        ref = RR._hashlib_new("ripemd160")
        for i in range(N):
            chunk = (i.to_bytes(3, "little") * 3)[:i % 10]
            s_, r = observe(h.update, chunk)
            ref.update(chunk)
            s2, got = observe(h.digest)
            if s_ != "ok" or s2 != "ok" or not _eqb(got, ref.digest()):
                rec.violation("longrun.ripemd160.%s.one_object_fed_incrementally.mismatch%s" % (cfg, _nth(i)),
                              {"kind": "longrun", "config": cfg, "op": "one_object_update", "call": i}, got if s_ == "ok" else r, ref.digest())
                break
            if i % 64 == 0 or _near_power_of_two(i):
                d = chunk[:i % 3]
                s_, got = observe(lambda: M.hash.ripemd160(d).digest())
                if s_ != "ok" or not _eqb(got, RR.digest(d)):
                    rec.violation("longrun.ripemd160.%s.mismatch.while_callers_object_is_fed%s" % (cfg, _nth(i)),
                                  {"kind": "longrun", "config": cfg, "op": "ripemd160_beside_one_object", "call": i, "data": d}, got, RR.digest(d))
                    break
        else:
            rec.ev("longrun:%s:one_object.more_than_2**16_updates" % cfg)
        rec.case(("longrun", cfg, "one_object", N), n=i + 1)
    else:
        rec.ev("longrun:%s:one_object.update_not_offered" % cfg)
    if cfg != "native":
        return
    # 3. murmur3, a fresh (input, seed) every call
    B = _bloom_imports(rec)
    rec.require("longrun:murmur3.more_than_2**16_calls", "longrun:BloomFilter.more_than_2**16_adds_to_one_filter")
    for i in range(N):
        d = (i.to_bytes(3, "little") * 3)[:i % 10]
        seed = (i * 0x9E3779B1) & 0xffffffff if i % 5 else (i << 32) + 7
        exp = RM.murmur3_32(d, seed)
        s_, got = observe(B.bloom.murmur3, d, seed)
        if s_ != "ok" or got != exp or isinstance(got, bool):
            rec.violation("longrun.murmur3.mismatch" + _nth(i), {"kind": "longrun", "config": cfg, "op": "murmur3", "call": i, "data": d, "seed": seed}, got, exp)
            break
    else:
        rec.ev("longrun:murmur3.more_than_2**16_calls")
    rec.case(("longrun", "murmur3", N), n=i + 1)
    # 4. ONE Bloom filter, more than 2**16 distinct elements; model kept bit by bit
    size, k, tweak = RM.MAX_BLOOM_FILTER_SIZE, 2, 0x5EED1234
    s_, bf = observe(B.bloom.BloomFilter, size, k, tweak)
    if s_ != "ok":
        rec.violation("bloom.constructor_raises", {"kind": "longrun", "config": cfg, "op": "bloom"}, bf, "filter")
        return
    model = bytearray(size)
    for i in range(N):
        if i % 64 == 63:
            e, idx = RR.double_sha256(i.to_bytes(4, "little")), i
            s_, r = observe(lambda: bf.add_spendable(B.Spendable(coin_value=1, script=b"\x51", tx_hash=e, tx_out_index=idx)))
            e += idx.to_bytes(4, "little")
        elif i % 16 == 15:
            e = (i.to_bytes(4, "little") * 5)
            s_, r = observe(bf.add_hash160, e)
        else:
            e = i.to_bytes(4, "little") + b"element"[:i % 8]
            s_, r = observe(bf.add_item, e)
        pos = RM.bip37_positions(e, size, k, tweak)
        for p_ in pos:
            model[p_ >> 3] |= 1 << (p_ & 7)
        ok = s_ == "ok"
        if ok:
            s2, fb = observe(lambda: bf.filter_bytes)
            ok = s2 == "ok" and len(fb) == size and all(fb[p_ >> 3] >> (p_ & 7) & 1 for p_ in pos)
            if ok and (i % 1024 == 0 or _near_power_of_two(i) or i == N - 1):
                ok = bytes(fb) == bytes(model)
        if not ok:
            rec.violation("longrun.bloom.one_filter.%s%s" % ("add_raises" if s_ != "ok" else "bits_mismatch", _nth(i)),
                          {"kind": "longrun", "config": cfg, "op": "bloom", "add": i, "element": e}, r if s_ != "ok" else None, None)
            break
    else:
        rec.ev("longrun:BloomFilter.more_than_2**16_adds_to_one_filter")
    rec.case(("longrun", "bloom", N), n=i + 1)


# -- several threads of one process -----------------------------------------------------------

_THREAD_SWITCH_INTERVAL = 1e-5            # seconds; CPython's default is 5e-3
_THREAD_BOUNDARY = (0, 1, 54, 55, 56, 57, 62, 63)


def _thread_messages(rng, tid, n, max_blocks):
    """n byte strings no other thread (and no other index) has: 3-byte (thread, index) prefix, random rest; lengths as hash160 /
    ripemd160 meet them (20, 32, 33, 65) and across the padding boundaries of 1..max_blocks blocks."""
    out = []
    for j in range(n):
        r = rng.random()
        if r < 0.3:
            L = rng.choice([20, 32, 33, 65])
        elif r < 0.8:
            L = max(4, 64 * rng.randrange(0, max_blocks) + rng.choice(_THREAD_BOUNDARY))
        else:
            L = rng.randrange(4, 64 * max_blocks)
        out.append((bytes([tid]) + j.to_bytes(2, "little") + _rb(rng, L))[:L])
    return out


def _thread_mech(base, got_again, exp):
    """Mechanism key of a wrong answer obtained beside other threads: does the same call, repeated alone afterwards, agree?"""
    return base + (".only_when_called_concurrently" if got_again == exp else ".and_when_called_alone")


def run_threads(spec, rec):
    """N threads of ONE process call the hash primitives at the same time, each on byte strings (and a Bloom filter) of its
    own; nothing is shared between the callers.  Expected values come from the references, computed before a thread exists;
    the threads only store what pycoin returned; the verdict (digests / hashes / filter bytes only, no timing) is made after join."""
    import itertools
    import sys
    import threading
    cfg, T, n_msgs, rounds = spec["config"], int(spec["threads"]), int(spec["n_msgs"]), int(spec["rounds"])
    max_blocks = int(spec["max_blocks"])
    with_bloom = bool(spec.get("bloom"))
    req = ["threads:%s:%s" % (cfg, op) for op in ("hash160", "double_sha256", "ripemd160(data).digest()", "contrib.ripemd160.ripemd160")]
    req += ["threads:%s:digests_returned_while_other_threads_were_hashing" % cfg, "threads:%s:call_interleaved_with_calls_of_other_threads" % cfg,
            "threads:%s:messages_of_2_or_more_blocks" % cfg]
    if with_bloom:
        req += ["threads:murmur3", "threads:BloomFilter.one_filter_per_thread"]
    rec.require(*req)
    M = _imports(cfg, rec)
    if M is None:
        return
    if cfg in ("python", "sim_no_native"):
        rec.require("threads:%s:tap:contrib.ripemd160.reached_from_threads" % cfg)
    B = _bloom_imports(rec) if with_bloom else None
    rng = shard_rng(spec["seed"], PROPERTY, spec["tier"], spec["shard"])
    fns = {"hash160": M.hash.hash160, "double_sha256": M.hash.double_sha256,
           "ripemd160(data).digest()": lambda d: M.hash.ripemd160(d).digest(), "contrib.ripemd160.ripemd160": M.contrib_direct}
    refs = {"hash160": RR.hash160, "double_sha256": RR.double_sha256, "ripemd160(data).digest()": RR.digest,
            "contrib.ripemd160.ripemd160": RR.digest}
    ops = list(fns)
    base_case = {"kind": "threads", "config": cfg, "threads": T, "n_msgs": n_msgs, "rounds": rounds, "max_blocks": max_blocks,
                 "bloom": with_bloom, "n_bloom": int(spec.get("n_bloom", 0)), "seed": spec["seed"], "tier": spec["tier"], "shard": spec["shard"]}
    # everything the threads need is made here, single-threaded: messages, expected digests, Bloom elements and filters
    msgs = [_thread_messages(rng, t, n_msgs, max_blocks) for t in range(T)]
    if len({m for w in msgs for m in w}) != T * n_msgs:
        rec.ev("inconclusive:threads.messages_not_unique")
        rec.note("threads: the generator promised distinct messages and did not deliver")
        return
    expect = [[{op: refs[op](d) for op in ops} for d in w] for w in msgs]
    for w in msgs:
        for d in w:
            if len(d) >= 56:
                rec.ev("threads:%s:messages_of_2_or_more_blocks" % cfg)
    bloom = None
    if with_bloom:
        bloom = []
        for t in range(T):
            size, k, tweak = rng.choice([1, 3, 64, 500, 36000]), rng.choice([1, 2, 5, 11, 50]), rng.choice(SEEDS + [rng.getrandbits(32)])
            items = []
            for j in range(int(spec["n_bloom"])):
                how = ("item", "hash160", "spendable")[j % 3]
                if how == "spendable":
                    e, idx = _rb(rng, 32), rng.choice([0, 1, 255, 65535, (1 << 32) - 1, rng.getrandbits(32)])
                    arg, elem = B.Spendable(coin_value=1, script=b"\x51", tx_hash=e, tx_out_index=idx), e + idx.to_bytes(4, "little")
                else:
                    elem = bytes([t]) + j.to_bytes(2, "little") + _rb(rng, 17 if how == "hash160" else rng.choice([0, 1, 2, 3, 30, 33, 62]))
                    arg = elem
                items.append((how, arg, elem, rng.choice(SEEDS + [rng.getrandbits(32), rng.getrandbits(70)])))
            s_, bf = observe(B.bloom.BloomFilter, size, k, tweak)
            if s_ != "ok":
                rec.violation("bloom.constructor_raises", dict(base_case, op="bloom", size=size, count=k, tweak=tweak), bf, "filter")
                return
            bloom.append({"size": size, "k": k, "tweak": tweak, "items": items, "filter": bf,
                          "mseeds": [rng.choice(SEEDS + [rng.getrandbits(32), rng.getrandbits(70)]) for _ in range(n_msgs)]})
    results = [[] for _ in range(T)]
    order = []                                    # thread id at every completed call, in completion order (list.append is atomic)
    ticks = itertools.count()                      # next() is atomic: a call during which the counter moved by more than 1 was interleaved
    barrier = threading.Barrier(T)
    crashed = []

    def worker(t):
        out, mine, done, tick = results[t], msgs[t], order.append, ticks.__next__
        try:
            barrier.wait()
            for rnd in range(rounds):
                for j in range(n_msgs):
                    d = mine[(j + rnd * 7) % n_msgs]
                    for op in (ops if (j + rnd) % 2 == 0 else ops[::-1]):
                        if skip_contrib and op == "contrib.ripemd160.ripemd160" and j % 4:
                            continue              # where it is not the implementation in use, the bundled one (0.3 ms a block) every 4th message
                        t0 = tick()
                        r = observe(fns[op], d)
                        out.append(("d", (j + rnd * 7) % n_msgs, op, r, tick() - t0))
                        done(t)
            if bloom is None:
                return
            # second phase: every thread in murmur3 / in its own Bloom filter at the same time
            barrier.wait()
            items, bf, mseeds = bloom[t]["items"], bloom[t]["filter"], bloom[t]["mseeds"]
            for j in range(n_msgs):
                t0 = tick()
                r = observe(B.bloom.murmur3, mine[j], mseeds[j])
                out.append(("M", j, "murmur3", r, tick() - t0))
                done(t)
                if j < len(items):
                    how, arg, elem, mseed = items[j]
                    t0 = tick()
                    r = observe(B.bloom.murmur3, elem, mseed)
                    out.append(("m", j, "murmur3", r, tick() - t0))
                    done(t)
                    t0 = tick()
                    r = observe(getattr(bf, "add_" + how), arg)
                    out.append(("b", j, "add_" + how, r, tick() - t0))
                    done(t)
        except BaseException as e:                 # noqa - a harness fault, reported as such below
            crashed.append((t, repr(e)))

    skip_contrib = M.impl == "native"
    tap0 = M.tap[0]
    threads = [threading.Thread(target=worker, args=(t,), name="c19-%d" % t) for t in range(T)]
    old = sys.getswitchinterval()
    sys.setswitchinterval(_THREAD_SWITCH_INTERVAL)
    try:
        for th in threads:
            th.start()
        for th in threads:
            th.join()
    finally:
        sys.setswitchinterval(old)
    if crashed or abs(sys.getswitchinterval() - old) > 1e-6:
        rec.ev("inconclusive:threads.worker_thread_failed")
        rec.note("threads[%s]: worker thread(s) stopped outside the observed calls: %r" % (cfg, crashed[:3]))
        return
    # ---- verdict, single-threaded again ----
    switches = sum(1 for i in range(1, len(order)) if order[i] != order[i - 1])
    interleaved = sum(1 for out in results for r in out if r[4] > 1)
    ncalls = sum(len(out) for out in results)
    if M.tap[0] > tap0:
        rec.ev("threads:%s:tap:contrib.ripemd160.reached_from_threads" % cfg, M.tap[0] - tap0)
    if switches >= T and len(set(order[:len(order) // 2])) > 1:
        rec.ev("threads:%s:digests_returned_while_other_threads_were_hashing" % cfg, switches)
    if interleaved:
        rec.ev("threads:%s:call_interleaved_with_calls_of_other_threads" % cfg, interleaved)
    nbad, wrong = {}, 0
    for t in range(T):
        for what, j, op, (st, got), _ in results[t]:
            if what == "d":
                d, exp = msgs[t][j], expect[t][j][op]
                rec.ev("threads:%s:%s" % (cfg, op))
                good = st == "ok" and _eqb(got, exp)
                key = {"hash160": "threads.hash160.%s.mismatch" % cfg, "double_sha256": "threads.double_sha256.mismatch",
                       "ripemd160(data).digest()": "threads.ripemd160.%s.mismatch" % cfg,
                       "contrib.ripemd160.ripemd160": "threads.contrib_ripemd160.mismatch"}[op]
                again = lambda: observe(fns[op], d)      # noqa
                case = dict(base_case, op=op, thread=t, data=d)
            elif what in ("m", "M"):
                d, mseed = (bloom[t]["items"][j][2], bloom[t]["items"][j][3]) if what == "m" else (msgs[t][j], bloom[t]["mseeds"][j])
                exp = RM.murmur3_32(d, mseed & 0xffffffff)
                rec.ev("threads:murmur3")
                good = st == "ok" and got == exp and not isinstance(got, bool)
                key = "threads.murmur3.mismatch"
                again = lambda: observe(B.bloom.murmur3, d, mseed)      # noqa
                case = dict(base_case, op=op, thread=t, data=d, mseed=mseed)
            else:
                if st != "ok":                        # an element BIP37 can hold, added to the thread's own filter, must be accepted
                    wrong += 1
                    if nbad.setdefault("b", 0) < 3:
                        rec.violation("threads.bloom.add_raises", dict(base_case, op=op, thread=t, element=bloom[t]["items"][j][2]), got, None)
                    nbad["b"] += 1
                continue
            if not good:
                wrong += 1
                if nbad.setdefault(op, 0) < 3:
                    s2, g2 = again()
                    g2 = bytes(g2) if s2 == "ok" and isinstance(g2, (bytes, bytearray, memoryview)) else (g2 if s2 == "ok" else None)
                    rec.violation(_thread_mech(key, g2, exp), case, got, exp)
                nbad[op] += 1
        rec.case(("threads", cfg, t, spec["seed"], spec["shard"]), n=len(results[t]))
    if bloom is not None:
        for t in range(T):
            b = bloom[t]
            rec.ev("threads:BloomFilter.one_filter_per_thread")
            exp = RM.bip37_filter([it[2] for it in b["items"][:n_msgs]], b["size"], b["k"], b["tweak"] & 0xffffffff)
            s_, fb = observe(lambda: bytes(b["filter"].filter_bytes))
            if s_ != "ok" or fb != exp:
                wrong += 1
                rec.violation("threads.bloom.own_filter.bits_mismatch",
                              dict(base_case, op="bloom", thread=t, size=b["size"], count=b["k"], tweak=b["tweak"]), fb if s_ == "ok" else fb, exp)
    rec.sample({"op": "hash primitives called from several threads of one process", "config": cfg, "impl_in_use": M.impl,
                "threads": T, "switch_interval_s": _THREAD_SWITCH_INTERVAL, "calls_observed": ncalls,
                "digests_compared": sum(1 for out in results for r in out if r[0] == "d"),
                "completions_following_a_completion_of_another_thread": switches,
                "calls_during_which_another_thread_started_or_finished_a_call": interleaved,
                "answers_differing_from_reference": wrong})
    rec.note("threads[%s]: %d threads, %d calls (%d digests), %d thread changes between consecutive completions, %d calls "
             "interleaved with calls of other threads, %d answers differing from the reference"
             % (cfg, T, ncalls, sum(1 for out in results for r in out if r[0] == "d"), switches, interleaved, wrong))


# ---------------------------------------------------------------------------------------------

def _bloom_imports(rec):
    m = _M()
    m.config = "native"
    import pycoin.bloomfilter as bloom
    from pycoin.symbols.btc import network
    m.bloom = bloom
    m.Spendable = network.tx.Spendable
    return m


def run_shard(spec, rec):
    kind = spec["kind"]
    if kind == "digests":
        rec.require("hash160", "double_sha256", "ripemd160(data).digest()", "contrib.ripemd160.ripemd160")
        M = _imports(spec["config"], rec)
        if M is None:
            return
        cfg = spec["config"]
        if cfg in ("python", "sim_no_native"):
            # the configuration counts as exercised only if hash160 and ripemd160(data) really went through the bundled implementation
            rec.require("tap:contrib.ripemd160.via_hash160:" + cfg, "tap:contrib.ripemd160.via_ripemd160:" + cfg)
        elif RR.native_available():
            # the native one: the digests themselves are what is judged (required below); whether pycoin obtains its
            # RIPEMD-160 objects through hashlib.new on every call is an implementation choice (a tree may keep a
            # template object and copy it) - the tap is reported in a note, it does not decide the run
            pass
        else:
            rec.note("this interpreter has no native RIPEMD-160: the 'native' configuration runs the fallback")
        # every operation and every padding boundary the property names, in THIS configuration (counters are summed over shards)
        rec.require(*_digest_requirements(cfg))
        run_digests(spec, rec, M)
        if spec.get("n_hist"):
            rec.require("history.ripemd160_object.digest_later", "config:%s:history.ripemd160_object.digest_later" % cfg,
                        *["config:%s:history.%s" % (cfg, f) for f in ("ripemd160", "hash160", "double_sha256", "contrib")])
            rec.require(
                        *["history.%s.%s" % (f, how) for f in ("ripemd160", "hash160", "double_sha256", "contrib")
                          for how in ("callers_bytearray", "bytes")])
            # the caller uses the objects ripemd160() returned (update / copy / hexdigest / digest twice / a refused update),
            # made from an empty and from a non-empty first chunk, with judged calls afterwards - in THIS configuration
            rec.require("history.call_with_invalid_argument",
                        *["config:%s:history.ripemd160_object.%s.%s" % (cfg, u, fc) for u in _OBJ_USES for fc in _FIRST_CHUNKS],
                        *["config:%s:history.judged_call_after_object_used.%s" % (cfg, fc) for fc in _FIRST_CHUNKS])
            run_histories(spec, rec, M, "dhist")
        if cfg == "native" and RR.native_available():
            _note_native_tap(rec, M)
    elif kind == "longrun":
        run_longrun(spec, rec)
    elif kind == "threads":
        run_threads(spec, rec)
    elif kind == "murmur":
        rec.require("murmur3", "murmur3.default_seed", "murmur3.seed_wider_than_32_bits", "murmur3.seed_top_bit_set",
                    "murmur3.seed_31_bits", "murmur3.no_full_block.seed_wider_than_32_bits", "murmur3.input_65536_bytes_or_more",
                    *["murmur3.tail%d_bytes" % t for t in range(4)])
        M = _bloom_imports(rec)
        run_murmur(spec, rec, M)
        if spec.get("n_hist"):
            rec.require(*["history.%s.%s" % (f, how) for f in ("murmur3", "murmur3_kw") for how in ("callers_bytearray", "bytes")])
            rec.require("history.call_with_invalid_argument", "history.call_with_invalid_seed")
            run_histories(spec, rec, M, "mhist")
    else:
        rec.require(*_BLOOM_REQUIRED)
        M = _bloom_imports(rec)
        run_bloom(spec, rec, M)
        if spec.get("n_hist"):
            rec.require("history.BloomFilter.tweak_reassigned", "history.BloomFilter.hash_function_count_reassigned",
                        "history.BloomFilter.filter_bytes", "history.BloomFilter.filter_load_params",
                        "history.BloomFilter.filter_bytes_replaced", "history.BloomFilter.failing_add",
                        *["history.BloomFilter.failing_add." + h for h in _BLOOM_BAD_ADDS],
                        "history.BloomFilter.callers_buffer_overwritten_after_add",
                        "history.BloomFilter.element_added_again_to_same_filter",
                        "history.BloomFilter.element_already_in_another_filter",
                        "history.BloomFilter.wallet_element_shared_between_histories",
                        *["history.BloomFilter.add_" + h for h in ("item", "hash160", "address", "spendable")])
            run_bloom_histories(spec, rec, M)


def replay_case(case, rec):
    kind = case.get("kind")
    if kind == "mhist":
        check_history(case, rec, _bloom_imports(rec))
    elif kind == "bhist":
        check_bloom_history(case, rec, _bloom_imports(rec))
    elif kind in ("digest", "import", "dhist"):
        import os
        cfg = case.get("config", "native")
        if cfg == "python" and not os.environ.get("PYCOIN_USE_PYTHON_RIPEMD160"):
            rec.note("replay of a 'python' configuration case without PYCOIN_USE_PYTHON_RIPEMD160 in the environment")
        M = _imports(cfg, rec)
        if M is not None and kind == "dhist":
            check_history(case, rec, M)
        elif M is not None and kind == "digest":
            check_digests(_fix(case), rec, M, want_pure_check=case["len"] <= 2000)
    elif kind == "longrun":
        # the fault depends on the number of operations made before: run the whole long-run workload of that configuration again
        run_longrun({"config": case.get("config", "native"), "n": max(int(case.get("call", case.get("add", 0))) + 200, (1 << 16) + 100),
                     "seed": 0, "tier": "quick", "shard": 0}, rec)
    elif kind == "threads":
        # the fault needs the other threads: run the whole threaded workload of that configuration again (same generator state)
        run_threads({k: case[k] for k in ("config", "threads", "n_msgs", "rounds", "max_blocks", "bloom", "n_bloom", "seed", "tier", "shard")}, rec)
    elif kind == "murmur":
        M = _bloom_imports(rec)
        check_murmur(_fix(case), int(case["seed"]), rec, M)
    elif kind == "bloom":
        M = _bloom_imports(rec)
        c = dict(case)
        c["items"] = [[it[0], it[1] if isinstance(it[1], bytes) else b""] + list(it[2:]) for it in case["items"]]
        check_bloom(c, rec, M)
    else:
        raise ValueError("unknown case kind %r" % kind)


def _fix(case):
    c = dict(case)
    if not isinstance(c.get("pattern"), bytes):
        c["pattern"] = b"\x00"
    return c
