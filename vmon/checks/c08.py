"""C08 — addresses and output scripts are in one-to-one correspondence on every usable registered network."""
from vmon.probe import shard_rng, observe
from vmon.refs import b58 as RB, bech32 as R32, ec as REC, keytext as KT, bip32 as RB32
from vmon.gen import nets as NETS

PROPERTY = "C08"
PRELOAD_NETWORK_ORDERS = [["btc", "xtn", "ltc", "bch", "grs", "doge", "dash", "btg"], ["btg", "grs", "bch", "doge", "ltc", "xtn", "btc"]]
LEVEL = "exploration"
TECHNIQUE = ("runtime monitor on address.for_script / parse.address / contract.info_for_script / for_info / key.address on every "
             "usable network; expected texts and scripts from an independent Base58Check/Bech32/template model; all ordered "
             "network pairs for cross-acceptance; mutated-template and random scripts for classification fidelity; one text object "
             "(parseable_str / str) offered to many networks and entry points in varying order; Base58 addresses constructed "
             "arithmetically to begin with the HRP / key-text / name tags of the network; key.address / key.hash160 / ku_output address "
             "lines on key objects from every public source (constructors, SEC, pair, WIF and other text parsers, BIP32/49/84 and "
             "Electrum nodes, override_network) and on their public copies / children, in generated query orders")
RULE = ("cases: (network, kind, hash) for kind in P2PKH/P2SH/P2WPKH/P2WSH/P2TR x hashes {zeros, ff, random}; (network, key, "
        "compression) for plain / BIP32 / BIP49 / BIP84 / electrum keys; (network, text) for checksummed strings with each "
        "declared Base58 prefix x payload length 0..40 (and the key lengths) and bech32/bech32m strings with the HRP x version "
        "0..16 x program length x both checksum constants x case; (A, B, kind) for every ordered pair of networks; scripts = "
        "standard templates canonical, with each push re-encoded by PUSHDATA1/2/4, with one opcode altered, with leading / "
        "trailing bytes, truncated, with off-by-one data lengths, multisig m/n variations, and random byte / opcode strings. "
        "(network, kind, hash) additionally for hashes computed so that the Base58 text begins with '<hrp>1' (every registered "
        "HRP, every letter-case pattern), the SEC tag, the symbol or the extended-key lead of the network; histories = one text "
        "object (network.parseable_str_type(text) or one str) x a sequence of (network, entry point) calls: every usable "
        "network in random order, every related network (same network_name / prefix / HRP) before and after the producer, "
        "every address entry point of one network in random order, with unjudged key-parser calls interleaved. "
        "key histories = (network, secret in {1, 2, n-1, r, n-r}, source of the key object, steps): one fresh object per history; "
        "steps = address / hash160 with no argument, is_compressed=None, True, False; ku_output; unjudged accessor calls "
        "(fingerprint, sec, wif, as_text, repr ...); public_copy; subkey / subkey_for_path (hardened, .pub) on nodes; Electrum "
        "subkey; the identity paths of a plain key; every history opens with one of 15 opening classes (each first query, "
        "ku first, copy first, query then copy, both forms then copy, derive first, copy then original) and ends with all "
        "six judged queries on every object of the history in random order. "
        "keys additionally the two fixed secrets whose public point has an x / a y coordinate shorter than 32 bytes; every offered "
        "text is classed by the reference (address, own prefix with wrong payload length, key text, other prefix, standard segwit "
        "lower / upper case, own HRP not standard, other HRP, no checksum) and every class must be offered. "
        "regrouping = (network with an HRP, version, program, fill): checksummed bech32 / bech32m texts whose 5-bit data part is the "
        "program's 8-to-5 regrouping with every non-zero value of the 1..4 fill bits of the last symbol (all 15 values for "
        "every 32-byte P2WSH / P2TR program offered: zeros, ff, last bit set / clear, random), or with one or two surplus symbols "
        "(every value after a 20-byte program), in lower and upper case, with the version's own and the other checksum "
        "constant, and on a few non-standard versions / lengths; each offered to parse.address, payable, parse(), "
        "contract.for_address, p2pkh_segwit, p2sh_segwit and p2tr. "
        "Non-trivial = non-empty script or text; distinct by the case tuple.")
ASSUMPTIONS = [
    "declared prefixes / HRP / tags are what the network's public encoders write (address.for_p2pkh / for_p2sh / for_p2pkh_wit on a "
    "fixed hash, wif_for_blob, sec_text_for_blob, bipNN_as_string; None or an exception = not declared), attributes of network.parse "
    "only where no encoder shows the value; for BTC, XTN, XRT, LTC, XLT, DOGE, DASH, ZEC they are additionally "
    "compared with the published chainparams values, and for BTC / XTN with published address examples (genesis address, key-1 "
    "addresses, BIP173/BIP350 examples); a wrong but self-consistent prefix on any other network is not detectable",
    "reference encoders / decoders / script templates in vmon/refs (b58, bech32, keytext) are self-tested on every run",
    "'standard kind' for classification fidelity = any type other than 'unknown' reported by contract.info_for_script",
    "an exception from parse.address on an arbitrary string is counted as a rejection here (totality is C18's subject); an exception "
    "from info_for_script on a malformed script is counted, not judged",
    "BIP49 / BIP84 node addresses are checked on every network through keys.bip49_deserialize / bip84_deserialize "
    "(P2SH-P2WPKH needs the P2SH prefix, P2WPKH the HRP; None is expected where the network declares none)",
    "GRS, TGRS, GRSRT are skipped: groestlcoin_hash is not installed",
    "parse.payable, parse(), parse.<kind> and contract.for_address are alternative entry points of parse.address: on an address "
    "text they must give a Contract (object with script() and info()) for the same script; any other result counts as rejection",
    "a text object that was shown to other networks / entry points before must be treated like a fresh one: a network must accept "
    "every Base58Check text with its prefix and a 20-byte body and every lower-case segwit text it would itself write, and "
    "accept nothing it would not write; upper / mixed-case bech32 may be accepted or rejected",
    "results must not depend on what the caller did to dicts returned earlier (Contract.info(), info_for_script), nor on the "
    "dict a caller passed to for_info earlier; whether for_info writes into the dict it is given is counted, not judged",
    "key histories: key.address(is_compressed=c) / key.hash160(is_compressed=c) speak about the encoding c of the key's point; "
    "with no argument or None they speak about the form the key object was made in: the form named in the constructor call, "
    "of the SEC bytes, of the WIF payload (33 bytes ending 01 = compressed, 32 bytes = uncompressed), compressed for BIP32/49/84 "
    "nodes, uncompressed for Electrum (v1) keys; where the source does not say (a bare secret or public pair read from text, "
    "override_network) the first default answer of the object fixes it; public_copy, the identity paths of a plain key and "
    "repeated queries keep it. BIP49 / BIP84 node addresses with an explicit form are the P2SH-P2WPKH / P2WPKH address of that "
    "encoding's hash",
    "cross-network: 'that script' is the script the accepting network reads (a text of A whose version byte is B's version byte "
    "for another kind is B's own text for B's script); B must accept exactly the texts the reference writes for B's declared prefixes",
    "ku_output: hex lines are compared as bytes (letter case free); the lines hash160, address, <SYM>_address, address_segwit, p2sh_segwit, p2sh_segwit_script speak about the "
    "compressed encoding and the *_uncompressed lines about the uncompressed one (the output's own annotation); for BIP49 / BIP84 "
    "nodes 'address' is the node address; other lines, missing lines and an exception from ku_output are not judged here",
    "regrouping texts: that the data part is no regrouping of any byte string (fill bits not all zero, or more than 4 left-over bits) "
    "is decided by the reference alone and re-checked per text (a text without that shape makes the run inconclusive); the oracle "
    "is the statement's clause only: refusing (None, an exception, any non-Contract result) is always fine, and an accepted text "
    "is a violation only when address.for_script of the script it was read as is another string (letter case free)",
    "which object a text parser, a derivation or override_network returns is C18's / C09's subject: a history is only run when "
    "the object obtained has the expected public pair; constructors called with valid arguments must work",
]
EXPLANATION = ("round trip, independent expected text, key address, acceptance-implies-canonical, cross-network acceptance and "
               "classification fidelity are each decided by comparison with the reference model; nothing is inferred from pycoin's own output alone, "
               "except the many-texts-for-one-script test on reference-built non-canonical segwit texts (fill bits / surplus symbols), which "
               "compares the accepted text with the network's own re-encoding of the script it was read as, as the statement words it")
TIMEOUT = {"quick": 900, "thorough": 3 * 3600}

N = KT.N
SE_X_SHORT, SE_Y_SHORT = 153, 122       # x(153 G) and y(122 G) are below 2^248: their 32-byte encodings start with a zero byte
KINDS = ("p2pkh", "p2sh", "p2pkh_segwit", "p2sh_segwit", "p2tr")
HLEN = {"p2pkh": 20, "p2sh": 20, "p2pkh_segwit": 20, "p2sh_segwit": 32, "p2tr": 32}
PUBLISHED = {"BTC": KT.BTC, "XTN": KT.XTN}
# address version bytes / HRP as published in the coins' chainparams (P2PKH, P2SH, HRP); values only, no example texts
PUBLISHED_PREFIXES = {
    "BTC": (b"\x00", b"\x05", "bc"), "XTN": (b"\x6f", b"\xc4", "tb"), "XRT": (b"\x6f", b"\xc4", "bcrt"),
    "LTC": (b"\x30", b"\x32", "ltc"), "XLT": (b"\x6f", b"\x3a", "tltc"), "DOGE": (b"\x1e", b"\x16", None),
    "DASH": (b"\x4c", b"\x10", None), "ZEC": (b"\x1c\xb8", b"\x1c\xbd", None),
}


def exhaustive(tier):
    return False


def configurations(tier):
    return NETS.configurations()


def plan(tier, seed):
    if tier == "quick":
        nn, nc, ns, nr, scale, scripts = 6, 4, 6, 4, 4, 90000
    else:
        nn, nc, ns, nr, scale, scripts = 16, 16, 32, 16, 400, 40000000
    shards = [{"kind": "nets", "slice": i, "of": nn, "scale": scale, "label": "nets%d" % i} for i in range(nn)]
    nk = 4 if tier == "quick" else 16
    shards += [{"kind": "keys", "slice": i, "of": nk, "scale": scale, "label": "keys%d" % i} for i in range(nk)]
    shards += [{"kind": "cross", "slice": i, "of": nc, "scale": scale, "label": "cross%d" % i} for i in range(nc)]
    shards += [{"kind": "reuse", "slice": i, "of": nr, "scale": scale, "label": "reuse%d" % i} for i in range(nr)]
    shards += [{"kind": "classify", "slice": i, "of": ns, "n": scripts // ns, "label": "classify%d" % i} for i in range(ns)]
    return shards


def selftest(rec):
    out = {"b58_vectors": RB.selftest(), "bech32_vectors": R32.selftest(), "keytext_vectors": KT.selftest(), "bip32_vectors": RB32.selftest()}
    for se in (1, 2, N - 1, 0xdeadbeef):
        assert RB32.point(se) == KT.pubpoint(se)
    # the two fixed secrets whose public point has a coordinate shorter than 32 bytes (fixed-width encoding matters)
    assert KT.pubpoint(SE_X_SHORT)[0] < 1 << 248 <= KT.pubpoint(SE_X_SHORT)[1]
    assert KT.pubpoint(SE_Y_SHORT)[1] < 1 << 248 <= KT.pubpoint(SE_Y_SHORT)[0]
    assert len(KT.sec_of(KT.pubpoint(SE_X_SHORT), True)) == 33 and len(KT.sec_of(KT.pubpoint(SE_Y_SHORT), False)) == 65
    # fill bits of the 5-to-8 regrouping: zero fill is the only reading back of to5; the BIP173 / BIP350 'non-zero padding' and
    # 'more than 4 padding bits' examples have a valid checksum and no byte string behind their data part
    for L in range(0, 9):
        for x in (bytes(L), b"\xff" * L, bytes(range(1, L + 1))):
            five = R32.to5(x)
            p = (-8 * L) % 5
            assert R32.from5(five) == x and len(five) * 5 - 8 * L == p
            for pat in range(1, 1 << p):
                assert R32.from5(five[:-1] + [five[-1] | pat]) is None
            assert (R32.from5(five + [0]) is None) == ((5 * (len(five) + 1)) % 8 > 4)
    for t in ("tb1qrp33g0q5c5txsp9arysrx4k6zdkfs4nce4xj0gdcccefvpysxf3pjxtptv", "bc1zw508d6qejxtdg4y5r3zarvaryvqyzf3du",
              "tb1p0xlxvlhemja6c4dqv22uapctqupfhlxm9h8z3k2e72q4k9hcz7vpggkg4j", "bc1p0xlxvlhemja6c4dqv22uapctqupfhlxm9h8z3k2e72q4k9hcz7v07qwwzcrf"):
        raw = R32.raw_decode(t)
        assert raw is not None and R32.from5(raw[1][1:]) is None, t
    out["regroup_fill_bits"] = "exhaustive L<=8, 4 published non-zero-padding examples"
    return out


def rbytes(rng, n):
    return bytes(rng.randrange(256) for _ in range(n))


_PARAMS = {}


def params_for(net):
    """prefixes / HRP / tags the network declares, read from what its public encoders write (address.for_p2pkh / for_p2sh /
    for_p2pkh_wit, wif_for_blob, sec_text_for_blob, bipNN_as_string: None or an exception = not declared); the attributes of
    network.parse (vmon.gen.nets.params_of) only fill in what no public encoder shows."""
    if id(net) in _PARAMS and _PARAMS[id(net)][0] is net:
        return _PARAMS[id(net)][1]
    old = NETS.params_of(net)

    def b58_prefix(f, body, *more):
        st, t = observe(f, body, *more) if callable(f) else ("exc", None)
        payload = RB.decode_check(t) if st == "ok" and isinstance(t, str) and t.isascii() else None
        return payload[:-len(body)] if payload is not None and len(payload) >= len(body) and payload.endswith(body) else None

    kw = {"symbol": getattr(net, "symbol", None) or old.symbol}
    kw["p2pkh"] = b58_prefix(getattr(net.address, "for_p2pkh", None), b"\x11" * 20)
    kw["p2sh"] = b58_prefix(getattr(net.address, "for_p2sh", None), b"\x11" * 20)
    kw["wif"] = b58_prefix(getattr(net, "wif_for_blob", None), b"\x11" * 32)
    st, t = observe(net.address.for_p2pkh_wit, b"\x11" * 20)
    raw = R32.raw_decode(t) if st == "ok" and isinstance(t, str) else None
    kw["hrp"] = raw[0] if raw else None
    st, t = observe(net.sec_text_for_blob, b"\x02") if callable(getattr(net, "sec_text_for_blob", None)) else ("exc", None)
    kw["sec_prefix"] = t[:-2] if st == "ok" and isinstance(t, str) and t.endswith("02") else None
    for k in KT.BIP_KINDS:
        fam, pp = k.split("_")
        kw[k] = b58_prefix(getattr(net, fam + "_as_string", None), bytes(73) + b"\x11", pp == "prv")
    for f in KT.Params.FIELDS:
        if kw.get(f) is None:
            kw[f] = getattr(old, f)
    P = KT.Params(**kw)
    _PARAMS[id(net)] = (net, P)
    return P


def builder(net, kind):
    c = net.contract
    return {"p2pkh": c.for_p2pkh, "p2sh": c.for_p2sh, "p2pkh_segwit": c.for_p2pkh_wit, "p2sh_segwit": c.for_p2sh_wit, "p2tr": c.for_p2tr}[kind]


# ---------------------------------------------------------------------------------------------
# Base58 addresses whose text begins with a chosen word (texts that look like another format to a parser that
# dispatches on the shape of the text). Constructed by interval arithmetic, not by search.

def body_with_lead(prefix, blen, lead, rng):
    """-> body (blen bytes) such that Base58Check(prefix + body) starts with `lead`, or None when no such body exists."""
    if not lead or any(ch not in RB.ALPHABET for ch in lead):
        return None
    total = len(prefix) + blen + 4
    k = len(lead) - len(lead.lstrip("1"))           # leading '1' characters = leading zero bytes
    rest = lead[k:]
    if not rest:
        return None
    # value range of the non-zero part of prefix + body + checksum
    lo0 = int.from_bytes(prefix, "big") << (8 * (blen + 4))
    hi0 = (int.from_bytes(prefix, "big") + 1) << (8 * (blen + 4))
    lo0, hi0 = max(lo0, 1 << (8 * (total - k - 1))), min(hi0, 1 << (8 * (total - k)))
    if lo0 >= hi0:
        return None
    v = 0
    for ch in rest:
        v = v * 58 + RB.ALPHABET.index(ch)
    cands = []
    for digits in range(len(rest), int(total * 1.37) + 2):
        sc = 58 ** (digits - len(rest))
        lo, hi = max(lo0, v * sc), min(hi0, (v + 1) * sc)
        # all four checksum bytes must stay inside the interval
        plo, phi = -(-lo >> 32), (hi >> 32) - 1
        if plo <= phi:
            cands.append((plo, phi))
    rng.shuffle(cands)
    for plo, phi in cands:
        pv = rng.randrange(plo, phi + 1)
        body = (pv & ((1 << (8 * blen)) - 1)).to_bytes(blen, "big")
        if RB.encode_check(prefix + body).startswith(lead):
            return body
    return None


def case_patterns(word, limit=64):
    """every letter-case spelling of `word` (at most `limit`, the plain / upper / title ones first)."""
    out = [word, word.upper(), word.lower(), word.title(), word.swapcase()]
    letters = [i for i, ch in enumerate(word) if ch.isalpha()]
    if len(letters) <= 6:
        for m in range(1 << len(letters)):
            w = list(word.lower())
            for j, i in enumerate(letters):
                if m >> j & 1:
                    w[i] = w[i].upper()
            out.append("".join(w))
    seen = []
    for w in out:
        if w not in seen:
            seen.append(w)
    return seen[:limit]


def lead_words(P, all_hrps):
    """words another text format of this network (or of a sibling) starts with: '<hrp>1', SEC tag, symbol, key-text leads."""
    words = []
    for hrp in ([P.hrp] if P.hrp else []) + [h for h in all_hrps if h != P.hrp]:
        words += [("hrp", w) for w in case_patterns(hrp + "1", 64 if hrp == P.hrp else 6)]
        words += [("hrp_bare", w) for w in case_patterns(hrp, 4)] if hrp == P.hrp else []
    tag = (P.sec_prefix or "").rstrip(":")
    for w in case_patterns(tag, 4) if tag else []:
        words.append(("sec_tag", w))
    for w in case_patterns(P.symbol or "", 4) if P.symbol else []:
        words.append(("symbol", w))
    for k, prefix in P.b58_prefixes():
        if k in KT.BIP_KINDS or k == "wif":
            n = 74 if k in KT.BIP_KINDS else 33
            a, b = RB.encode_check(prefix + bytes(n)), RB.encode_check(prefix + b"\xff" * n)
            common = 0
            while common < min(len(a), len(b)) and a[common] == b[common]:
                common += 1
            if common:
                words.append(("keytext", a[:min(common, 4)]))
    seen, out = set(), []
    for cls, w in words:
        if w not in seen:
            seen.add(w)
            out.append((cls, w))
    return out


def shaped_hashes(P, all_hrps, rng, per_word=1):
    """-> list of (kind, hash, class, word) for P2PKH / P2SH addresses of this network that begin with a lead word."""
    out = []
    for cls, w in lead_words(P, all_hrps):
        for kind in KT.B58_ADDR_KINDS:
            prefix = P.prefix(kind)
            if prefix is None:
                continue
            for _ in range(per_word):
                h = body_with_lead(prefix, 20, w, rng)
                if h is not None:
                    out.append((kind, h, cls, w))
    return out


# ---------------------------------------------------------------------------------------------
# (i) round trip, (ii) expected text, standard-script classification

def check_kind(sym, net, P, kind, h, rec, alias=True):
    case = {"op": "kind", "net": sym, "kind": kind, "h": h}
    s = KT.script_for(kind, h)
    exp = KT.address_text(P, kind, h)
    rec.case(("kind", sym, kind, h))
    # script construction and classification of the canonical template
    rec.ev("contract.for_" + kind)
    st, built = observe(builder(net, kind), h)
    if st != "ok" or built != s:
        rec.violation("contract.builder_differs_from_template." + kind, case, built, s)
        return
    rec.ev("contract.info_for_script")
    st, info = observe(net.contract.info_for_script, s)
    if st != "ok" or not isinstance(info, dict) or info.get("type") in (None, "unknown"):
        rec.violation("classifier.standard_template_not_recognised." + kind, case, info, "a standard kind")
        return
    rec.ev("contract.for_info")
    st, re = observe(net.contract.for_info, info)
    if st != "ok" or re != s:
        rec.violation("classifier.rebuild_differs." + str(info.get("type")), case, re, s)
        return
    rec.ev("address.for_script")
    st, got = observe(net.address.for_script, s)
    # the direct encoders and the info-based ones are the same mapping seen from other entry points
    rec.ev("address.direct_encoders")
    for name, f, arg in (("for_" + DIRECT[kind], getattr(net.address, "for_" + DIRECT[kind]), h), ("for_script_info", net.address.for_script_info, info),
                         ("contract.new.address", lambda i: net.contract.new(i).address(), info)):
        st2, got2 = observe(f, arg)
        if (st2, got2) != (st, got) and not (exp is None and st2 == "ok" and got2 is None):
            rec.violation("address.entry_points_disagree." + name.replace("for_" + DIRECT[kind], "direct"), dict(case, entry=name), got2, got)
            return
    if exp is None:
        rec.ev("kind_without_declared_prefix")
        if st == "ok" and isinstance(got, str):
            # no declared prefix, yet a text came out: it must at least not be taken for an address of the script
            st2, obj = observe(net.parse.address, got)
            if st2 == "ok" and obj is not None and obj.script() != s:
                rec.violation("address.text_for_undeclared_kind_parses_to_other_script." + kind, case, got, None)
        return
    if st != "ok" or got != exp:
        rec.violation("address.text_differs_from_reference." + kind, case, got, exp)
        return
    rec.ev("parse.address")
    st, obj = observe(net.parse.address, exp)
    if st != "ok" or obj is None:
        rec.violation("roundtrip.address_not_parsed." + kind, case, obj, "contract for %s" % s.hex())
        return
    rec.ev("contract.script")
    st, back = observe(obj.script)
    if st != "ok" or back != s:
        rec.violation("roundtrip.script_differs." + kind, case, back, s)
        return
    rec.ev("roundtrip." + kind)
    rec.ev("contract.info")
    st, inf = observe(obj.info)
    if st != "ok" or not isinstance(inf, dict):
        rec.violation("roundtrip.info_raises." + kind, case, inf, "dict")
        return
    st, a2 = observe(obj.address)
    rec.ev("contract.address")
    if st != "ok" or a2 != exp:
        rec.violation("roundtrip.contract_address_differs." + kind, case, a2, exp)
    # contract.for_address is the same path seen from the contract API
    st, sc = observe(net.contract.for_address, exp)
    rec.ev("contract.for_address")
    if st != "ok" or sc != s:
        rec.violation("roundtrip.for_address_differs." + kind, case, sc, s)
        return
    # the other entry points that read an address text
    for entry in (kind, "payable", "call"):
        rec.ev("parse.entry." + ("kind" if entry == kind else entry))
        st, o = observe(ENTRY[entry], net, exp)
        sc = observe(o.script)[1] if st == "ok" and is_contract(o) else None
        if sc != s:
            rec.violation("roundtrip.entry_point_differs." + ("kind_parser" if entry == kind else entry), dict(case, entry=entry), o if sc is None else sc, s)
            return
    if alias:
        check_alias(sym, net, kind, h, s, exp, obj, case, rec)


DIRECT = {"p2pkh": "p2pkh", "p2sh": "p2sh", "p2pkh_segwit": "p2pkh_wit", "p2sh_segwit": "p2sh_wit", "p2tr": "p2tr"}


def is_contract(o):
    return o is not None and callable(getattr(o, "script", None)) and callable(getattr(o, "info", None))


ENTRY = {
    "address": lambda net, t: net.parse.address(t),
    "payable": lambda net, t: net.parse.payable(t),
    "call": lambda net, t: net.parse(t),
    "for_address": lambda net, t: net.contract.for_address(t),
    "p2pkh": lambda net, t: net.parse.p2pkh(t),
    "p2sh": lambda net, t: net.parse.p2sh(t),
    "p2pkh_segwit": lambda net, t: net.parse.p2pkh_segwit(t),
    "p2sh_segwit": lambda net, t: net.parse.p2sh_segwit(t),
    "p2tr": lambda net, t: net.parse.p2tr(t),
}
# calls whose results are C18's subject; here they only precede / follow the judged ones on the same text object
NOISE = {
    "wif": lambda net, t: net.parse.wif(t),
    "bip32": lambda net, t: net.parse.bip32(t),
    "bip49": lambda net, t: net.parse.bip49(t),
    "bip84": lambda net, t: net.parse.bip84(t),
    "hierarchical_key": lambda net, t: net.parse.hierarchical_key(t),
    "private_key": lambda net, t: net.parse.private_key(t),
    "secret": lambda net, t: net.parse.secret(t),
    "public_key": lambda net, t: net.parse.public_key(t),
    "script": lambda net, t: net.parse.script(t),
}


def check_alias(sym, net, kind, h, s, exp, obj, case, rec):
    """what the caller does with a returned dict, or with the dict it passes in, must not show in later results."""
    rec.ev("alias.history")
    other = bytes(b ^ 0x5a for b in h)
    st, held = observe(obj.info)
    if st == "ok" and isinstance(held, dict):
        for k in list(held):
            if isinstance(held[k], bytes):
                held[k] = other                      # the caller edits the dict it was handed
    st, info = observe(net.contract.info_for_script, s)
    before = dict(info) if st == "ok" and isinstance(info, dict) else None
    st2, re = observe(net.contract.for_info, info)
    if st != "ok" or st2 != "ok" or re != s:
        rec.violation("alias.later_classification_shows_callers_edit", case, re, s)
        return
    if info != before:
        # not forbidden by the statement (only wrong later results are): counted, and the edited dict goes on being used below
        rec.ev("alias.for_info_changed_the_dict_it_was_given")
    info.clear()
    info["type"] = "unknown"
    info["script"] = other
    for step in ("address.for_script", "parse.address", "contract.for_address"):
        if step == "address.for_script":
            st, got = observe(net.address.for_script, s)
            ok = st == "ok" and got == exp
        elif step == "parse.address":
            st, o = observe(net.parse.address, exp)
            got = observe(o.script)[1] if st == "ok" and is_contract(o) else o
            ok = got == s and observe(o.address) == ("ok", exp)
        else:
            st, got = observe(net.contract.for_address, exp)
            ok = st == "ok" and got == s
        if not ok:
            rec.violation("alias.later_result_shows_callers_edit." + step, dict(case, step=step), got, exp if step == "address.for_script" else s)
            return


def check_published(sym, net, P, rec):
    case = {"op": "published", "net": sym}
    rec.case(("published", sym))
    rec.ev("published_prefixes")
    for f, want in zip(("p2pkh", "p2sh", "hrp"), PUBLISHED_PREFIXES[sym]):
        if getattr(P, f) != want:
            rec.violation("params.declared_prefix_differs_from_published", dict(case, field=f), getattr(P, f), want)
            return
    if sym not in PUBLISHED:
        return
    vec = []
    if sym == "BTC":
        vec.append((KT.GENESIS[0], KT.script_p2pkh(KT.GENESIS[1])))
        vec.append((KT.ADDR_G["BTC"]["p2sh_p2wpkh"], KT.script_p2sh(KT.hash160(KT.script_witness(0, KT.H160_G)))))
    vec.append((KT.ADDR_G[sym]["p2pkh"], KT.script_p2pkh(KT.H160_G)))
    vec.append((KT.ADDR_G[sym]["p2pkh_segwit"], KT.script_witness(0, KT.H160_G)))
    for s2, text, spk in KT.SEGWIT_EXAMPLES:
        if s2 == sym:
            vec.append((text, bytes.fromhex(spk)))
    for text, script in vec:
        rec.ev("published_vector")
        st, got = observe(net.address.for_script, script)
        if st != "ok" or got != text:
            rec.violation("published.address_for_script_differs", dict(case, text=text), got, text)
        st, obj = observe(net.parse.address, text)
        if st != "ok" or obj is None or obj.script() != script:
            rec.violation("published.address_parses_to_other_script", dict(case, text=text), obj if st != "ok" or obj is None else obj.script(), script)


# ---------------------------------------------------------------------------------------------
# (iii) key address

def check_key(sym, net, P, se, rec):
    case = {"op": "key", "net": sym, "se": se}
    rec.case(("key", sym, se))
    pt = KT.pubpoint(se)
    if min(pt).bit_length() <= 248:
        rec.ev("key.coordinate_with_leading_zero_byte")
    h = {True: KT.hash160(KT.sec_of(pt, True)), False: KT.hash160(KT.sec_of(pt, False))}
    exp = {c: KT.address_text(P, "p2pkh", h[c]) for c in (True, False)}

    def same_as_script_address(hh, got, what):
        st, a = observe(net.address.for_script, KT.script_p2pkh(hh))
        if st != "ok" or a != got:
            rec.violation("key.address_differs_from_address_of_its_script", dict(case, what=what), got, a)

    for flavour in ("private_c", "private_u", "public"):
        if flavour == "public":
            st, key = observe(net.keys.public, (pt[0], pt[1]))
            comp = True
        else:
            comp = flavour == "private_c"
            st, key = observe(net.keys.private, se, comp)
        if st != "ok":
            rec.violation("key.construction_raises", dict(case, what=flavour), key, "Key")
            return
        # order matters for cached hashes: default, then the other compression, then the first again
        for is_c in (None, not comp, comp, not comp):
            rec.ev("key.address")
            st, got = observe(key.address) if is_c is None else observe(key.address, is_compressed=is_c)
            want = exp[comp if is_c is None else is_c]
            if st != "ok" or got != want:
                rec.violation("key.address_differs_from_reference", dict(case, what=flavour, is_compressed=is_c), got, want)
                return
        rec.ev("key.hash160")
        st, hh = observe(key.hash160)
        if st != "ok" or hh != h[comp]:
            rec.violation("key.hash160_differs_from_reference", dict(case, what=flavour), hh, h[comp])
            return
        same_as_script_address(hh, key.address(), flavour)
    # pay-to-script wrappers of the key's witness program
    wp = KT.script_witness(0, h[True])
    rec.ev("contract.for_p2s")
    st, got = observe(net.contract.for_p2s, wp)
    if st != "ok" or got != KT.script_p2sh(KT.hash160(wp)):
        rec.violation("contract.p2s_differs_from_reference", case, got, KT.script_p2sh(KT.hash160(wp)))
    st, got = observe(net.contract.for_p2s_wit, wp)
    if st != "ok" or got != KT.script_witness(0, __import__("hashlib").sha256(wp).digest()):
        rec.violation("contract.p2s_wit_differs_from_reference", case, got, None)
    st, got = observe(net.address.for_p2s, wp)
    if st != "ok" or got != KT.address_text(P, "p2sh", KT.hash160(wp)):
        rec.violation("address.p2s_differs_from_reference", case, got, KT.address_text(P, "p2sh", KT.hash160(wp)))
    want = KT.address_text(P, "p2sh_segwit", __import__("hashlib").sha256(wp).digest())
    st, got = observe(net.address.for_p2s_wit, wp)
    if st != "ok" or got != want:
        rec.violation("address.p2s_wit_differs_from_reference", case, got, want)
    # hierarchical keys: BIP32 -> P2PKH, BIP49 -> P2SH-P2WPKH, BIP84 -> P2WPKH (compressed key)
    blob = KT.node_blob(3, b"\x01\x02\x03\x04", 5, bytes(range(32)), se=se)
    want = {"bip32": exp[True],
            "bip49": KT.address_text(P, "p2sh", KT.hash160(KT.script_witness(0, h[True]))),
            "bip84": KT.address_text(P, "p2pkh_segwit", h[True])}
    for fam in ("bip32", "bip49", "bip84"):
        st, node = observe(getattr(net.keys, fam + "_deserialize"), b"\0\0\0\0" + blob)
        if st != "ok":
            rec.violation("key.node_construction_raises", dict(case, what=fam), node, "node")
            continue
        for nd, what in ((node, fam + ".private"), (node.public_copy(), fam + ".public")):
            rec.ev("%s.address" % fam)
            st, got = observe(nd.address)
            if st != "ok" or got != want[fam]:
                rec.violation("key.node_address_differs_from_reference." + fam, dict(case, what=what), got, want[fam])
    st, w = observe(net.keys.electrum_private, master_private_key=se)
    if st == "ok":
        rec.ev("electrum.address")
        st, got = observe(w.address)
        if st != "ok" or got != exp[False]:
            rec.violation("key.electrum_address_differs_from_reference", case, got, exp[False])


# ---------------------------------------------------------------------------------------------
# (iii) on every key object the public API hands out, in every query order.
# A key object keeps what it computed (hash memo slots, a default form, cached children) and hands state on to the objects
# made from it (public_copy, subkey, override_network). One history = one fresh source object + a sequence of steps on it and
# on the objects derived from it; every address / hash160 answer (and every address line of ku_output) is compared with the
# reference for (point, requested encoding, address family), whatever was asked before and on whichever object.

FORM_KW = {"d": {}, "n": {"is_compressed": None}, "T": {"is_compressed": True}, "F": {"is_compressed": False}}
NODE_META = (3, b"\x01\x02\x03\x04", 5, bytes(range(32)))      # depth, parent fingerprint, child number, chain code
HIER = ("bip32", "bip49", "bip84")
NOISE_Q = ("fingerprint", "sec", "sec_as_hex", "wif", "as_text", "repr", "is_compressed", "public_pair", "secret_exponent")
OPENINGS = ("a.d", "a.T", "a.F", "a.n", "h.d", "h.T", "h.F", "h.n", "ku", "copy", "query_copy", "noise", "both_copy", "derive", "copy_original")


class Ident(object):
    """what the reference knows about one key object: its point, the form it was made in, the family of its address."""

    def __init__(self, P, fam, pt, dform, private, node=None, origin="source", memo=None):
        self.P, self.fam, self.pt, self.dform, self.private, self.node, self.origin = P, fam, pt, dform, private, node, origin
        self.memo = {} if memo is None else memo

    def h(self, c):
        if ("h", c) not in self.memo:
            self.memo["h", c] = KT.hash160(KT.sec_of(self.pt, c))
        return self.memo["h", c]

    def p2pkh(self, c):
        return KT.address_text(self.P, "p2pkh", self.h(c))

    def wit(self, c):
        return KT.script_witness(0, self.h(c))

    def p2wpkh(self, c):
        return KT.address_text(self.P, "p2pkh_segwit", self.h(c))

    def p2sh_p2wpkh(self, c):
        return KT.address_text(self.P, "p2sh", KT.hash160(self.wit(c)))

    def addr(self, c):
        k = ("a", self.fam, c)
        if k not in self.memo:
            self.memo[k] = self.p2sh_p2wpkh(c) if self.fam == "bip49" else self.p2wpkh(c) if self.fam == "bip84" else self.p2pkh(c)
        return self.memo[k]

    def derived(self, origin, private=None):
        prv = self.private if private is None else private
        node = self.node if (self.node is None or prv) else self.node.neuter()
        return Ident(self.P, self.fam, self.pt, self.dform, prv, node, origin, self.memo)

    def ku_lines(self):
        """address lines of ku_output the reference has a value for (None = the line must not appear with a text)."""
        if self.fam in ("bip49", "bip84"):
            return {"address": self.addr(True)}
        s = self.P.symbol
        seg = self.p2wpkh(True)
        return {"hash160": self.h(True).hex(), "hash160_uncompressed": self.h(False).hex(),
                "address": self.p2pkh(True), s + "_address": self.p2pkh(True),
                "address_uncompressed": self.p2pkh(False), s + "_address_uncompressed": self.p2pkh(False),
                "address_segwit": seg, s + "_address_segwit": seg,
                "p2sh_segwit": self.p2sh_p2wpkh(True), "p2sh_segwit_script": self.wit(True).hex()}


def source_group(name):
    parts = name.split(".wif_")[0].split(".")
    if parts[-1] in ("c", "u", "kw_c", "pos_u", "prv", "pub", "tagged_c", "tagged_u", "sec_c", "sec_u"):
        parts.pop()
    return ".".join(parts)


def _keylike(o):
    return o is not None and all(callable(getattr(o, a, None)) for a in ("address", "hash160", "public_pair", "public_copy"))


def key_sources(net, P, se, pt, other_net):
    """every public way of getting a key object for the secret `se` / the point `pt` on this network.
    -> [(name, thunk, family, default form (None = the source does not say), private, api)]; api = a constructor called with
    valid arguments (must not raise); the parsers are C18's subject and only hand over the object when they return one."""
    secs = {c: KT.sec_of(pt, c) for c in (True, False)}
    pair = (pt[0], pt[1])
    depth, pfp, idx, chain = NODE_META
    blob = {True: KT.node_blob(depth, pfp, idx, chain, se=se), False: KT.node_blob(depth, pfp, idx, chain, point=pt)}
    pad = b"\0\0\0\0"
    S = []

    def add(name, thunk, fam="key", dform=True, private=True, api=True):
        S.append((name, thunk, fam, dform, private, api))

    add("keys.private", lambda: net.keys.private(se))
    add("keys.private.c", lambda: net.keys.private(se, True))
    add("keys.private.kw_c", lambda: net.keys.private(se, is_compressed=True))
    add("keys.private.u", lambda: net.keys.private(se, is_compressed=False), dform=False)
    add("keys.private.pos_u", lambda: net.keys.private(se, False), dform=False)
    add("keys.public.pair", lambda: net.keys.public(pair), private=False)
    add("keys.public.pair.c", lambda: net.keys.public(pair, is_compressed=True), private=False)
    add("keys.public.pair.u", lambda: net.keys.public(pair, is_compressed=False), dform=False, private=False)
    for c, tag in ((True, "c"), (False, "u")):
        add("keys.public.sec." + tag, lambda c=c: net.keys.public(secs[c]), dform=c, private=False)
        add("key_class.from_sec." + tag, lambda c=c: type(net.keys.public(pair)).from_sec(secs[c]), dform=c, private=False)
        add("key_class.init." + tag, lambda c=c: type(net.keys.public(pair))(secret_exponent=se, is_compressed=c), dform=c)
    if P.wif is not None:
        for c, tag in ((True, "c"), (False, "u")):
            t = KT.wif_text(P, se, c)
            for entry in ("wif", "private_key", "secret", "call"):
                add("parse.%s.wif_%s" % (entry, tag), lambda t=t, entry=entry: (ENTRY.get(entry) or NOISE[entry])(net, t), dform=c, api=False)
    add("parse.secret_exponent", lambda: net.parse.secret_exponent(str(se)), dform=None, api=False)
    add("parse.private_key.number", lambda: net.parse.private_key(str(se)), dform=None, api=False)
    for c, tag in ((True, "c"), (False, "u")):
        hx = secs[c].hex()
        add("parse.sec." + tag, lambda hx=hx: net.parse.sec(hx), dform=c, private=False, api=False)
        add("parse.public_key.sec_" + tag, lambda hx=hx: net.parse.public_key(hx), dform=c, private=False, api=False)
        if isinstance(P.sec_prefix, str) and P.sec_prefix:
            add("parse.sec.tagged_" + tag, lambda hx=hx: net.parse.sec(P.sec_prefix + hx), dform=c, private=False, api=False)
    add("parse.public_pair", lambda: net.parse.public_pair("%d/%d" % pair), dform=None, private=False, api=False)
    add("parse.public_pair.parity", lambda: net.parse.public_pair("%d/%s" % (pair[0], "odd" if pair[1] & 1 else "even")), dform=None, private=False, api=False)
    add("parse.public_key.pair", lambda: net.parse.public_key("%d,%d" % pair), dform=None, private=False, api=False)
    for fam in HIER:
        for prv, tag in ((True, "prv"), (False, "pub")):
            add("keys.%s_deserialize.%s" % (fam, tag), lambda fam=fam, prv=prv: getattr(net.keys, fam + "_deserialize")(pad + blob[prv]), fam=fam, private=prv)
            prefix = P.prefix("%s_%s" % (fam, tag))
            if prefix is not None:
                text = RB.encode_check(prefix + blob[prv])
                add("parse.%s.%s" % (fam, tag), lambda fam=fam, text=text: getattr(net.parse, fam)(text), fam=fam, private=prv, api=False)
                add("parse.%s_%s" % (fam, tag), lambda fam=fam, tag=tag, text=text: getattr(net.parse, "%s_%s" % (fam, tag))(text), fam=fam, private=prv, api=False)
                if fam == "bip32":
                    add("parse.hierarchical_key." + tag, lambda text=text: net.parse.hierarchical_key(text), fam=fam, private=prv, api=False)
                    if prv:
                        add("parse.secret.bip32", lambda text=text: net.parse.secret(text), fam=fam, api=False)
                        add("parse.call.bip32", lambda text=text: net.parse(text), fam=fam, api=False)
    add("keys.electrum_private", lambda: net.keys.electrum_private(master_private_key=se), fam="electrum", dform=False)
    add("keys.electrum_public", lambda: net.keys.electrum_public(master_public_key=secs[False][1:]), fam="electrum", dform=False, private=False)
    add("parse.electrum_prv", lambda: net.parse.electrum_prv("E:" + se.to_bytes(32, "big").hex()), fam="electrum", dform=False, api=False)
    add("parse.electrum_pub", lambda: net.parse.electrum_pub("E:" + secs[False][1:].hex()), fam="electrum", dform=False, private=False, api=False)
    add("parse.hierarchical_key.electrum", lambda: net.parse.hierarchical_key("E:" + se.to_bytes(32, "big").hex()), fam="electrum", dform=False, api=False)
    if other_net is not None:
        for c, tag in ((True, "c"), (False, "u")):
            add("override_network.key." + tag, lambda c=c: other_net.keys.private(se, c).override_network(net), dform=None, api=False)
        for prv, tag in ((True, "prv"), (False, "pub")):
            add("override_network.bip32." + tag, lambda prv=prv: other_net.keys.bip32_deserialize(pad + blob[prv]).override_network(net), fam="bip32", private=prv, api=False)
    return S


def gen_key_steps(rng, fam, private, opening, length):
    """one history: an opening class, a random body over every step type, then all six judged queries on every object."""
    steps = []
    objs = [(private, 0)]                # (private, derivation depth) per object index

    def q(i, op=None, f=None):
        return "q%d.%s.%s" % (i, op or rng.choice("ah"), f or rng.choice("dnTF"))

    def noise(i):
        return "n%d.%s.%s" % (i, rng.choice(NOISE_Q), rng.choice("dTF"))

    def copy(i):
        objs.append((False, objs[i][1]))
        return "c%d" % i

    def derive(i):
        prv, depth = objs[i]
        if fam in HIER:
            n = rng.choice([0, 1, 2, 7, 44, 0x7fffffff, rng.randrange(1 << 31)])
            hard = prv and rng.random() < 0.4
            pub = prv and rng.random() < 0.3
            objs.append((prv and not pub, depth + 1))
            return "%s%d.%d%s%s" % (rng.choice("sp"), i, n, "H" if hard else "", ".pub" if pub else "")
        if fam == "electrum":
            objs.append((prv, depth + 1))
            return "e%d.%d-%d" % (i, rng.choice([0, 1, 2, 9, rng.randrange(1000)]), rng.choice([0, 0, 1]))
        objs.append((prv, depth))
        return "i%d.%s" % (i, rng.choice(["subkey", "subkey_for_path", "subkeys"]))

    if opening in ("a.d", "a.T", "a.F", "a.n", "h.d", "h.T", "h.F", "h.n"):
        steps.append(q(0, *opening.split(".")))
    elif opening == "ku":
        steps.append("k0")
    elif opening == "copy":
        steps += [copy(0), q(1)]
    elif opening == "query_copy":
        steps += [q(0), copy(0), q(1)]
    elif opening == "noise":
        steps += [noise(0), q(0)]
    elif opening == "both_copy":
        first = rng.choice("TF")
        steps += [q(0, None, first), q(0, None, "F" if first == "T" else "T"), copy(0), q(1, None, first)]
    elif opening == "derive":
        steps += [derive(0), q(1)]
    elif opening == "copy_original":
        steps += [copy(0), q(1), q(0), q(1)]
    derived = sum(1 for s in steps if s[0] in "spe")
    for _ in range(length):
        r = rng.random()
        i = rng.randrange(len(objs))
        if r < 0.55:
            steps.append(q(i))
        elif r < 0.63:
            steps.append("k%d" % i)
        elif r < 0.77:
            steps.append(noise(i))
        elif r < 0.89 and len(objs) < 4:
            steps.append(copy(i))
        elif len(objs) < 4 and derived < 2 and objs[i][1] < 2:
            steps.append(derive(i))
            derived += steps[-1][0] in "spe"
        else:
            steps.append(q(i))
    closing = [q(i, op, f) for i in range(len(objs)) for op in "ah" for f in "dTF"]
    rng.shuffle(closing)
    return steps + closing


def run_key_history(sym, net, P, se, source, steps, rec, other_sym=None, other_net=None, pt=None):
    case = {"op": "keyhist", "net": sym, "se": se, "source": source, "steps": " ".join(steps), "other": other_sym}
    rec.case(("keyhist", sym, se, source, tuple(steps)))
    pt = pt or RB32.point(se)
    src = [s for s in key_sources(net, P, se, pt, other_net) if s[0] == source]
    if not src:
        rec.ev("keyhist.source_not_declared_here")
        return
    _, thunk, fam, dform, private, api = src[0]
    st, key = observe(thunk)
    if st != "ok" or not _keylike(key) or observe(key.public_pair)[1] != pt:
        if api:
            rec.violation("keyhist.construction_fails", case, key, "key object for the point")
        else:
            rec.ev("keyhist.source_gave_no_key")
        return
    rec.ev("keyhist.history")
    rec.ev("keyhist.source." + source_group(source))
    rec.ev("keyhist.family." + fam)
    depth, pfp, idx, chain = NODE_META
    node = RB32.Node(se if private else None, pt, chain, depth, pfp, idx) if fam in HIER else None
    objs = [(key, Ident(P, fam, pt, dform, private, node))]
    asked = set()
    for n, tok in enumerate(steps):
        head, _, rest = tok.partition(".")
        kind, i = head[0], int(head[1:])
        if i >= len(objs) or objs[i][0] is None:
            continue                       # an earlier step did not produce its object (counted there)
        obj, idn = objs[i]
        here = dict(case, failing_step=n, token=tok, object=idn.origin)
        if kind == "q":
            op, f = rest.split(".")
            rec.ev("key.address" if op == "a" else "key.hash160")
            rec.ev("keyhist.query.%s.%s" % (op, f))
            if n == 0:
                rec.ev("keyhist.first_query.%s.%s" % (op, f))
            if idn.origin != "source":
                rec.ev("keyhist.query_on_" + idn.origin)
            if ("ku", i) in asked:
                rec.ev("keyhist.query_after_ku")
            if f == "T" and idn.dform is False or f == "F" and idn.dform is True:
                rec.ev("keyhist.query_other_form_than_default")
                if idn.origin == "copy":
                    rec.ev("keyhist.query_other_form_on_copy")
            if op == "a" and ("h", i) in asked:
                rec.ev("keyhist.address_after_hash160")
            if any(k == "c" and j == i for k, j in asked) and idn.origin == "source":
                rec.ev("keyhist.query_original_after_copy")
            asked.add((op, i))
            st, got = observe(obj.address if op == "a" else obj.hash160, **FORM_KW[f])
            ref = idn.addr if op == "a" else idn.h
            form = idn.dform if f in "dn" else f == "T"
            if form is None:
                # the source does not fix the default form: the first default answer decides it for this object
                form = True if (st, got) == ("ok", ref(True)) else False
                idn.dform = form
                rec.ev("keyhist.default_form_taken_from_first_answer")
            want = ref(form)
            if st != "ok" or got != want:
                what = "address" if op == "a" else "hash160"
                mech = "keyhist.%s_%s.%s.%s" % (what, "of_other_encoding" if st == "ok" and got == ref(not form) and got != want else "differs_from_reference", idn.fam, idn.origin)
                rec.violation(mech, here, got, want)
                return
        elif kind == "k":
            rec.ev("keyhist.ku_output")
            asked.add(("ku", i))
            st, lines = observe(lambda: list(obj.ku_output()))
            if st != "ok":
                rec.ev("keyhist.ku_output_raises")
                continue
            want = idn.ku_lines()
            for line in lines:
                name, val = line[0], line[1]
                cls = "hash160" if name.startswith("hash160") else "script" if name.endswith("script") else "address"
                if name in want and cls != "address" and isinstance(val, str):
                    val = val.lower()              # hex digits: the letter case carries nothing
                if name in want and val != want[name]:
                    rec.violation("keyhist.ku_%s_line_differs_from_reference.%s.%s" % (cls, idn.fam, idn.origin), dict(here, line=name), val, want[name])
                    return
                if name in want:
                    rec.ev("keyhist.ku_line_judged")
        elif kind == "n":
            name, f = rest.split(".")
            rec.ev("keyhist.noise_call")
            if name in ("fingerprint", "sec", "sec_as_hex", "wif"):
                observe(lambda: getattr(obj, name)(**FORM_KW[f]))
            elif name == "repr":
                observe(repr, obj)
            else:
                observe(lambda: getattr(obj, name)())
        else:
            if kind == "c":
                rec.ev("keyhist.public_copy")
                st, new = observe(obj.public_copy)
                nid = idn.derived("copy" if idn.private or idn.origin == "copy" else idn.origin, private=False)
            elif kind == "i":
                rec.ev("keyhist.identity_path")
                st, new = observe((lambda: next(iter(obj.subkeys()))) if rest == "subkeys" else (lambda: obj.subkey_for_path("")) if rest == "subkey_for_path" else obj.subkey)
                nid = idn.derived(idn.origin)
            elif kind == "e":
                rec.ev("keyhist.electrum_subkey")
                a, b = (int(x) for x in rest.split("-"))
                st, new = observe(obj.subkey, "%d/%d" % (a, b))
                _, cpt = RB32.electrum_child(None, idn.pt, a, b)
                nid = Ident(P, fam, cpt, False, idn.private, None, "child")
            else:
                rec.ev("keyhist.bip32_subkey")
                pub = rest.endswith(".pub")
                path = rest[:-4] if pub else rest
                hard = path.endswith("H")
                num = int(path.rstrip("H"))
                if kind == "s":
                    st, new = observe(obj.subkey, i=num, is_hardened=hard, as_private=False if pub else None)
                else:
                    st, new = observe(obj.subkey_for_path, rest)
                try:
                    child = RB32.derive(idn.node, [num | (RB32.HARD if hard else 0)])
                except RB32.Invalid:
                    objs.append((None, None))
                    continue
                cprv = idn.private and not pub
                nid = Ident(P, fam, child.K, True, cprv, child if cprv else child.neuter(), "child")
            if st != "ok" or not _keylike(new) or observe(new.public_pair)[1] != nid.pt:
                # which key comes out of a derivation is C09's subject; here only addresses of the objects obtained are judged
                rec.ev("keyhist.derived_object_not_obtained")
                objs.append((None, None))           # keeps the numbering; later steps naming it are skipped
                continue
            objs.append((new, nid))
            asked.add((kind, i))


def key_history_workload(sym, net, P, se, rng, rec, reps, other, counter):
    other_sym, other_net = other
    pt = RB32.point(se)
    for name, _, fam, _, private, _ in key_sources(net, P, se, pt, other_net):
        for _ in range(reps):
            opening = OPENINGS[counter[0] % len(OPENINGS)]
            counter[0] += 1
            steps = gen_key_steps(rng, fam, private, opening, rng.choice([2, 4, 6]))
            rec.ev("keyhist.opening." + opening)
            run_key_history(sym, net, P, se, name, steps, rec, other_sym, other_net, pt)


def run_keys(spec, rec, good):
    mine = good[spec["slice"]::spec["of"]]
    scale = spec.get("scale", 1)
    counter = [spec["slice"]]
    for sym, net in mine:
        rng = shard_rng(spec["seed"], PROPERTY, spec["tier"], "keys:" + sym)
        P = params_for(net)
        k = [s for s, _ in good].index(sym)
        other = good[(k + 1 + rng.randrange(len(good) - 1)) % len(good)]
        # a secret and its negative share the x coordinate; small secrets are shared by all networks of the shard
        ses = [1, N - 1, 2]
        for _ in range(1 if scale <= 4 else scale // 8):
            r = rng.randrange(1, N)
            ses += [r, N - r]
        for se in ses:
            key_history_workload(sym, net, P, se, rng, rec, 1 if scale <= 4 else 3, other, counter)
            counter[0] += 1                 # openings rotate against the source list
        rec.ev("keys.net." + sym)
    rec.require("keyhist.history", "keyhist.public_copy", "keyhist.ku_output", "keyhist.ku_line_judged", "keyhist.query_after_ku",
                "keyhist.query_on_copy", "keyhist.query_on_child", "keyhist.query_other_form_than_default", "keyhist.query_other_form_on_copy",
                "keyhist.address_after_hash160", "keyhist.query_original_after_copy", "keyhist.bip32_subkey", "keyhist.electrum_subkey",
                "keyhist.identity_path", "keyhist.source.keys.private", "keyhist.source.keys.public.pair", "keyhist.source.keys.public.sec",
                "keyhist.source.parse.wif", "keyhist.source.parse.sec", "keyhist.source.keys.electrum_private", "keyhist.source.override_network.key",
                "keyhist.family.bip32", "keyhist.family.bip49", "keyhist.family.bip84", "keyhist.family.electrum")
    rec.require(*["keyhist.first_query.%s.%s" % (op, f) for op in "ah" for f in "dTFn"])
    rec.require(*["keyhist.opening." + o for o in OPENINGS])


# ---------------------------------------------------------------------------------------------
# (iv) acceptance implies canonical

def accept_mech(A, default):
    for k in KT.B58_ADDR_KINDS:
        if A.kinds.get(k) == ("bad", "length"):
            return "address.accepts_wrong_length_payload"
    if any(A.kinds.get(k) == ("bad", "segwit") for k in KT.SEGWIT_KINDS):
        return "address.accepts_invalid_segwit_text"
    return default


def text_class(scripts, A, text):
    """region of the text domain, by the reference analysis (the clause 'carries a payload of the right length' lives in the
    wrong-length / invalid-segwit regions: they must be offered, and nothing of them accepted)."""
    if A.payload is not None:
        if any(A.kinds.get(k, ("", ""))[0] == "ok" for k in KT.B58_ADDR_KINDS):
            return "b58_address"
        if any(A.kinds.get(k) == ("bad", "length") for k in KT.B58_ADDR_KINDS):
            return "b58_address_prefix_wrong_length"
        return "b58_key_text" if A.kinds else "b58_other_prefix"
    if A.checksummed:
        if scripts:
            return "segwit_standard" if text == text.lower() else "segwit_standard_upper"
        return "segwit_own_hrp_not_standard" if A.kinds else "bech32_other_hrp"
    return "not_checksummed"


TEXT_CLASSES = ("b58_address", "b58_address_prefix_wrong_length", "b58_key_text", "b58_other_prefix", "segwit_standard",
                "segwit_standard_upper", "segwit_own_hrp_not_standard", "bech32_other_hrp", "not_checksummed")


def check_accept(sym, net, P, text, rec, cls=""):
    case = {"op": "accept", "net": sym, "text": "t:" + text}
    rec.case(("accept", sym, text), nontrivial=len(text) > 0)
    scripts, A = KT.address_script(P, text)
    tc = text_class(scripts, A, text)
    rec.ev("accept.offered." + tc)
    rec.ev("parse.address")
    st, obj = observe(net.parse.address, text)
    if st != "ok":
        rec.ev("parse.address.raises")
        return
    if obj is None:
        rec.ev("parse.address.rejects")
        return
    rec.ev("parse.address.accepts")
    rec.ev("accept.accepted." + tc)
    st, sc = observe(obj.script)
    if st != "ok":
        rec.violation(accept_mech(A, "address.accepted_contract_has_no_script"), case, sc, sorted(scripts))
        return
    if sc not in scripts:
        rec.violation(accept_mech(A, "address.accepts_text_that_denotes_no_script"), case, sc, sorted(scripts))
        return
    rec.ev("address.for_script")
    st, t2 = observe(net.address.for_script, sc)
    if st != "ok" or not isinstance(t2, str):
        rec.violation("address.accepted_script_has_no_address", case, t2, "text")
        return
    st, o2 = observe(net.parse.address, t2)
    if st != "ok" or o2 is None or o2.script() != sc:
        rec.violation("address.reencoding_denotes_other_script", dict(case, reencoded=t2), None if st != "ok" or o2 is None else o2.script(), sc)
        return
    if t2 != text and t2 != text.lower():
        rec.violation("address.two_texts_for_one_script", dict(case, reencoded=t2), t2, text)


def accept_workload(P, rng, scale):
    out = []
    fills = ("rnd",) if scale == 1 else ("zeros", "ff", "rnd", "rnd")
    for kind, prefix in P.b58_prefixes():
        lens = list(range(0, 41)) + ([32, 33] if kind == "wif" else []) + ([73, 74, 75] if kind in KT.BIP_KINDS else [])
        for L in lens:
            for f in fills:
                body = bytes(L) if f == "zeros" else b"\xff" * L if f == "ff" else rbytes(rng, L)
                out.append(RB.encode_check(prefix + body))
    for pfx in (b"\x00", b"\x05", b"\x6f", b"\xc4", b"\x30", b"\x1e"):
        out.append(RB.encode_check(pfx + rbytes(rng, 20)))
    good20 = RB.encode_check((P.p2pkh or b"\0") + rbytes(rng, 20))
    out += [good20[:-1], good20 + "1", "1" + good20, good20[:5] + ("2" if good20[5] != "2" else "3") + good20[6:], good20.upper(), " " + good20, good20 + " "]
    hrps = ([P.hrp] if P.hrp else []) + ["tb" if P.hrp == "bc" else "bc"]
    for hi, hrp in enumerate(hrps):
        own = hi == 0 and P.hrp is not None
        for ver in range(0, 18):
            if own and (ver in (0, 1) or scale > 1):
                lens = range(0, 42)
            elif own:
                lens = (2, 19, 20, 21, 31, 32, 33, 40)
            else:
                lens = (20, 32) if ver in (0, 1) else ()
            for L in lens:
                prog = rbytes(rng, L)
                for const in ("bech32", "bech32m"):
                    t = R32.raw_encode(hrp, [ver] + R32.to5(prog), const)
                    out.append(t)
                    if own and L in (20, 32) and ver in (0, 1):
                        out.append(t.upper())
                        k = rng.choice([i for i, ch in enumerate(t) if ch.isalpha()])
                        out.append(t[:k] + t[k].upper() + t[k + 1:])
        if own:
            for ver, L in ((0, 20), (0, 32), (1, 32)):
                five = R32.to5(rbytes(rng, L))
                five[-1] |= 1
                out.append(R32.raw_encode(hrp, [ver] + five, "bech32" if ver == 0 else "bech32m"))
                out.append(R32.raw_encode(hrp, [ver] + R32.to5(rbytes(rng, L)) + [0], "bech32" if ver == 0 else "bech32m"))
                out.append(R32.raw_encode(hrp.upper(), [ver] + R32.to5(rbytes(rng, L)), "bech32" if ver == 0 else "bech32m"))
    out += ["", " ", "???", "(nulldata 00)", "1", hrps[0] + "1"]
    return out


# ---------------------------------------------------------------------------------------------
# (iv-b) checksummed segwit texts whose 5-bit data part is not the regrouping of any byte string
#
# An address text is the 8-to-5 regrouping of the program with ZERO fill bits; every other value of the fill bits, and every
# surplus symbol, gives a different string with a valid checksum that no network writes for any script. The statement
# allows a network to accept a string only if it is the re-encoding of the script it denotes, so such a string is either
# refused, or what address.for_script gives back for the denoted script is that very string (letter case free).

REGROUP_ENTRIES = ("address", "payable", "call", "for_address", "p2pkh_segwit", "p2sh_segwit", "p2tr")
REGROUP_SUBS = ("nonzero_padding", "surplus_symbols")


def regroup_workload(P, rng, scale):
    """-> [(text, sub, tags)] for the network's own HRP; sub in REGROUP_SUBS; tags = counters describing the witness shape."""
    out = []
    hrp = P.hrp
    if hrp is None:
        return out
    std = ((0, 20), (0, 32), (1, 32))
    nrand = 2 if scale <= 1 else 4 if scale <= 4 else 24
    for ver, L in std:
        own = "bech32" if ver == 0 else "bech32m"
        progs = [bytes(L), b"\xff" * L, bytes(L - 1) + b"\x01", b"\xff" * (L - 1) + b"\xfe"] + [rbytes(rng, L) for _ in range(nrand)]
        p = (-8 * L) % 5
        for pi, prog in enumerate(progs):
            five = R32.to5(prog)
            # every non-zero value of the p fill bits of the last symbol (none when 8L is a multiple of 5)
            for pat in range(1, 1 << p):
                tags = ["pad_width_%d" % p, "pad_low_bit_clear" if pat & 1 == 0 else "pad_low_bit_set",
                        "pad_high_bit_only" if pat == 1 << (p - 1) else "pad_single_bit" if pat & (pat - 1) == 0 else "pad_several_bits"]
                d = [ver] + five[:-1] + [five[-1] | pat]
                t = R32.raw_encode(hrp, d, own)
                out.append((t, "nonzero_padding", tags + ["own_checksum"]))
                if pi < 2 or pat in (2, 8):
                    out.append((t.upper(), "nonzero_padding", tags + ["upper_case"]))
                if pi < 3:
                    out.append((R32.raw_encode(hrp, d, "bech32m" if own == "bech32" else "bech32"), "nonzero_padding", tags + ["other_checksum"]))
            if p:
                out.append((None, "all_pad_patterns", []))
            # surplus symbols after the complete program: left-over bits that are no fill of a last byte
            extras = [[x] for x in range(32)] if p == 0 else [[x] for x in range(1, 32, 2)] + [[0, 0], [0, 1], [0, 16], [31, 31], [rng.randrange(32), rng.randrange(32)]]
            if pi >= 3:
                extras = rng.sample(extras, 4)
            for ex in extras:
                t = R32.raw_encode(hrp, [ver] + five + ex, own)
                out.append((t, "surplus_symbols", ["surplus_%d" % len(ex), "surplus_zero" if not any(ex) else "surplus_nonzero"]))
    # the same on program lengths / versions that are no standard kind (a network need not accept their canonical form at all)
    for ver in (0, 1, 2, 16):
        for L in (2, 3, 4, 21, 31, 33, 38, 39):
            p = (-8 * L) % 5
            if p == 0:
                continue
            five = R32.to5(rbytes(rng, L))
            for pat in sorted({1, 1 << (p - 1), (1 << p) - 1, rng.randrange(1, 1 << p)}):
                t = R32.raw_encode(hrp, [ver] + five[:-1] + [five[-1] | pat], "bech32" if ver == 0 else "bech32m")
                out.append((t, "nonzero_padding", ["pad_width_%d" % p, "not_a_standard_program"]))
    return out


def regroup_shape_ok(P, text):
    """the generator's promise, decided by the reference alone: checksum valid, HRP of the network, data part no regrouping of bytes."""
    raw = R32.raw_decode(text)
    return raw is not None and raw[0] == P.hrp.lower() and len(raw[1]) > 1 and R32.from5(raw[1][1:]) is None and R32.segwit_decode(P.hrp, text) is None


def check_regroup(sym, net, P, text, sub, rec, tags=()):
    case = {"op": "regroup", "net": sym, "text": "t:" + text, "sub": sub}
    if sub not in REGROUP_SUBS or P.hrp is None or not regroup_shape_ok(P, text):
        rec.ev("inconclusive:regroup_generator_shape")
        rec.note("regroup text %r on %s has not the promised shape" % (text, sym))
        return
    rec.case(("regroup", sym, text))
    rec.ev("regroup.offered." + sub)
    for tg in tags:
        rec.ev("regroup.offered." + tg)
    accepted = False
    for entry in REGROUP_ENTRIES:
        rec.ev("regroup.entry." + entry)
        st, o = observe(ENTRY[entry], net, text)
        if st != "ok":
            rec.ev("regroup.refused_by_exception")
            continue
        if isinstance(o, bytes) and entry == "for_address":
            st, sc = "ok", o
        elif is_contract(o):
            st, sc = observe(o.script)
        else:
            rec.ev("regroup.refused" if o is None else "regroup.no_contract_result")      # any other result counts as rejection
            continue
        if st != "ok" or not isinstance(sc, bytes):
            rec.ev("regroup.accepted_contract_without_script")       # check_accept's subject
            continue
        accepted = True
        rec.ev("address.for_script")
        st, t2 = observe(net.address.for_script, sc)
        if st == "ok" and isinstance(t2, str) and t2.lower() == text.lower():
            rec.ev("regroup.accepted_and_reencodes_to_itself")
            continue
        rec.violation("address.accepts_noncanonical_regrouping." + sub, dict(case, entry=entry, script=sc), t2 if st == "ok" else repr(t2), text.lower())
        return
    rec.ev("regroup.accepted" if accepted else "regroup.rejected")


REGROUP_REQUIRED = (["regroup.offered." + s for s in REGROUP_SUBS] + ["regroup.entry." + e for e in REGROUP_ENTRIES] +
                    ["regroup.offered." + t for t in ("pad_width_4", "pad_low_bit_clear", "pad_low_bit_set", "pad_high_bit_only", "pad_single_bit",
                                                      "pad_several_bits", "own_checksum", "other_checksum", "upper_case", "not_a_standard_program",
                                                      "surplus_1", "surplus_2", "surplus_zero", "surplus_nonzero")] +
                    ["regroup.all_pad_patterns", "regroup.rejected"])


def run_nets(spec, rec, good):
    mine = good[spec["slice"]::spec["of"]]
    scale = spec.get("scale", 1)
    for sym, net in mine:
        rng = shard_rng(spec["seed"], PROPERTY, spec["tier"], sym)
        P = params_for(net)
        rec.require("net." + sym)
        if sym in PUBLISHED_PREFIXES:
            check_published(sym, net, P, rec)
        for kind in KINDS:
            L = HLEN[kind]
            # structured payloads: hashes whose hex spelling looks like something else to a text-based script compiler
            # (only decimal digits, leading zero digit, only letters, an opcode-like byte run)
            digit_bytes = [b for b in range(256) if (b >> 4) <= 9 and (b & 15) <= 9]
            shaped = [b"\x11" * L, b"\x99" * L, bytes([0x12, 0x34, 0x56, 0x78, 0x90] * 8)[:L], bytes(rng.choice(digit_bytes[16:]) for _ in range(L)),
                      bytes([0x01]) + bytes(rng.choice(digit_bytes) for _ in range(L - 1)), b"\xab" * L, b"\xde\xad\xbe\xef" * (L // 4), b"\x4f\x50" * (L // 2)]
            hashes = [bytes(L), b"\xff" * L, bytes(range(L)), b"\x00" * (L - 1) + b"\x01"] + shaped + [rbytes(rng, L) for _ in range(16 * scale)]
            for h in hashes:
                check_kind(sym, net, P, kind, h, rec)
        # Base58 addresses that begin like another text format of this (or a sibling) network
        all_hrps = sorted({params_for(n).hrp for _, n in good} - {None})
        for kind, h, cls, word in shaped_hashes(P, all_hrps, rng, per_word=1 if scale <= 4 else 8):
            rec.ev("shaped_text." + cls)
            if cls == "hrp" and word.lower() == (P.hrp or "") + "1":
                rec.ev("shaped_text.own_hrp")
            check_kind(sym, net, P, kind, h, rec, alias=False)
        for se in [1, 2, N - 1, SE_Y_SHORT, SE_X_SHORT] + [rng.randrange(1, N) for _ in range(2 * scale)]:
            check_key(sym, net, P, se, rec)
        for text in accept_workload(P, rng, scale):
            check_accept(sym, net, P, text, rec)
        for text, sub, tags in regroup_workload(P, rng, scale):
            if text is None:
                rec.ev("regroup." + sub)
            else:
                check_regroup(sym, net, P, text, sub, rec, tags)
        # queries issued after the failed / rejected calls above
        for kind in KINDS:
            check_kind(sym, net, P, kind, rbytes(rng, HLEN[kind]), rec)
        rec.ev("net." + sym)
        if sym == "BTC" or len(rec.samples) < 1:
            h = rbytes(rng, 20)
            rec.sample({"net": sym, "kind": "p2sh", "hash160": h, "script": KT.script_p2sh(h), "address": KT.address_text(P, "p2sh", h)}, limit=2)


# ---------------------------------------------------------------------------------------------
# (v) cross-network acceptance

def check_cross(a_sym, b_sym, b_net, PB, kind, text, rec):
    """text = a canonical address text of A (Base58Check, or lower-case segwit). B may accept it only as a text B itself
    writes: the script B reads must be what the reference model of B reads, and B's text for that script must be this text."""
    case = {"op": "cross", "from": a_sym, "net": b_sym, "kind": kind, "text": "t:" + text}
    rec.case(("cross", a_sym, b_sym, kind, text))
    rec.ev("cross.parse.address")
    scripts, A = KT.address_script(PB, text)           # what the text denotes on B by B's declared prefixes (often nothing)
    if scripts:
        rec.ev("cross.text_is_also_the_other_networks")
    st, obj = observe(b_net.parse.address, text)
    if st != "ok" or obj is None:
        rec.ev("cross.rejected")
        if scripts:
            # the round trip on B: this is the very text B writes for that script
            rec.violation("cross.rejects_address_it_writes_itself", case, obj, sorted(scripts))
        return
    st, sc = observe(obj.script)
    st2, t2 = observe(b_net.address.for_script, sc) if st == "ok" else ("exc", None)
    if st != "ok" or st2 != "ok" or t2 != text:
        rec.violation(accept_mech(A, "cross.accepts_address_it_would_not_produce"), case, [sc, t2], text)
        return
    if sc not in scripts:
        # B's parser and B's encoder agree with each other, but not with what B declares
        rec.violation(accept_mech(A, "cross.accepts_address_the_reference_would_not_produce"), case, [sc, t2], sorted(scripts))
        return
    rec.ev("cross.shared_encoding")
    if A.kinds.get(kind, ("", None))[0] != "ok":
        rec.ev("cross.shared_text_other_kind")          # e.g. A's P2PKH version byte is B's P2SH version byte


def check_override(a_sym, a_net, b_sym, b_net, PB, kind, h, text, rec):
    """a Contract read on A and moved to B (Contract.override_network) is B's contract for the same script."""
    case = {"op": "override", "from": a_sym, "net": b_sym, "kind": kind, "h": h, "text": "t:" + text}
    rec.case(("override", a_sym, b_sym, kind, h))
    st, obj = observe(a_net.parse.address, text)
    s = KT.script_for(kind, h)
    if st != "ok" or not is_contract(obj) or observe(obj.script) != ("ok", s):
        return          # judged by the round trip on A
    rec.ev("contract.override_network")
    st, moved = observe(obj.override_network, b_net)
    want = KT.address_text(PB, kind, h)
    sc = observe(moved.script)[1] if st == "ok" and is_contract(moved) else None
    if sc != s:
        rec.violation("override.script_differs", case, moved if sc is None else sc, s)
        return
    st, got = observe(moved.address)
    if want is None:
        rec.ev("override.kind_without_declared_prefix")
    elif st != "ok" or got != want:
        rec.violation("override.address_is_not_the_other_networks", case, got, want)
        return
    # and the original object still speaks for A
    if observe(obj.address) != ("ok", text) or observe(obj.script) != ("ok", s):
        rec.violation("override.changes_original_contract", case, observe(obj.address)[1], text)


def run_cross(spec, rec, good):
    scale = spec.get("scale", 1)
    params = {sym: params_for(net) for sym, net in good}
    mine = good[spec["slice"]::spec["of"]]
    for a_sym, a_net in mine:
        rng = shard_rng(spec["seed"], PROPERTY, "cross", a_sym)
        PA = params[a_sym]
        texts = []
        first = {}
        for kind in KINDS:
            for h in [rbytes(rng, HLEN[kind]) for _ in range(1 + scale)] + [bytes(HLEN[kind])]:
                t = KT.address_text(PA, kind, h)
                if t is not None:
                    texts.append((kind, t))
                    first.setdefault(kind, (h, t))
        for b_sym, b_net in good:
            if b_sym == a_sym:
                continue
            rec.ev("cross.pair")
            for kind, t in texts:
                check_cross(a_sym, b_sym, b_net, params[b_sym], kind, t, rec)
            for kind, (h, t) in first.items():
                check_override(a_sym, a_net, b_sym, b_net, params[b_sym], kind, h, t, rec)
    rec.require("cross.pair", "cross.parse.address", "contract.override_network", "cross.rejected", "cross.shared_encoding",
                "cross.text_is_also_the_other_networks")
    if spec["slice"] == 0:
        n = len(good)
        rec.note("cross-network: %d usable networks, %d ordered pairs over all cross shards" % (n, n * (n - 1)))


# ---------------------------------------------------------------------------------------------
# (i) + (v) on a reused text object: one parseable_str (or one str) offered to several networks / entry points in turn

KIND_ENTRIES = ("p2pkh", "p2sh", "p2pkh_segwit", "p2sh_segwit", "p2tr")
ANY_ENTRIES = ("address", "address", "address", "for_address", "payable", "call")


_ANALYSIS = {}


def expectation(P, text, entry):
    """-> (scripts the call may return, must it accept) for a judged entry point, from the reference model."""
    key = (P.symbol, text)
    if key not in _ANALYSIS:
        if len(_ANALYSIS) > 20000:
            _ANALYSIS.clear()
        _ANALYSIS[key] = KT.address_script(P, text)
    scripts, A = _ANALYSIS[key]
    # the text is one the network itself writes: any Base58Check text with its prefix and a 20-byte body, or the
    # lower-case segwit text (other spellings of a bech32 string may be accepted or not)
    must = bool(scripts) and (A.payload is not None or text == text.lower())
    if entry in KIND_ENTRIES:
        # a parser named after one kind has to accept the texts of that kind; whatever it accepts must denote the script
        v = A.kinds.get(entry)
        must = must and bool(v) and v[0] == "ok"
    return scripts, must


def run_history(text, carrier, steps, nets, params, rec, origin=""):
    """steps = [(symbol, entry)]; all calls receive the SAME text object."""
    case = {"op": "reuse", "net": steps[0][0], "text": "t:" + text, "carrier": carrier, "steps": " ".join("%s:%s" % x for x in steps), "origin": origin}
    rec.case(("reuse", text, carrier, tuple(steps)))
    rec.ev("reuse.history." + carrier)
    if carrier == "pstr":
        st, obj = observe(nets[steps[0][0]].parseable_str_type, text)
        if st != "ok" or obj != text:
            rec.violation("reuse.parseable_str_type_unusable", case, obj, text)
            return
    else:
        obj = "".join(list(text))          # one plain str object of our own
    seen = set()
    for i, (sym, entry) in enumerate(steps):
        net = nets[sym]
        if entry in NOISE:
            rec.ev("reuse.noise_call")
            observe(NOISE[entry], net, obj)
            continue
        rec.ev("reuse.call." + ("kind_parser" if entry in KIND_ENTRIES else entry))
        if seen and sym not in seen:
            rec.ev("reuse.call_after_other_network")
        seen.add(sym)
        scripts, must = expectation(params[sym], text, entry)
        st, o = observe(ENTRY[entry], net, obj)
        if entry == "for_address":
            sc = o if st == "ok" and isinstance(o, bytes) else None
            addr = None
        else:
            sc = observe(o.script)[1] if st == "ok" and is_contract(o) else None
            addr = observe(o.address)[1] if sc is not None else None
        if not isinstance(sc, bytes):
            sc = None
        here = dict(case, net=sym, failing_step=i)
        if sc is None:
            rec.ev("reuse.rejected")
            if must:
                rec.violation("reuse.%s.rejects_address_it_writes" % carrier, here, o, sorted(scripts))
                return
            continue
        rec.ev("reuse.accepted")
        if sc not in scripts:
            rec.violation("reuse.%s.accepts_address_it_would_not_write" % carrier, here, sc, sorted(scripts))
            return
        if addr is not None and must and addr != text:
            rec.violation("reuse.%s.contract_of_other_network" % carrier, here, addr, text)
            return
    if obj != text:
        rec.violation("reuse.text_object_changed", case, str(obj), text)


def related_networks(a_sym, good, params):
    """networks that share the coin name, a Base58 prefix or the HRP with a_sym (what a cache key could conflate)."""
    PA = params[a_sym]
    name = {sym: getattr(net, "network_name", None) for sym, net in good}
    out = []
    for sym, _ in good:
        if sym == a_sym:
            continue
        PB = params[sym]
        if name[sym] == name[a_sym] or any(getattr(PA, f) is not None and getattr(PA, f) == getattr(PB, f) for f in ("p2pkh", "p2sh", "hrp", "wif")):
            out.append(sym)
    return out


def run_reuse(spec, rec, good):
    scale = spec.get("scale", 1)
    nets = dict(good)
    params = {sym: params_for(net) for sym, net in good}
    syms = [s for s, _ in good]
    all_hrps = sorted({p.hrp for p in params.values()} - {None})
    mine = good[spec["slice"]::spec["of"]]
    per_kind = 2 if scale <= 4 else 120
    for a_sym, a_net in mine:
        rng = shard_rng(spec["seed"], PROPERTY, "reuse", a_sym)
        PA = params[a_sym]
        texts = []
        for kind in KINDS:
            for h in [rbytes(rng, HLEN[kind]) for _ in range(per_kind)]:
                t = KT.address_text(PA, kind, h)
                if t is not None:
                    texts.append(t)
                    if kind in KT.SEGWIT_KINDS and rng.random() < 0.5:
                        texts.append(t.upper())
        shaped = shaped_hashes(PA, all_hrps, rng)
        for kind, h, cls, word in rng.sample(shaped, min(len(shaped), 3 if scale <= 4 else 40)):
            texts.append(KT.address_text(PA, kind, h))
        if PA.wif is not None:
            texts.append(KT.wif_text(PA, rng.randrange(1, N)))
        rel = related_networks(a_sym, good, params)
        if any(getattr(nets[b], "network_name", None) == getattr(a_net, "network_name", None) for b in rel):
            rec.ev("reuse.sibling_networks_share_name")
        entries = lambda k: [rng.choice(ANY_ENTRIES + KIND_ENTRIES) if rng.random() < 0.8 else rng.choice(sorted(NOISE)) for _ in range(k)]
        for t in texts:
            # every network in turn, as a tool that tries one text against the whole registry does
            for carrier in ("pstr", "str"):
                order = syms[:]
                rng.shuffle(order)
                plain = rng.random() < 0.5
                run_history(t, carrier, [(s, "address" if plain else rng.choice(ANY_ENTRIES)) for s in order], nets, params, rec, a_sym)
                rec.ev("reuse.sweep")
            # the producer and one related network, in both orders, through mixed entry points
            for b_sym in rel + rng.sample(syms, 2):
                for first, second in ((a_sym, b_sym), (b_sym, a_sym)):
                    steps = [(first, e) for e in entries(rng.choice([1, 1, 2]))] + [(second, e) for e in entries(rng.choice([1, 2]))]
                    if rng.random() < 0.3:
                        steps += [(first, e) for e in entries(1)]
                    run_history(t, "pstr" if rng.random() < 0.8 else "str", steps, nets, params, rec, a_sym)
                    rec.ev("reuse.pair")
            # every entry point of the producer on one object, in random order
            steps = [(a_sym, e) for e in ("address", "for_address", "payable", "call") + KIND_ENTRIES + tuple(rng.sample(sorted(NOISE), 3))]
            rng.shuffle(steps)
            run_history(t, "pstr", steps, nets, params, rec, a_sym)
    rec.require("reuse.history.pstr", "reuse.history.str", "reuse.sweep", "reuse.pair", "reuse.accepted", "reuse.rejected",
                "reuse.call_after_other_network", "reuse.call.address", "reuse.call.payable", "reuse.call.call", "reuse.call.for_address",
                "reuse.call.kind_parser", "reuse.sibling_networks_share_name")


# ---------------------------------------------------------------------------------------------
# (vi) classification fidelity

OP_CHECKSIG, OP_CHECKMULTISIG, OP_DUP, OP_HASH160, OP_EQUAL, OP_EQUALVERIFY, OP_RETURN, OP_NOP = 0xac, 0xae, 0x76, 0xa9, 0x87, 0x88, 0x6a, 0x61


def enc_push(data, form):
    n = len(data)
    if form == "direct" and n <= 75:
        return bytes([n]) + data
    if form == "pd1" and n <= 255:
        return b"\x4c" + bytes([n]) + data
    if form == "pd2" and n <= 65535:
        return b"\x4d" + n.to_bytes(2, "little") + data
    if form == "pd4":
        return b"\x4e" + n.to_bytes(4, "little") + data
    return KT.push(data)


TEMPLATES = ("p2pkh", "p2sh", "p2pkh_wit", "p2sh_wit", "p2tr", "p2pk", "nulldata", "multisig")


def template_items(rng):
    """one standard template as a list of items: int opcode or ('push', data)."""
    t = rng.randrange(9)
    pt = lambda: KT.pubpoint(rng.choice([1, 2, 3, 5, 7, 11, 13]))
    sec = lambda: KT.sec_of(pt(), rng.random() < 0.7) if rng.random() < 0.7 else bytes([rng.choice([2, 3])]) + rbytes(rng, 32)
    if t == 0:
        return "p2pkh", [OP_DUP, OP_HASH160, ("push", rbytes(rng, 20)), OP_EQUALVERIFY, OP_CHECKSIG]
    if t == 1:
        return "p2sh", [OP_HASH160, ("push", rbytes(rng, 20)), OP_EQUAL]
    if t == 2:
        return "p2pkh_wit", [0x00, ("push", rbytes(rng, 20))]
    if t == 3:
        return "p2sh_wit", [0x00, ("push", rbytes(rng, 32))]
    if t == 4:
        return "p2tr", [0x51, ("push", rbytes(rng, 32))]
    if t == 5:
        return "p2pk", [("push", sec()), OP_CHECKSIG]
    if t == 6:
        return "nulldata", [OP_RETURN, ("push", rbytes(rng, rng.choice([0, 1, 20, 40, 80])))]
    n = rng.choice([1, 1, 2, 3, 3, 5, 15, 16])
    m = rng.randrange(1, n + 1)
    return "multisig", [0x50 + m] + [("push", sec()) for _ in range(n)] + [0x50 + n, OP_CHECKMULTISIG]


def assemble(items, forms=None):
    out = b""
    pi = 0
    for it in items:
        if isinstance(it, int):
            out += bytes([it])
        elif it[0] == "raw":
            out += it[1]
        else:
            out += enc_push(it[1], (forms or {}).get(pi, "min"))
            pi += 1
    return out


def script_variants(rng):
    """yield (class, script bytes) derived from one random standard template."""
    name, items = template_items(rng)
    yield "canonical." + name, assemble(items)
    pushes = [i for i, it in enumerate(items) if not isinstance(it, int)]
    # each push re-encoded non-canonically
    for k in range(len(pushes)):
        for form in ("pd1", "pd2", "pd4"):
            yield "noncanonical_push." + name, assemble(items, {k: form})
    if len(pushes) > 1:
        yield "noncanonical_push." + name, assemble(items, {k: rng.choice(["pd1", "pd2"]) for k in range(len(pushes))})
    # one opcode altered
    ops = [i for i, it in enumerate(items) if isinstance(it, int)]
    for i in ops:
        for alt in {items[i] ^ 1, (items[i] + 1) & 255, rng.randrange(256), OP_NOP, 0x00, 0x51, 0x60}:
            if alt != items[i]:
                yield "opcode_altered." + name, assemble(items[:i] + [alt] + items[i + 1:])
    # constant opcodes written as explicit pushes
    for i in ops:
        if items[i] == 0x00:
            yield "const_as_push." + name, assemble(items[:i] + [("raw", b"\x4c\x00")] + items[i + 1:])
        if 0x51 <= items[i] <= 0x60:
            yield "const_as_push." + name, assemble(items[:i] + [("raw", bytes([1, items[i] - 0x50]))] + items[i + 1:])
    base = assemble(items)
    for tail in (b"\x00", b"\x61", b"\x51", b"\xac", bytes([rng.randrange(256)]), rbytes(rng, 3)):
        yield "trailing_bytes." + name, base + tail
        yield "leading_bytes." + name, tail + base
    for cut in {1, len(base) - 1, len(base) - 2, rng.randrange(1, max(2, len(base)))}:
        if 0 < cut < len(base):
            yield "truncated." + name, base[:cut]
    # data length off by one / other sizes
    for i in (pushes[:2] + pushes[-1:] if len(pushes) > 3 else pushes):
        d = items[i][1]
        for nd in (d[:-1], d + b"\x00", d[:-2], d + rbytes(rng, 12), rbytes(rng, 32), rbytes(rng, 33), rbytes(rng, 65), rbytes(rng, 120), rbytes(rng, 121), b""):
            if nd != d:
                yield "data_length." + name, assemble(items[:i] + [("push", nd)] + items[i + 1:])
    if name == "multisig":
        keys = [it for it in items if not isinstance(it, int)]
        n = len(keys)
        m = items[0] - 0x50
        for mm, nn, ks in ((0, n, keys), (n + 1 if n < 16 else 16, n, keys), (m, n + 1 if n < 16 else 15, keys), (m, max(1, n - 1), keys),
                           (m, n, keys[:-1]), (m, n, keys + keys[:1]), (16, 16, (keys * 16)[:16]), (15, 16, (keys * 16)[:16])):
            yield "multisig_counts", assemble([(0x50 + mm) if mm else 0x00] + list(ks) + [0x50 + nn, OP_CHECKMULTISIG])
        k17 = (keys * 17)[:17]
        yield "multisig_17_keys", assemble([0x50 + m] + k17 + [0x61, OP_CHECKMULTISIG])
        yield "multisig_17_keys", assemble([0x51] + k17 + [("raw", b"\x01\x11"), OP_CHECKMULTISIG])
        k20 = (keys * 20)[:20]
        yield "multisig_20_keys", assemble([0x51] + k20 + [0x64, OP_CHECKMULTISIG])
        yield "multisig_n_as_push", assemble([0x50 + m] + keys + [("raw", bytes([1, n])), OP_CHECKMULTISIG])
        yield "multisig_verify", assemble([0x50 + m] + keys + [0x50 + n, 0xaf])


def random_script(rng):
    mode = rng.random()
    if mode < 0.4:
        return "random_bytes", rbytes(rng, rng.choice([0, 1, 2, 3, 5, 22, 23, 25, 34, 35, 67, rng.randrange(0, 120)]))
    out = b""
    for _ in range(rng.randrange(1, 8)):
        r = rng.random()
        if r < 0.45:
            out += bytes([rng.choice([0x00, 0x51, 0x52, 0x60, 0x76, 0xa9, 0x87, 0x88, 0xac, 0xae, 0x6a, 0x61, rng.randrange(0x4f, 256)])])
        else:
            d = rbytes(rng, rng.choice([0, 1, 20, 20, 32, 32, 33, 33, 65, 75, 76, 80, 120, 121, rng.randrange(0, 130)]))
            out += enc_push(d, rng.choice(["min", "min", "min", "pd1", "pd2", "pd4"]))
    return "random_ops", out


def classify_mech(s, rebuilt, info):
    typ = str(info.get("type"))
    if isinstance(rebuilt, bytes) and KT.same_elements(s, rebuilt):
        return "classifier.noncanonical_push_reported_standard"
    if typ == "multisig":
        ps = KT.parse_script(s)
        if ps is not None:
            i = 1
            while i < len(ps) and ps[i][1] is not None and 33 <= len(ps[i][1]) <= 120:
                i += 1
            # the element that follows the keys is read as the key count
            if i < len(ps) and not (0x51 <= ps[i][0] <= 0x60):
                return "classifier.multisig_key_count_opcode_not_checked"
    return "classifier.rebuild_differs." + typ


def check_classify(sym, net, s, rec, cls=""):
    case = {"op": "classify", "net": sym, "script": s}
    rec.case(("classify", s), nontrivial=len(s) > 0)
    rec.ev("contract.info_for_script")
    st, info = observe(net.contract.info_for_script, s)
    if st != "ok":
        rec.ev("classify.raises")
        return
    typ = info.get("type") if isinstance(info, dict) else None
    rec.ev("classified." + str(typ))
    if typ in (None, "unknown"):
        return
    rec.ev("contract.for_info")
    st, rebuilt = observe(net.contract.for_info, info)
    if st != "ok" or rebuilt != s:
        rec.violation(classify_mech(s, rebuilt, info), case, rebuilt, s)
        return
    rec.ev("classify.faithful")
    if cls.startswith("canonical."):
        rec.ev("classify.faithful." + cls)
    elif cls:
        rec.ev("classify.variant_reported_standard")


def run_classify(spec, rec, good):
    rng = shard_rng(spec["seed"], PROPERTY, spec["tier"], "classify%d" % spec["slice"])
    n = spec["n"]
    done = 0
    i = 0
    while done < n:
        sym, net = good[(i + spec["slice"]) % len(good)] if i % 3 else [g for g in good if g[0] == "BTC"][0]
        i += 1
        for cls, s in script_variants(rng):
            rec.ev("class." + cls.split(".")[0])
            check_classify(sym, net, s, rec, cls)
            done += 1
        for _ in range(14):
            cls, s = random_script(rng)
            rec.ev("class." + cls)
            check_classify(sym, net, s, rec, cls)
            done += 1
    rec.require("contract.info_for_script", "contract.for_info", "classify.faithful", "class.noncanonical_push", "class.opcode_altered",
                "class.trailing_bytes", "class.random_bytes", "class.leading_bytes", "class.truncated", "class.data_length",
                "class.const_as_push", "class.multisig_counts", "class.random_ops", "classified.unknown", "classify.variant_reported_standard")
    # the fidelity clause was decided on a reported-standard script of every template (else it held vacuously for that kind)
    rec.require(*["classify.faithful.canonical." + t for t in TEMPLATES])
    rec.sample({"op": "classify", "example": "p2pkh with PUSHDATA1 push", "script": b"\x76\xa9\x4c\x14" + bytes(20) + b"\x88\xac"}, limit=1)


# ---------------------------------------------------------------------------------------------

def run_shard(spec, rec):
    import contextlib
    import io
    good, skipped = NETS.usable_networks()
    NETS.require_registry(rec, good, skipped)
    with contextlib.redirect_stdout(io.StringIO()):
        {"nets": run_nets, "cross": run_cross, "classify": run_classify, "reuse": run_reuse, "keys": run_keys}[spec["kind"]](spec, rec, good)
    if spec["kind"] == "nets":
        rec.require("address.for_script", "parse.address", "contract.info_for_script", "contract.for_info", "key.address",
                    "bip49.address", "bip84.address", "parse.address.accepts", "parse.address.rejects", "address.direct_encoders",
                    "parse.entry.kind", "parse.entry.payable", "parse.entry.call", "alias.history", "shaped_text.sec_tag",
                    "contract.script", "contract.address", "contract.for_address", "contract.for_p2s", "bip32.address", "electrum.address",
                    "key.hash160", "key.coordinate_with_leading_zero_byte", "published_prefixes", "published_vector", "accept.accepted.b58_address", "accept.accepted.segwit_standard")
        rec.require(*["accept.offered." + c for c in TEXT_CLASSES])
        rec.require(*REGROUP_REQUIRED)
        # every listed kind went the whole way script -> text -> script on some network (BTC declares all five)
        rec.require(*["roundtrip." + k for k in KINDS])
        if any(sym == "LTC" for sym, _ in good[spec["slice"]::spec["of"]]):
            # LTC: version 0x30 ('L...') and HRP 'ltc' are published values, so 'LTC1...' P2PKH addresses exist
            rec.require("shaped_text.own_hrp")


def _text(t):
    if isinstance(t, bytes):
        t = "x:" + t.hex()
    if isinstance(t, int):
        t = str(t)
    return t[2:] if t.startswith("t:") else t


def replay_case(case, rec):
    from pycoin.networks.registry import network_for_netcode
    net = network_for_netcode(case["net"])
    sym = case["net"]
    P = params_for(net)
    op = case["op"]
    if op == "kind":
        check_kind(sym, net, P, case["kind"], case["h"], rec)
    elif op == "published":
        check_published(sym, net, P, rec)
    elif op == "key":
        check_key(sym, net, P, int(case["se"]), rec)
    elif op == "keyhist":
        other = network_for_netcode(case["other"]) if case.get("other") else None
        run_key_history(sym, net, P, int(case["se"]), case["source"], case["steps"].split(), rec, case.get("other"), other)
    elif op == "accept":
        check_accept(sym, net, P, _text(case["text"]), rec)
    elif op == "regroup":
        check_regroup(sym, net, P, _text(case["text"]), case["sub"], rec)
    elif op == "override":
        a = network_for_netcode(case["from"])
        check_override(case["from"], a, sym, net, P, case["kind"], case["h"], _text(case["text"]), rec)
    elif op == "cross":
        check_cross(case["from"], sym, net, P, case["kind"], _text(case["text"]), rec)
    elif op == "reuse":
        steps = [tuple(x.split(":")) for x in case["steps"].split()]
        nets = {s: network_for_netcode(s) for s, _ in steps}
        run_history(_text(case["text"]), case["carrier"], steps, nets, {s: params_for(n) for s, n in nets.items()}, rec, case.get("origin", ""))
    elif op == "classify":
        s = case["script"]
        check_classify(sym, net, s if isinstance(s, bytes) else b"", rec)
