"""C17 — signed text messages verify for the signer only and never crash the verifier."""
import random
import re
import zlib

from vmon.probe import shard_rng, observe
from vmon.refs import b58 as RB, ec as REC, msgsign as RM, sec as RS
from vmon.gen import textequiv as TE, armoursyntax as AS

PROPERTY = "C17"
PRELOAD_NETWORK_ORDERS = [["btc", "xtn", "ltc", "bch", "grs", "doge", "dash", "btg"], ["btg", "grs", "bch", "doge", "ltc", "xtn", "btc"]]
LEVEL = "exploration"
TECHNIQUE = ("runtime monitor at network.msg.* vs an independent message-digest / compact-signature / public-key-recovery "
             "reference; totality oracle (bool, never an exception) over hostile signature text")
RULE = ("honest cases: (network, secret exponent, compression flag, message) with keys at the range boundaries and random, "
        "messages empty / ASCII / multi-line LF-only or CRLF-only / 252, 253, 65,535 and 65,536 bytes (the length-prefix boundaries) "
        "and beyond / non-BMP unicode / marker look-alikes / leading and trailing whitespace, on every usable registered network with "
        "the OpenSSL arithmetic (quick: 18 cases per network - both key forms, the 12 boundary keys, a block of 12 of the 32 fixed "
        "messages that moves on from network to network, 6 random ones) and, with the pure-Python arithmetic, on every network "
        "(thorough) or every third one, rotating with the seed (quick): digest, signature layout, recovery by reference arithmetic, "
        "verify for key / public key / address, "
        "negatives (other message, negated and unrelated key, other-compression and unrelated address, the script-hash address "
        "carrying the signer's key hash, other network), armoured "
        "round trip. Each network, key form, key class, message region and configuration x workload has its own required counter. "
        "hostile cases: (network, target key or address, signature text): header byte 0..255, r in {0, 1, n-1, n, "
        "n+1, p-1, p, p+1, 2^256-1, x without a curve point ...} x all 8 headers, s in {0, n, ...}, every bit of a valid signature "
        "flipped, base64 of every length 0..100 bytes, non-base64 and non-ASCII text, aliases (r+n, s=0) against the key they "
        "would recover, signatures whose recovered key would be the point at infinity, and valid signatures with recovery id 2 / 3 "
        "(R.x in [n, p)) for the key they really recover, which must verify. template-syntax messages: text built only from the meta-characters and field names of text templating "
        "({msg} {addr} {sig} {net_name} {} {0} {{ }} %s %(addr)s $addr ${sig} \\1 \\g<0> ...), so that any way of filling the armour "
        "other than one simultaneous substitution shows. message named by digest: every positive / negative verification is "
        "repeated through verify(..., msg_hash=digest) with message left None, right digest / digest of another message / right "
        "digest again, back to back on the same signer object. histories: episodes of 24-40 calls on one or two network objects "
        "(verify by text, by keyword, by digest; sign; sign verbose + parse; signature_for_message_hash; pair_for_message_hash; "
        "hash_for_signing) in which each call differs from the previous one in exactly one coordinate (network, key, compression, "
        "target kind, signature text, message, spelling of the message) or repeats it, with malformed signature texts (failed "
        "calls) interleaved; every outcome is judged by the reference alone, so any state kept on the reused signer object "
        "(memo of the last recovery / digest / signature / parsed address) that leaks between calls shows. "
        "equivalent spellings: pairs (a, b) of DIFFERENT messages that a text canonicalisation identifies (vmon/gen/textequiv.py: Unicode "
        "NFC / NFD / NFKC / NFKD forms, partial decompositions, singleton code points, reordered combining marks; lower / upper / title / "
        "case-folded; leading, trailing, doubled, tab / no-break white space, trailing blanks per line, final newline; LF / CRLF / CR / "
        "U+2028 / NEL newlines; byte order mark, zero-width and other format characters, variation selectors; NUL suffix and control "
        "characters; accents dropped; typographic vs ASCII punctuation; digits of other scripts; cross-script look-alikes; HTML / percent / "
        "backslash escapes; mojibake, '?'-replaced text, and - as queried message only - UTF-16 surrogate pairs, lone or "
        "surrogate-escaped surrogates and bytes objects in other encodings), drawn from both sides of each equivalence (canonical form "
        "signed and the other queried, the reverse, and two non-canonical spellings): each side is signed, digested, verified for key / "
        "public key / address, armoured and parsed on the same signer object, and the other side's text is then queried against that "
        "signature by key, by public key, by address, by keyword, and inside the armour (the signed armour with the message body "
        "exchanged, parsed, the parsed triple verified); every honest and history case also queries respellings of its own message. "
        "armour-syntax messages (vmon/gen/armoursyntax.py): every syntactic element of the armour and of the clearsign format it imitates - "
        "'Label: value' header lines closed by an empty line (13 labels, each on its own: Hash, Charset, Version, Comment, Address, "
        "Signature ...), several of them, header-looking lines that are no block, empty and blank lines, dash-escaped lines and lines of "
        "dashes, BEGIN / END marker text that is not a marker line, the trailer's labels and values (the signer's own address, a "
        "signature-like line) - at the start, in the middle, at the end of the message and as the whole message, in both newline styles, "
        "then one to three of them combined; each (element class, position) has its own required counter; the armour is signed, parsed, "
        "compared and the parsed triple verified. Networks whose names nest (Bitcoin / BitcoinDark) are crossed in both directions. "
        "Key flavours: the same key as plain key and as BIP32 node (private and public copy) on both sides of sign / verify. "
        "Caller-owned mutable objects: the signature handed over as a bytearray (with and without a trailing line end) must come back "
        "unmodified and give the same answer twice; a list returned by parse_signed is edited before the text is parsed again. "
        "group law: valid signatures built with a chosen nonce or chosen (r, s) so that recovery / verification meets each special case of "
        "point addition (terms opposite = doubling, the verifier's terms equal, R = +-G, +-2G, G/2, Q = +-R, s = +-r, r = +-digest; both "
        "s forms) must verify for key and address and recover exactly the key; the infinity case must be refused. "
        "refused calls: in histories, 36 kinds of calls the library cannot serve (None / bytes / int / list / float where text or an "
        "integer is expected, a key without secret, exponent 0 / n, an unparsable address, truncated armour ...) are taken in turn "
        "between the judged calls, on the same signer and key objects; only the calls after them are judged. "
        "long run: one shard signs more than 2^16 (thorough 2^17) times on ONE signer object in one process, every signature judged "
        "(reference recovery, remembered per distinct signature text), with a digest of a fresh message per operation and a verify / "
        "recovery every 32nd operation and around operation 2^16. "
        "Distinct by (operation, network, key, text, message) and, in histories, by (previous call, call); every case is non-trivial.")
ASSUMPTIONS = [
    "references vmon/refs/msgsign.py, ec.py, sec.py, b58.py are correct (self-tested on every run: RFC 6979 A.2.5 vectors, "
    "exhaustive sign/verify/recover closure on toy curves, two real-world signed messages produced by other software, "
    "CompactSize boundaries)",
    "the network's magic is '<network_name> Signed Message:\\n' with network_name read from the network object (for Bitcoin this "
    "is the published constant; for the other networks the property only says the magic differs per network)",
    "a returned True for hostile text is required to be justified by some decoding of the text (canonical base64, or a tolerant "
    "decoding that drops characters outside the alphabet) that the reference recovers to the target key/address; tolerant "
    "acceptance of whitespace inside a valid signature is therefore not a violation; False is never a violation for hostile text",
    "r or s outside [1, n-1] is 'malformed' (SEC 1 4.1.4/4.1.6; libsecp256k1's compact parser refuses both)",
    "the armoured round trip is demanded only for messages whose lines are joined by LF only or CRLF only, contain no other CR, "
    "no exotic line separators and no line that is an armour marker; messages outside that domain are still signed and verified",
    "signatures are not required to equal the RFC 6979 signature byte for byte (the statement does not say so)",
    "a signature made by the reference (another signer's software: RFC 6979 nonce, low or high s, recovery id 0..3) over the digest of a "
    "message is 'a produced signature' for the verifier: in histories and in the hostile class valid_recid_ge_2 it must verify for its "
    "key and address. Recovery ids 2 and 3 (R.x >= n) occur in a produced signature with probability 2^-128 and cannot be found by "
    "search, so they are reached only through such constructed signatures (the public key is recovered by the reference, no private "
    "key is known)",
    "'any other address' includes the pay-to-script-hash address of the same network whose 20 bytes are the signer's key hash: it names "
    "a script, not the key (Bitcoin Core: 'Address does not refer to key'). Only True is a violation there; an exception is not judged. "
    "The key's own segwit (p2wpkh) address is not queried: whether it is 'its address' is left open",
    "parse_signed may return the three parts in any tuple or list",
    "verify(target, sig, msg_hash=h) with message left None is another spelling of 'the message whose digest is h' (it is what the "
    "command line tool uses); the property's verdicts are demanded for it with h the reference digest of a real message under a "
    "registered network's magic; calls that give both or neither of message / msg_hash are not judged",
    "signature_for_message_hash(secret_exponent, digest, is_compressed) is judged like sign(): 65-byte compact form, header flag, "
    "recovers the signer over that digest",
    "in histories a verdict is demanded exactly when the signature text is canonical base64 (one possible decoding); a key-object "
    "target whose compression flag differs from the signature's header flag is not judged (the statement does not say whether it "
    "is 'the signer'); for non-canonical text only 'a bool, and True must be justified' is demanded, as in the hostile family",
    "a queried message that is not text UTF-8 can encode (a str with lone surrogates, a bytes object) is outside 'all unicode messages': "
    "verify may raise or return False for it; only True is a violation (the signature then verifies for something that is not the signed "
    "message). The UTF-8 bytes of the signed message itself are never queried (an API that accepted bytes might rightly accept them)",
    "the signed armour with its message body exchanged is not an armour the statement describes; parse_signed may refuse it or return any "
    "triple - demanded is only that verify() on the triple it returns gives the reference's verdict for that triple",
    "an 'armour marker line' is a line that IS a marker (-----BEGIN/END ... SIGNATURE / SIGNED MESSAGE-----); marker text with other "
    "characters on its line (dash-escaped, indented, misspelt), 'Label: value' lines, empty lines and the signer's own address or a "
    "signature-like line are ordinary message text, for which the armoured round trip is demanded",
    "ECDSA leaves the nonce to the signer: a signature made by the reference with a chosen nonce (or a chosen (r, s) whose key the "
    "reference recovers) that the reference verifies is 'a produced signature' of that key for the verifier, like the recid >= 2 ones",
    "a call with an argument of the wrong type or a key without its secret may raise anything or return anything (not judged); the "
    "judged calls after it must be right. A signature given as bytes / bytearray is not 'signature text': only 'not modified, same "
    "answer twice, True only if its bytes decode to a signature of the target' is demanded",
    "networks GRS, GRSRT, TGRS need the absent groestlcoin_hash module and are reported as absent configurations",
]
EXPLANATION = ("every signature pycoin produces is decoded and its signer recovered by independent arithmetic over the reference "
               "digest; every verify() outcome is compared with the reference's verdict; any exception from verify() is a violation")
TIMEOUT = {"quick": 600, "thorough": 3 * 3600}

C = REC.SECP256K1
N, P_ = C.n, C.p


def exhaustive(tier):
    return False


def configurations(tier):
    return [{"name": "PYCOIN_NATIVE unset (OpenSSL libcrypto point multiplication)", "exercised": True},
            {"name": "PYCOIN_NATIVE=none (pure Python arithmetic)", "exercised": True},
            {"name": "libsecp256k1", "exercised": False, "why": "library not installed"},
            {"name": "networks GRS/GRSRT/TGRS", "exercised": False, "why": "groestlcoin_hash module absent"}]


def plan(tier, seed):
    q = tier == "quick"
    shards = []
    # quick: 18 cases on each network (both key forms, 12 boundary keys, a block of 12 of the fixed messages that moves from network to
    # network, 6 random ones): what differs between networks is the magic and the address prefix, everything else is spread over them
    parts = 7 if q else 9
    for part in range(parts):
        shards.append({"kind": "honest", "part": part, "parts": parts, "per_net": 18 if q else 1600, "label": "honest-openssl-%d" % part})
    # pure-Python arithmetic: the network-specific code (magic, address) does not depend on the arithmetic, so quick visits every third
    # network (which third rotates with the seed); thorough visits all
    parts = 2 if q else 4
    for part in range(parts):
        shards.append({"kind": "honest", "part": part, "parts": parts, "per_net": 1 if q else 20, "light": True, "net_stride": 3 if q else 1,
                       "env": {"PYCOIN_NATIVE": "none"}, "label": "honest-purepython-%d" % part})
    for i in range(4 if q else 10):
        shards.append({"kind": "hostile", "idx": i, "n": 5200 if q else 85000, "label": "hostile-openssl-%d" % i})
    shards.append({"kind": "hostile", "idx": 50, "n": 260 if q else 6000, "env": {"PYCOIN_NATIVE": "none"}, "label": "hostile-purepython"})
    # call histories on reused signer objects
    for i in range(2 if q else 6):
        shards.append({"kind": "history", "idx": i, "episodes": 28 if q else 900, "steps": 36, "label": "history-openssl-%d" % i})
    shards.append({"kind": "history", "idx": 60, "episodes": 2 if q else 40, "steps": 24, "env": {"PYCOIN_NATIVE": "none"},
                   "label": "history-purepython"})
    # equivalent spellings of one text on both sides of sign / verify
    for i in range(3 if q else 8):
        shards.append({"kind": "equiv", "idx": i, "pairs": 132 if q else 6000, "label": "equiv-openssl-%d" % i})
    shards.append({"kind": "equiv", "idx": 70, "pairs": 9 if q else 220, "light": True, "env": {"PYCOIN_NATIVE": "none"}, "label": "equiv-purepython"})
    # messages made of the armour's own syntax, at every position; networks with nested names; key flavours; caller-owned mutable arguments
    for i in range(1 if q else 4):
        shards.append({"kind": "syntax", "idx": i, "random": 160 if q else 6000, "stride": 3 if q else 1, "label": "syntax-openssl-%d" % i})
    # one long run on ONE signer object in ONE process: more than 2^16 (thorough: 2^17) signatures, digests and recoveries
    shards.append({"kind": "longrun", "ops": (1 << 16) + 100 if q else (1 << 17) + 100, "label": "longrun-openssl", "timeout": 1800 if q else 3 * 3600})
    return shards


def selftest(rec):
    return {"ec": REC.selftest(), "sec": RS.selftest(), "msgsign": RM.selftest(), "b58_vectors": RB.selftest(), "textequiv": TE.selftest(),
            "armoursyntax": AS.selftest()}


# ---------------------------------------------------------------------------------------------

class M:
    def __init__(self, rec):
        from pycoin.networks.registry import network_codes, network_for_netcode
        self.nets = {}
        for code in sorted(network_codes()):
            try:
                net = network_for_netcode(code)
                k = net.keys.private(1)
                k.wif(), k.address()
                self.nets[code] = net
            except ImportError as e:
                rec.note("network %s unusable here: %s" % (code, str(e)[:80]))
        self._pub = {}
        self._rec = {}

    def signer_of(self, raw, z):
        """reference recovery, remembered (the same (signature, digest) pair is asked about many times in a history)."""
        k = (raw, z)
        if k not in self._rec:
            if len(self._rec) > 4000:
                self._rec.clear()
            self._rec[k] = RM.signer_of(raw, z)
        return self._rec[k]

    def refpub(self, se):
        if se not in self._pub:
            self._pub[se] = C.mul(se, C.G)
        return self._pub[se]


MARKER_LOOKALIKES = ["-----BEGIN SIGNATURE----", "----BEGIN SIGNATURE-----", "-----begin signature-----", " -----BEGIN SIGNATURE-----",
                     "-----BEGIN SIGNATURE-----x", "-----BEGIN BITCOIN SIGNED MESSAGE---", "BEGIN SIGNATURE", "-----BEGIN 2 SIGNATURE-----",
                     "-----END-----", "Address: 1BitcoinEaterAddressDontSendf59kuE", "-----BEGIN PGP SIGNED MESSAGE----", "x SIGNED MESSAGE-----"]
REAL_MARKERS = ["-----BEGIN SIGNATURE-----", "-----BEGIN BITCOIN SIGNATURE-----", "-----BEGIN BITCOIN SIGNED MESSAGE-----",
                "-----END BITCOIN SIGNED MESSAGE-----"]
WORDS = ["hello", "world", "Pay", "to", "Alice", "42", "BTC", "I", "agree", "the", "quick", "brown", "fox", "0", "=", "+/", "\t", "  ",
         "naïve", "Ω≈ç√", "日本語", "\U0001F600", "\U0001F468‍\U0001F469‍\U0001F467", "é", "\U00010348", "٣", "\x00", "\x7f", "%s", "{msg}", "{}"]
# the meta-syntax of text templating (str.format, %-formatting, string.Template, re.sub replacement strings) with the field names
# an armour template would plausibly use: any way of filling the armour other than one simultaneous substitution (field after
# field, formatting twice, a regular-expression replacement) changes a message made of these
TEMPLATE_TOKENS = ["{msg}", "{addr}", "{sig}", "{net_name}", "{address}", "{signature}", "{message}", "{}", "{0}", "{1}", "{{", "}}", "{", "}",
                   "{{addr}}", "{{sig}}", "{{msg}}", "{addr!r}", "{sig:>8}", "{addr.x}", "{msg[0]}", "{sig}{addr}", "{ addr }", "{ADDR}",
                   "%s", "%(addr)s", "%(sig)s", "%(msg)s", "%(net_name)s", "%%", "%", "%d", "%r", "$addr", "${sig}", "$msg", "${addr}",
                   "$net_name", "$$", "$", "\\1", "\\g<0>", "\\g<msg>", "\\n", "\\", "\\\\", "\\0", "&", "\\&", "<addr>", "[sig]", "#{addr}"]


def gen_template_message(rng):
    """a message written in the restricted alphabet of template syntax (always inside the armoured domain: one newline style,
    no marker line)."""
    k = rng.random()
    n = 1 if k < 0.25 else rng.randrange(2, 7)
    toks = [rng.choice(TEMPLATE_TOKENS[:7]) if rng.random() < 0.45 else rng.choice(TEMPLATE_TOKENS) for _ in range(n)]
    if rng.random() < 0.5:
        toks.insert(rng.randrange(len(toks) + 1), rng.choice(WORDS[:13]))
    sep = rng.choice([" ", " ", "", "\n", "\r\n", " / "])
    return sep.join(toks)


def gen_line(rng):
    k = rng.random()
    if k < 0.12:
        return ""
    if k < 0.22:
        return rng.choice(MARKER_LOOKALIKES)
    if k < 0.3:
        return rng.choice([" ", "  x", "x  ", "\t", " lead", "trail "])
    return " ".join(rng.choice(WORDS) for _ in range(rng.randrange(1, 8)))


FIXED_MESSAGES = [("", True), ("a", True), ("hello world", True), ("\n", True), ("\r\n", True), (" ", True), ("x\n", True), ("\nx", True),
                  ("x\r\n", True), (" padded ", True), ("a\nb", True), ("a\r\nb", True), ("a\n\nb\n", True), ("\u00e9" * 126, True), ("\u00e9" * 127, True),
                  ("x" * 252, True), ("x" * 253, True), ("x" * 254, True), ("a\r\nb\nc", False), ("a\rb", False), ("x\r", False),
                  ("head\n-----BEGIN SIGNATURE-----\ntail", False), (" line", True), ("a\x0bb\x0cc\x85d", False),
                  ("send the coins to {addr} please", True), ("{sig}", True), ("layout: {msg} / {addr} / {sig} / {net_name}\nsecond line {addr}", True),
                  ("%(addr)s %s %(sig)s $addr ${sig} $$", True), ("{{addr}} {0} {} } {", True), ("\\1 \\g<0> \\n \\", True),
                  # the last length with a 3-byte CompactSize prefix and the first with a 5-byte one
                  ("x" * 65535, True), ("\U0001F600" * 16384, True)]
RANDOM_MESSAGE = 1 << 20        # an index past the fixed messages


def gen_message(rng, i):
    """-> (message, in_armour_domain)."""
    fixed = FIXED_MESSAGES
    if i < len(fixed):
        return fixed[i]
    k = rng.random()
    if k > 0.86:
        return gen_template_message(rng), True
    if k < 0.03:
        n = rng.choice([65535, 65536, 65537, 70001])
        return (("long " + "y" * n)[:n] if rng.random() < 0.5 else "\U0001F600" * (n // 4 + 1)), True
    if k < 0.1:
        n = rng.choice([251, 252, 253, 254, 255, 256, 300, 1000])
        unit = rng.choice(["x", "é", "\U0001F600", "ab\n"])
        return (unit * n)[:n], True
    if k < 0.16:
        # outside the armoured domain: a real marker line, mixed newline styles, lone CR
        kind = rng.randrange(3)
        lines = [gen_line(rng) for _ in range(rng.randrange(1, 4))]
        if kind == 0:
            lines.insert(rng.randrange(len(lines) + 1), rng.choice(REAL_MARKERS))
            return "\n".join(lines), False
        if kind == 1:
            return "\r\n".join(lines) + "\n" + gen_line(rng) + "\r\n" + gen_line(rng), False
        return "\n".join(lines) + "\r" + gen_line(rng), False
    nl = "\n" if rng.random() < 0.6 else "\r\n"
    lines = [gen_line(rng) for _ in range(rng.choice([1, 1, 2, 3, 5]))]
    msg = nl.join(lines)
    if rng.random() < 0.2:
        msg += nl
    if rng.random() < 0.1:
        msg = nl + msg
    return msg, True


def other_messages(msg, rng):
    outs = [msg + " ", msg + "\n", " " + msg, msg.upper() if msg.upper() != msg else msg.lower(), msg[:-1], msg.replace("\r\n", "\n"),
            msg.replace("\n", "\r\n"), msg + "\x00", msg.strip(), "", msg[::-1], msg + msg]
    outs = [o for o in outs if o != msg]
    rng.shuffle(outs)
    return outs


def boundary_exponents():
    return [1, 2, 3, N - 1, N - 2, (N - 1) // 2, (N + 1) // 2, 1 << 255, 1 << 128, P_ - N, 0xff, int("7f" + "ff" * 31, 16)]


def call(rec, case, what, fn, *a, **kw):
    """an honest call: must not raise. Returns (ok, value)."""
    st, v = observe(fn, *a, **kw)
    if st != "ok":
        rec.violation("msg.honest_call_raises." + what, case, v, "no exception")
        return False, None
    return True, v


def triple(parsed):
    """what parse_signed returned as a tuple of three when it is any sequence of three (the statement names the three parts, not the
    container), else the value itself."""
    if isinstance(parsed, (tuple, list)) and len(parsed) == 3:
        return tuple(parsed)
    return parsed


def judge_signature(rec, case, m, sig, z, Pref, comp, sfx=""):
    """a produced signature: text of 65 bytes in base64, header 27 + recid + 4*compressed, recovers the signer over z."""
    raw = RM.strict_b64(sig) if isinstance(sig, str) else None
    t = RM.split_compact(raw)
    if t is None:
        rec.violation("msg.signature_not_compact65" + sfx, case, sig, "base64 of 65 bytes")
        return None
    h, r, s = t
    if not 27 <= h <= 34 or bool((h - 27) & 4) is not comp:
        rec.violation("msg.header_flag_mismatch" + sfx, case, h, "27 + recid + 4*%d" % comp)
    so = m.signer_of(raw, z)
    if so is None or so[0] != Pref:
        rec.violation("msg.signature_does_not_recover_signer" + sfx, case, so, Pref)
    return h


_BOUNDS = set()


def message_classes(msg, armour_ok):
    """the regions of 'all unicode messages' that the statement and the digest's length prefix single out."""
    n = len(msg.encode("utf8"))
    out = ["utf8_len:0" if n == 0 else "utf8_len:1..252 (1-byte length prefix)" if n <= 252 else
           "utf8_len:253..65535 (3-byte length prefix)" if n <= 65535 else "utf8_len:>65535 (5-byte length prefix)"]
    if n in (252, 253, 65535, 65536):
        out.append("utf8_len:at a length-prefix boundary")
    rest = msg.replace("\r\n", "")
    if "\r\n" in msg and "\n" not in rest and "\r" not in rest:
        out.append("multi_line:crlf_only")
    elif "\n" in msg and "\r" not in msg:
        out.append("multi_line:lf_only")
    elif "\n" in msg or "\r" in msg:
        out.append("multi_line:mixed or lone CR")
    if any(ord(c) > 0xffff for c in msg):
        out.append("non_bmp")
    elif not msg.isascii():
        out.append("non_ascii_bmp")
    if msg != msg.strip():
        out.append("leading or trailing white space")
    if any(t in msg for t in ("{", "%", "$", "\\")):
        out.append("template_syntax")
    if "-----" in msg or "SIGNED MESSAGE" in msg or "Address:" in msg:
        out.append("marker or marker look-alike")
    out.append("armour_domain:inside" if armour_ok else "armour_domain:outside (signed and verified, not armoured)")
    return out


def script_hash_address(net, h160, own):
    """the pay-to-script-hash address of this network that carries the 20 bytes of the signer's key hash: another address (it names a
    script, not the key). None when the network has no such address form or it coincides with the key's address."""
    st, a = observe(net.address.for_p2sh, h160)
    if st != "ok" or not isinstance(a, str) or a == own:
        return None
    return a


def check_signed(net, code, se, comp, msg, armour_ok, rec, m, rng, light=False, others=None):
    case = {"net": code, "se": se, "compressed": comp, "msg": msg, "armour": armour_ok}
    rec.case(("honest", code, se, comp, msg))
    rec.ev("net:" + code)
    rec.ev("key:compressed" if comp else "key:uncompressed")
    if not _BOUNDS:
        _BOUNDS.update(boundary_exponents())
    rec.ev("key:at a range boundary" if se in _BOUNDS else "key:random 64-bit" if se < 1 << 64 else "key:random")
    for k in message_classes(msg, armour_ok):
        rec.ev("msg:" + k)
    name = net.network_name
    z = RM.digest(name, msg)
    Pref = m.refpub(se)
    key = net.keys.private(se, is_compressed=comp)
    # digest
    rec.ev("hash_for_signing")
    ok, hz = call(rec, case, "hash_for_signing", net.msg.hash_for_signing, msg)
    if ok and hz != z:
        rec.violation("msg.digest_mismatch", case, hz, z)
    # signature
    rec.ev("sign")
    ok, sig = call(rec, case, "sign", net.msg.sign, key, msg)
    if not ok:
        return None
    h = judge_signature(rec, case, m, sig, z, Pref, comp)
    if h is None:
        return None
    rec.ev("sign_recid:%d" % ((h - 27) & 3))
    # the same signature through the digest entry point
    if not light:
        rec.ev("signature_for_message_hash")
        ok, sig2 = call(rec, case, "signature_for_message_hash", net.msg.signature_for_message_hash, se, z, comp)
        if ok:
            judge_signature(rec, case, m, sig2, z, Pref, comp, ".sign_hash")
        if (se + len(msg)) % 3 == 0:
            # the same request with one coordinate changed: the other compression flag, signed right after
            rec.ev("sign(same key and message, other compression)")
            ok, sig3 = call(rec, case, "sign", net.msg.sign, net.keys.private(se, is_compressed=not comp), msg)
            if ok:
                judge_signature(rec, dict(case, then="other compression"), m, sig3, z, Pref, not comp, ".after_other_compression")
    # positive verifications
    addr = key.address()
    pub = net.keys.public(Pref, is_compressed=comp)
    for what, target in (("key", key), ("public_key", pub), ("address", addr)):
        rec.ev("verify(%s)" % what)
        ok, v = call(rec, case, "verify", net.msg.verify, target, sig, msg)
        if ok and v is not True:
            rec.violation("msg.own_signature_rejected." + what, case, v, True)
    rec.ev("pair_for_message_hash")
    ok, pr = call(rec, case, "pair_for_message_hash", net.msg.pair_for_message_hash, sig, z)
    if ok and (tuple(pr[0]) != Pref or bool(pr[1]) is not comp):
        rec.violation("msg.pair_for_message_hash_mismatch", case, pr, [Pref, comp])
    oms = other_messages(msg, rng)[:1 if light else 3]
    # the message named by its digest (msg_hash=, message left None): right digest, digest of another message, right digest again,
    # back to back with the same signature text on the same signer object
    oz = RM.digest(name, oms[0])
    if (oz - z) % N:
        targets = (("key", key), ("address", addr))
        for what, target in (targets[(se + len(msg)) & 1:][:1] if light else targets):
            for hz_, want in (((z, True), (oz, False)) if light else ((z, True), (oz, False), (z, True)) if what == "key" else ((oz, False), (z, True))):
                rec.ev("verify(msg_hash=)")
                rec.ev("verify(msg_hash=, same signature, other digest than the call before)")
                ok, v = call(rec, case, "verify_msg_hash", net.msg.verify, target, sig, msg_hash=hz_)
                if ok and v is not want:
                    rec.violation("msg.msg_hash.own_signature_rejected." + what if want else "msg.msg_hash.verifies_for_other_digest",
                                  dict(case, other_msg=oms[0], target=what, msg_hash=hz_), v, want)
        if not light and (se + len(msg)) % 3 == 1:
            rec.ev("verify(message=None, msg_hash=)")
            ok, v = call(rec, case, "verify_msg_hash", net.msg.verify, pub, sig, None, z)
            if ok and v is not True:
                rec.violation("msg.msg_hash.own_signature_rejected.public_key", dict(case, msg_hash=z), v, True)
    # negatives
    for om in oms:
        for what, target in (("key", key), ("address", addr)):
            rec.ev("verify(other message)")
            ok, v = call(rec, case, "verify", net.msg.verify, target, sig, om)
            if ok and v is not False:
                rec.violation("msg.verifies_for_other_message", dict(case, other_msg=om, target=what), v, False)
    # other spellings of the same text (normal forms, case, white space, newlines, invisible characters ...): other messages
    sub = random.Random((se << 32) ^ zlib.crc32(msg.encode("utf8")) ^ len(msg))
    rs = [(f, t + msg[1500:]) for f, t in TE.respell(msg[:1500], sub)]
    for k, (form, om) in enumerate(sub.sample(rs, min(len(rs), 1 if light else 2))):
        if (RM.digest(name, om) - z) % N == 0:
            continue
        what, target = (("key", key), ("address", addr))[(k + se + len(msg)) & 1]
        rec.ev("verify(other spelling of the message)")
        rec.ev("respelling:" + form)
        ok, v = call(rec, case, "verify", net.msg.verify, target, sig, om)
        if ok and v is not False:
            rec.violation("msg.verifies_for_equivalent_message.respelling", dict(case, other_msg=om, target=what, form=form), v, False)
    other_ses = [N - se] + ([] if light else [rng.randrange(1, N), se % (N - 1) + 1])
    for ose in other_ses:
        if ose == se:
            continue
        ok_ = net.keys.private(ose, is_compressed=comp)
        rec.ev("verify(other key)")
        ok, v = call(rec, case, "verify", net.msg.verify, ok_, sig, msg)
        if ok and v is not False:
            rec.violation("msg.verifies_for_other_key", dict(case, other_se=ose), v, False)
        rec.ev("verify(other address)")
        ok, v = call(rec, case, "verify", net.msg.verify, ok_.address(), sig, msg)
        if ok and v is not False:
            rec.violation("msg.verifies_for_other_address", dict(case, other_se=ose), v, False)
    rec.ev("verify(other address)")
    ok, v = call(rec, case, "verify", net.msg.verify, key.address(is_compressed=not comp), sig, msg)
    if ok and v is not False:
        rec.violation("msg.verifies_for_other_address", dict(case, other="same key, other compression"), v, False)
    # an address of another kind carrying the same 20 bytes: it names a script, not the signer's key. Only True is judged (refusing such an
    # address with an exception is not what the statement is about)
    sha = script_hash_address(net, RS.hash160(RS.encode(Pref, comp)), addr)
    if sha is None:
        rec.ev("verify(other address: script hash) not available on this network")
    else:
        rec.ev("verify(other address: script hash with the signer's key hash)")
        st, v = observe(net.msg.verify, sha, sig, msg)
        if st == "ok" and v is not False:
            rec.violation("msg.verifies_for_other_address.script_hash", dict(case, other="script hash address", address=sha), v, False)
        elif st != "ok":
            rec.ev("verify(other address: script hash) raises: not judged")
    if others:
        ocode = rng.choice(others)
        onet = m.nets[ocode]
        if onet.network_name != name:
            rec.ev("verify(other network)")
            ok, v = call(rec, case, "verify", onet.msg.verify, onet.keys.private(se, is_compressed=comp), sig, msg)
            if ok and v is not False:
                rec.violation("msg.verifies_on_other_network", dict(case, other_net=ocode), v, False)
    # armoured form
    rec.ev("sign(verbose)")
    ok, text = call(rec, case, "sign_verbose", net.msg.sign, key, msg, verbose=True)
    if ok and armour_ok:
        rec.ev("parse_signed")
        st, parsed = observe(net.msg.parse_signed, text)
        parsed = triple(parsed) if st == "ok" else parsed
        if st != "ok" or parsed != (msg, addr, sig):
            rec.violation("msg.armour_roundtrip_mismatch", case, parsed, [msg, addr, sig])
        if st == "ok" and isinstance(parsed, tuple) and len(parsed) == 3:
            rec.ev("verify(parsed armour)")
            st, v = observe(net.msg.verify, parsed[1], parsed[2], parsed[0])
            if st != "ok" or v is not True:
                rec.violation("msg.armour_parsed_triple_does_not_verify", case, v, True)
    elif ok:
        rec.ev("sign(verbose, outside armour domain)")
    return {"net": code, "magic": RM.magic_for(name), "secret_exponent": se, "compressed": comp, "message": msg[:60], "signature": sig,
            "address": addr}


def run_honest(spec, rec, m):
    rng = shard_rng(spec["seed"], PROPERTY, spec["tier"], spec["shard"])
    codes_all = sorted(m.nets)
    seed = spec["seed"]
    stride = spec.get("net_stride", 1)
    pool = [(gi, c) for gi, c in enumerate(codes_all) if (gi + seed) % stride == 0]
    mine = [(gi, c) for k, (gi, c) in enumerate(pool) if k % spec["parts"] == spec["part"]]
    bounds = boundary_exponents()
    nb, nfix = len(bounds), len(FIXED_MESSAGES)
    light = bool(spec.get("light"))
    per = spec["per_net"]
    # gi = position of the network among all usable ones: keys, key forms and messages are laid out along (gi, j), so that every
    # network meets both key forms and boundary as well as random keys, and the networks together meet every boundary key in both forms
    # and every fixed message many times
    n_bound = min(2 * nb, per * 2 // 3)         # non-light: the first n_bound cases of a network use boundary keys
    n_fixed = min(nfix, per * 2 // 3)           # ... and a block of fixed messages that moves on from network to network
    for gi, code in mine:
        net = m.nets[code]
        for j in range(per):
            if light:
                se = bounds[(gi * 5 + j) % nb] if (gi + j) % 2 == 0 else rng.randrange(1, N)
                comp = bool(((gi + j) // 2 + j) & 1)
                mi = rng.randrange(0, 40)
            else:
                if j < n_bound:
                    se = bounds[(j + gi) % nb]
                    comp = bool((j + gi + gi // 2 + j // nb) & 1)
                else:
                    se = rng.randrange(1, N) if rng.random() < 0.8 else rng.randrange(1, 1 << 64)
                    comp = bool((j + gi) & 1)
                mi = (gi * n_fixed + j + 5 * seed) % nfix if j < n_fixed else RANDOM_MESSAGE
            msg, arm = gen_message(rng, mi)
            s = check_signed(net, code, se, comp, msg, arm, rec, m, rng, light=light, others=codes_all)
            if s and j == 5 + gi and gi < 3:
                rec.sample(dict(s, op="sign / verify / recover / armour"))
        rec.ev("networks_usable")


# ---------------------------------------------------------------------------------------------
# equivalent spellings: two different messages that a text canonicalisation identifies, on both sides of sign / verify

_MARKER_LINE = re.compile(r"SIGNED MESSAGE-----|-----BEGIN [A-Z ]*SIGNATURE-----")


def armour_domain(msg):
    """the statement's domain for the armoured form (read conservatively): lines joined by LF only or CRLF only, no other CR, no
    other line separator, no armour marker."""
    if any(c in msg for c in "\x0b\x0c\x1c\x1d\x1e\x85\u2028\u2029"):
        return False
    rest = msg.replace("\r\n", "")
    if "\r" in rest or ("\r\n" in msg and "\n" in rest):
        return False
    return not _MARKER_LINE.search(msg)


def _safe(v):
    """JSON cannot tell a UTF-16 surrogate pair from the character it stands for, so a string UTF-8 cannot encode is written into a
    witness as its code points."""
    if isinstance(v, str) and not TE.encodable(v):
        return {"utf32le": "h" + v.encode("utf-32-le", "surrogatepass").hex()}
    return v


def _unsafe(v):
    if isinstance(v, dict) and "utf32le" in v:
        return bytes.fromhex(str(v["utf32le"])[1:]).decode("utf-32-le", "surrogatepass")
    return v


def query_other(rec, case, net, target, what, sig, other, family, by="text", via=""):
    """a signature queried with a message that is not the signed one: False. (True is a violation; an exception is one when the
    queried message is text, and not judged when it is something UTF-8 cannot encode.)"""
    rec.ev("verify(equivalent message%s)" % via)
    rec.ev("verify(equivalent message, %s)" % what)
    st, v = observe(net.msg.verify, target, sig, other) if by == "text" else observe(net.msg.verify, target, sig, message=other)
    if st != "ok":
        if TE.encodable(other):
            rec.violation("msg.honest_call_raises.verify", dict(case, target=what), v, "no exception")
        else:
            rec.ev("verify(unencodable or bytes spelling) raises: not judged")
        return
    if not TE.encodable(other):
        rec.ev("verify(unencodable or bytes spelling) returns")
        if not v:
            return                                      # not a message of the statement's domain: anything but "verifies" is acceptable
    if v is not False:
        rec.violation("msg.verifies_for_equivalent_message%s.%s" % (via and ".armour", family), dict(case, target=what, by=by), v, False)


def check_equiv_pair(net, code, se, comp, pair, rec, m, light=False):
    """pair = textequiv.gen_pair(): a != b, the same text under pair["under"]. Each signable side is signed and verified, then
    queried with the other side's spelling - by key, by public key, by address, by keyword, and inside the armour."""
    a, b, family = pair["a"], pair["b"], pair["family"]
    name = net.network_name
    Pref = m.refpub(se)
    sides = [(a, b)] + ([(b, a)] if TE.encodable(b) else [])
    eq = {k: pair[k] for k in ("family", "a", "form_a", "form_b", "under")}
    eq["b"] = _safe(b)
    eq["more"] = [[f, _safe(t)] for f, t in pair.get("more", [])]
    base = {"net": code, "se": se, "compressed": comp, "equiv": eq}
    rec.case(("equiv", code, se, comp, a, b if isinstance(b, str) else bytes(b)))
    rec.ev("equiv:" + family)
    rec.ev("equiv_under:%s" % pair["under"])
    for sh in TE.pair_shapes(pair):
        rec.ev("equiv_shape:" + sh)
    if len(sides) == 2:
        rec.ev("equiv:both sides signed")
    key = net.keys.private(se, is_compressed=comp)
    pub = net.keys.public(Pref, is_compressed=comp)
    addr = key.address()
    for d, (msg, other) in enumerate(sides):
        case = dict(base, signed="a" if d == 0 else "b")
        z = RM.digest(name, msg)
        if TE.encodable(other) and (RM.digest(name, other) - z) % N == 0:
            continue                                    # a SHA-256 collision
        rec.ev("hash_for_signing")
        ok, hz = call(rec, case, "hash_for_signing", net.msg.hash_for_signing, msg)
        if ok and hz != z:
            rec.violation("msg.digest_mismatch", case, hz, z)
        rec.ev("sign")
        ok, sig = call(rec, case, "sign", net.msg.sign, key, msg)
        if not ok or judge_signature(rec, case, m, sig, z, Pref, comp) is None:
            continue
        targets = [("key", key), ("address", addr)] if light else [("key", key), ("public_key", pub), ("address", addr)]
        for what, target in targets:
            rec.ev("verify(%s)" % what)
            ok, v = call(rec, case, "verify", net.msg.verify, target, sig, msg)
            if ok and v is not True:
                rec.violation("msg.own_signature_rejected." + what, case, v, True)
        # the other spelling against this signature
        for k, (what, target) in enumerate(targets):
            query_other(rec, case, net, target, what, sig, other, family)
            if not light and (k + se + d) % 3 == 0:
                query_other(rec, case, net, target, what, sig, other, family, by="keyword")
        if d == 0:
            # the remaining spellings of a that are not text UTF-8 can encode (surrogate pairs, lone / escaped surrogates, bytes in
            # other encodings): queried only
            for k, (form, t) in enumerate(pair.get("more", [])[:3 if light else 99]):
                what, target = targets[(k + se) % len(targets)]
                rec.ev("equiv_query:" + form)
                query_other(rec, dict(case, query=_safe(t), form=form), net, target, what, sig, t, family)
        # ... and the signed spelling still verifies after the refused query (same signer object)
        rec.ev("verify(address)")
        ok, v = call(rec, case, "verify", net.msg.verify, addr, sig, msg)
        if ok and v is not True:
            rec.violation("msg.own_signature_rejected.address", dict(case, then="after the other spelling was refused"), v, True)
        # armoured form
        rec.ev("sign(verbose)")
        ok, text = call(rec, case, "sign_verbose", net.msg.sign, key, msg, verbose=True)
        if ok and armour_domain(msg):
            rec.ev("parse_signed")
            st, parsed = observe(net.msg.parse_signed, text)
            parsed = triple(parsed) if st == "ok" else parsed
            if st != "ok" or parsed != (msg, addr, sig):
                rec.violation("msg.armour_roundtrip_mismatch", case, parsed, [msg, addr, sig])
            else:
                rec.ev("verify(parsed armour)")
                st, v = observe(net.msg.verify, parsed[1], parsed[2], parsed[0])
                if st != "ok" or v is not True:
                    rec.violation("msg.armour_parsed_triple_does_not_verify", case, v, True)
        elif ok:
            rec.ev("sign(verbose, outside armour domain)")
        if isinstance(other, str):
            # the signed armour with the other spelling as its body: whatever triple the parser makes of it, verify() must judge
            # that triple as the reference does
            forged = RM.armour(name, other, addr, sig)
            rec.ev("parse_signed(armour with the other spelling)")
            st, parsed = observe(net.msg.parse_signed, forged)
            parsed = triple(parsed) if st == "ok" else parsed
            if st == "ok" and isinstance(parsed, tuple) and len(parsed) == 3 and parsed[1] == addr and parsed[2] == sig and isinstance(parsed[0], str):
                pm = parsed[0]
                if pm == msg:
                    rec.ev("parse_signed(armour with the other spelling) returns the signed spelling: not judged")
                elif not TE.encodable(pm) or (RM.digest(name, pm) - z) % N:
                    query_other(rec, dict(case, parsed_msg=_safe(pm)), net, parsed[1], "address", parsed[2], pm, family, via=", parsed armour")
            else:
                rec.ev("parse_signed(armour with the other spelling) refused or other triple: not judged")


def run_equiv(spec, rec, m):
    rng = shard_rng(spec["seed"], PROPERTY, spec["tier"], spec["shard"])
    codes = sorted(m.nets)
    bounds = boundary_exponents()
    light = bool(spec.get("light"))
    idx = spec["idx"]
    for i in range(spec["pairs"]):
        code = "BTC" if (i == 0 and "BTC" in m.nets) else codes[(idx * 13 + i * 7 + spec["seed"]) % len(codes)]
        se = bounds[(i // 5 + idx) % len(bounds)] if i % 5 == 0 else rng.randrange(1, N)
        pair = TE.gen_pair(rng, i + (spec["seed"] * 5 if light else 0), rot=idx + spec["seed"])
        check_equiv_pair(m.nets[code], code, se, bool((i + idx) & 1), pair, rec, m, light=light)
        if i == 3 * idx and idx < 3:
            rec.sample({"op": "sign(a) / verify(b) and sign(b) / verify(a), a and b the same text under '%s'" % pair["under"], "net": code,
                        "a": pair["a"], "b": pair["b"], "expected": "each verifies for itself only"})
    rec.ev("networks_usable", len(codes))


# ---------------------------------------------------------------------------------------------

# ---------------------------------------------------------------------------------------------
# messages made of the armour's own syntax; nested network names; key flavours; caller-owned mutable arguments

def check_armour(net, code, se, comp, msg, rec, m, tags):
    """sign(verbose) -> parse_signed -> the same message and address and a signature of the signer over that message -> verifies."""
    case = {"net": code, "se": se, "compressed": comp, "msg": msg, "armour": True, "syntax": tags}
    rec.case(("armour", code, se, comp, msg))
    if not AS.in_domain(msg):
        rec.ev("inconclusive:armour syntax generator left the armoured domain")
        rec.note("not in the armoured domain: %r" % msg[:200])
        return
    key = net.keys.private(se, is_compressed=comp)
    addr = key.address()
    z = RM.digest(net.network_name, msg)
    rec.ev("sign(verbose)")
    ok, text = call(rec, case, "sign_verbose", net.msg.sign, key, msg, verbose=True)
    if not ok:
        return
    rec.ev("parse_signed")
    st, parsed = observe(net.msg.parse_signed, text)
    parsed = triple(parsed) if st == "ok" else parsed
    if st != "ok" or not (isinstance(parsed, tuple) and len(parsed) == 3) or parsed[0] != msg or parsed[1] != addr:
        rec.violation("msg.armour_roundtrip_mismatch", case, parsed, [msg, addr, "<signature>"])
        return
    if judge_signature(rec, case, m, parsed[2], z, m.refpub(se), comp) is None:
        return
    rec.ev("verify(parsed armour)")
    st, v = observe(net.msg.verify, parsed[1], parsed[2], parsed[0])
    if st != "ok" or v is not True:
        rec.violation("msg.armour_parsed_triple_does_not_verify", case, v, True)
    return text, parsed[2], key, addr


def nested_name_pairs(m):
    """pairs of usable networks whose names differ and nest (one is contained in the other, case-insensitively)."""
    codes = sorted(m.nets)
    up = {c: m.nets[c].network_name.upper() for c in codes}
    return [(a, b) for a in codes for b in codes if up[a] != up[b] and up[a] in up[b]]


def check_nested_names(m, rec, rng):
    for a, b in nested_name_pairs(m):
        for x, y in ((a, b), (b, a)):
            nx, ny = m.nets[x], m.nets[y]
            for msg in ("", "hello", ny.network_name[len(nx.network_name):] + " Signed Message:\nhello" if x == a else "x"):
                se = rng.randrange(1, N)
                comp = bool(rng.randrange(2))
                case = {"net": x, "se": se, "compressed": comp, "msg": msg, "armour": True}
                rec.case(("nested", x, y, se, comp, msg))
                ok, sig = call(rec, case, "sign", nx.msg.sign, nx.keys.private(se, is_compressed=comp), msg)
                if not ok or judge_signature(rec, case, m, sig, RM.digest(nx.network_name, msg), m.refpub(se), comp) is None:
                    continue
                ky = ny.keys.private(se, is_compressed=comp)
                for what, target in (("key", ky), ("address", ky.address())):
                    rec.ev("verify(other network: nested names)")
                    ok, v = call(rec, case, "verify", ny.msg.verify, target, sig, msg)
                    if ok and v is not False:
                        rec.violation("msg.verifies_on_other_network", dict(case, other_net=y, target=what), v, False)


def check_flavours(net, code, rec, m, rng):
    """the same key as a plain key and as a hierarchical (BIP32) node, as signer and as verification target in every combination."""
    st, node = observe(lambda: net.keys.bip32_seed(bytes(rng.randrange(256) for _ in range(16))).subkey_for_path("0/%d" % rng.randrange(5)))
    if st != "ok":
        rec.ev("flavour:bip32 unavailable on this network")
        return
    st, se = observe(node.secret_exponent)
    if st != "ok" or not isinstance(se, int):
        rec.ev("flavour:bip32 unavailable on this network")
        return
    comp = True
    msg = rng.choice(["", "flavour", "two\nlines é"])
    z = RM.digest(net.network_name, msg)
    Pref = m.refpub(se)
    plain = net.keys.private(se, is_compressed=comp)
    signers = {"plain": plain, "bip32": node}
    st, sib = observe(lambda: node.subkey_for_path("1"))
    for sname in ("plain", "bip32"):
        case = {"net": code, "se": se, "compressed": comp, "msg": msg, "armour": True, "signer_flavour": sname}
        rec.case(("flavour", code, se, sname, msg))
        ok, sig = call(rec, case, "sign", net.msg.sign, signers[sname], msg)
        if not ok or judge_signature(rec, case, m, sig, z, Pref, comp) is None:
            continue
        targets = [("plain", plain), ("plain_public", net.keys.public(Pref, is_compressed=comp)), ("bip32", node)]
        st2, pubnode = observe(node.public_copy)
        if st2 == "ok":
            targets.append(("bip32_public", pubnode))
        st2, a = observe(node.address)
        if st2 == "ok" and a == plain.address():
            targets.append(("bip32_address", a))
        for tname, target in targets:
            rec.ev("flavour:%s signs > %s verifies" % (sname, tname))
            ok, v = call(rec, case, "verify", net.msg.verify, target, sig, msg)
            if ok and v is not True:
                rec.violation("msg.own_signature_rejected.flavour", dict(case, target_flavour=tname), v, True)
        if st == "ok":
            rec.ev("flavour:%s signs > sibling node refused" % sname)
            ok, v = call(rec, case, "verify", net.msg.verify, sib, sig, msg)
            if ok and v is not False:
                rec.violation("msg.verifies_for_other_key", dict(case, other="sibling BIP32 node"), v, False)


def check_mutable_arguments(net, code, se, comp, msg, text, sig, key, addr, rec):
    """class of caller-owned mutable objects: a signature handed over as a bytearray (accepted today) is not modified and gives the same
    answer twice; a True for it must be justified by its bytes; a mutable container returned by parse_signed, edited by the caller,
    does not change what parse_signed returns next."""
    case = {"net": code, "se": se, "compressed": comp, "msg": msg, "armour": True, "mutable": True}
    z = RM.digest(net.network_name, msg)
    raw = RM.strict_b64(sig)
    for sfx in ("", "\n", " ", "\r\n"):
        ba = bytearray((sig + sfx).encode("ascii"))
        before = bytes(ba)
        rec.ev("mutable:bytearray_signature")
        outs = []
        for target in (key, addr, key):
            st, v = observe(net.msg.verify, target, ba, msg)
            outs.append((st, v if st == "ok" else type(v).__name__))
            if bytes(ba) != before:
                rec.violation("msg.mutable_argument.bytearray_signature_modified", dict(case, suffix=sfx), bytes(ba), before)
                return
            if st == "ok" and v and raw not in RM.decodings(before.decode("ascii")):
                # (sig itself was judged valid for this key by the reference before; a True is justified when some decoding of the
                # bytes is that signature)
                rec.violation("msg.accepts_invalid_signature", dict(case, suffix=sfx), v, False)
        if outs[0] != outs[2]:
            rec.violation("msg.mutable_argument.second_call_differs", dict(case, suffix=sfx), outs[2], outs[0])
        st, v = observe(net.msg.pair_for_message_hash, ba, z)
        if bytes(ba) != before:
            rec.violation("msg.mutable_argument.bytearray_signature_modified", dict(case, suffix=sfx, op="pair_for_message_hash"), bytes(ba), before)
            return
    rec.ev("verify(key)")
    ok, v = call(rec, case, "verify", net.msg.verify, key, sig, msg)
    if ok and v is not True:
        rec.violation("msg.own_signature_rejected.key", dict(case, then="after the same signature was queried as a bytearray"), v, True)
    # the returned container
    st, r1 = observe(net.msg.parse_signed, text)
    if st == "ok" and isinstance(r1, list):
        rec.ev("mutable:parse_result_edited")
        r1[:] = ["edited by the caller"] + r1[:1]
    elif st == "ok":
        rec.ev("mutable:parse_result_immutable")
    rec.ev("mutable:parse_result_checked")
    st, r2 = observe(net.msg.parse_signed, text)
    r2 = triple(r2) if st == "ok" else r2
    if st != "ok" or r2 != (msg, addr, sig):
        rec.violation("msg.armour_roundtrip_mismatch.second_parse", case, r2, [msg, addr, sig])


def run_syntax(spec, rec, m):
    rng = shard_rng(spec["seed"], PROPERTY, spec["tier"], spec["shard"])
    codes = sorted(m.nets)
    bounds = boundary_exponents()
    idx, seed, stride = spec["idx"], spec["seed"], spec["stride"]
    cases = []
    for k, c in enumerate(AS.systematic()):
        cls, pos = c["classes"][0]
        known = cls.startswith("header_block:") and cls.split(":", 1)[1] in AS.KNOWN_HEADER_LABELS + ["several"] and pos in ("start", "only")
        # quick: of every (class, position) one instance in three (which one moves with the seed; at least one), and every header block
        # of a label a clearsign-aware parser knows at the start of the message
        if known or stride == 1 or (c["instance"] + seed + idx) % min(stride, c["instances"]) == 0:
            cases.append(c)
    cases += [AS.gen_case(rng) for _ in range(spec["random"])]
    sampled = 0
    for k, c in enumerate(cases):
        code = codes[(idx * 17 + k * 7 + seed) % len(codes)] if k % 4 else ("BTC" if "BTC" in m.nets else codes[0])
        net = m.nets[code]
        se = bounds[(k // 6 + idx) % len(bounds)] if k % 6 == 0 else rng.randrange(1, N)
        comp = bool((k + idx + k // 2) & 1)
        addr = net.keys.private(se, is_compressed=comp).address()
        msg = AS.fill(c["template"], addr, net.network_name.upper())
        for cls, pos in c["classes"]:
            rec.ev("syntax:%s@%s" % (cls, pos))
        rec.ev("syntax:nl:" + c["nl"])
        if len(c["classes"]) > 1:
            rec.ev("syntax:two or three elements in one message")
        out = check_armour(net, code, se, comp, msg, rec, m, c["classes"])
        if out and k % 9 == 0:
            check_mutable_arguments(net, code, se, comp, msg, out[0], out[1], out[2], out[3], rec)
        if out and sampled < 2 and c["classes"][0][0] == "header_block:Hash" and c["classes"][0][1] == "start":
            sampled += 1
            rec.sample({"op": "sign(verbose) / parse_signed / verify of a message made of armour syntax", "net": code, "message": msg,
                        "expected": "parses back to exactly this message"})
    check_nested_names(m, rec, rng)
    for k in range(6 if spec["tier"] == "quick" else 200):
        code = codes[(idx * 5 + k * 11 + seed) % len(codes)]
        check_flavours(m.nets[code], code, rec, m, rng)
    rec.ev("networks_usable", len(codes))


# ---------------------------------------------------------------------------------------------
# the n-th operation: one long run on ONE signer object in ONE process

def run_longrun(spec, rec, m):
    """more than 2^16 (thorough 2^17) sign() calls - each one generator multiplication - on one network's signer object, generator
    and a few key objects, every one of them judged: the signature text is decoded and its signer recovered by the reference (the
    verdict for one (text, digest) pair is remembered, so a repeated identical signature costs a lookup and a different one a fresh
    recovery). Interleaved: a digest of a NEW message per operation (judged by the reference digest), and every 32nd operation a
    verify / recovery (two more multiplications) with the reference's verdict. Whatever per-object or per-process resource counts
    operations (re-blinding interval, cache limit, counter wrap), the operation on which it strikes is a judged one."""
    rng = shard_rng(spec["seed"], PROPERTY, spec["tier"], spec["shard"])
    code = "BTC" if "BTC" in m.nets else sorted(m.nets)[0]
    net = m.nets[code]
    name = net.network_name
    signer = net.msg
    ses = [rng.randrange(1, N), 1, N - 1, rng.randrange(1, N)]
    msgs = ["", "long run", "two\nlines é", "x" * 253, "{msg} {sig}", "😀", "a\r\nb", " padded "]
    pool = []
    for i, se in enumerate(ses):
        comp = bool(i & 1)
        key = net.keys.private(se, is_compressed=comp)
        for msg in (msgs if i == 0 else msgs[:3]):
            pool.append((se, comp, key, key.address(), msg, RM.digest(name, msg)))
    other = net.keys.private(ses[0] % (N - 1) + 1)
    ops = spec["ops"]
    last = {}
    n_sign = n_hash = n_verify = 0
    for i in range(ops):
        # most operations on ONE key object (pool[0..7]), the rest spread
        j = i % 8 if i % 4 else (i // 4) % len(pool)
        se, comp, key, addr, msg, z = pool[j]
        case = {"net": code, "se": se, "compressed": comp, "msg": msg, "armour": False, "nth_operation": i + 1}
        st, sig = observe(signer.sign, key, msg)
        n_sign += 1
        if st != "ok":
            rec.violation("msg.honest_call_raises.sign", case, sig, "no exception")
            break
        if last.get(j) != sig:
            # judged by the reference (remembered per (text, digest)); an identical repetition has the same verdict
            rec.case(("longrun", j, sig))
            if judge_signature(rec, case, m, sig, z, m.refpub(se), comp) is None:
                break
            last[j] = sig
            rec.ev("longrun:signature judged by reference recovery")
        else:
            rec.ev("longrun:signature identical to one already judged")
        # a digest of a message never seen before (fills any memo table), judged by the reference digest
        fresh = "%s #%d" % (msg[:40], i)
        st, hz = observe(signer.hash_for_signing, fresh)
        n_hash += 1
        if st != "ok" or hz != RM.digest(name, fresh):
            rec.violation("msg.digest_mismatch", dict(case, msg=fresh), hz, RM.digest(name, fresh))
            break
        if i % 32 == 5 or (1 << 16) - 3 <= i <= (1 << 16) + 3 or (1 << 17) - 3 <= i <= (1 << 17) + 3:
            n_verify += 1
            w = (i // 32) % 4 if i % 32 == 5 else i % 4
            if w == 0:
                st, v = observe(signer.verify, key, sig, msg)
                want = True
            elif w == 1:
                st, v = observe(signer.verify, addr, sig, msg)
                want = True
            elif w == 2:
                st, v = observe(signer.verify, other, sig, msg)
                want = False
            else:
                st, v = observe(signer.pair_for_message_hash, sig, z)
                want = None
            if st != "ok":
                rec.violation("msg.honest_call_raises.verify", case, v, "no exception")
                break
            if want is None:
                if tuple(v[0]) != m.refpub(se) or bool(v[1]) is not comp:
                    rec.violation("msg.pair_for_message_hash_mismatch", case, v, [m.refpub(se), comp])
                    break
            elif v is not want:
                rec.violation("msg.own_signature_rejected.key" if want else "msg.verifies_for_other_key", case, v, want)
                break
    rec.case(("longrun", code, ops), n=n_sign + n_hash + n_verify - len(last))
    rec.ev("longrun:sign", n_sign)
    rec.ev("longrun:hash_for_signing", n_hash)
    rec.ev("longrun:verify or recover", n_verify)
    if n_sign > 1 << 16:
        rec.ev("longrun:more than 2^16 signatures on one signer object in one process")
    if n_sign > 1 << 17:
        rec.ev("longrun:more than 2^17 signatures on one signer object in one process")
    rec.sample({"op": "long run", "net": code, "sign": n_sign, "hash_for_signing": n_hash, "verify or recover": n_verify})
    rec.ev("networks_usable")


def raise_mech(text):
    raw = RM.lenient_b64(text)
    t = RM.split_compact(raw)
    if t is not None and 27 <= t[0] <= 34:
        return "msg.verify_raises.recovery"
    if RM.strict_b64(text) is None:
        return "msg.verify_raises.undecodable_text"
    return "msg.verify_raises.other"


def accept_mech(text):
    for raw in RM.decodings(text):
        t = RM.split_compact(raw)
        if t is not None and not (1 <= t[1] < N and 1 <= t[2] < N):
            return "msg.accepts_out_of_range_rs"
    return "msg.accepts_invalid_signature"


def judge_hostile(net, code, tk, rec, text, msg, cls):
    """tk = target description dict: {"se":..,"compressed":..} or {"pub": sec bytes}, plus "target": "key"|"address"."""
    case = dict(tk, net=code, sig_text=text, msg=msg, cls=cls)
    rec.case(("hostile", code, tk.get("se"), tk.get("pub"), tk.get("compressed"), tk["target"], text, msg))
    rec.ev("verify(hostile)")
    rec.ev("hostile:" + cls)
    ck = (code, tk.get("se"), tk.get("pub"), tk.get("compressed"))
    key = _KEYS.get(ck)
    if key is None:
        if len(_KEYS) > 2000:
            _KEYS.clear()
        key = _KEYS[ck] = net.keys.private(tk["se"], is_compressed=tk["compressed"]) if "se" in tk else net.keys.public(tk["pub"])
    target = key if tk["target"] == "key" else key.address()
    st, v = observe(net.msg.verify, target, text, msg)
    if st != "ok":
        rec.violation(raise_mech(text), case, v, "a bool")
        return None
    if type(v) is not bool:
        rec.violation("msg.verify_returns_non_bool", case, v, "a bool")
        return None
    rec.ev("hostile_result:%s" % v)
    rec.ev("hostile_target:" + tk["target"])
    if cls == "valid_recid_ge_2" and not v:
        # not hostile at all: a signature the reference verifies for this very key, whose R.x lies in [n, p) (recovery id 2 or 3).
        # It stands for the produced signatures of that kind, which no search can find (probability 2^-128 per signature)
        rec.violation("msg.valid_signature_rejected.recid_ge_2", case, v, True)
    if cls.startswith("grouplaw:") and not v:
        # a valid signature (the reference verifies it for this key) whose recovery / verification meets a special case of the group
        # law; equally unreachable by search
        rec.violation("msg.valid_signature_rejected.group_law." + cls.split(":", 1)[1], case, v, True)
    if v:
        z = RM.digest(net.network_name, msg)
        Q = tuple(key.public_pair())
        if tk["target"] == "key":
            good = RM.justified(text, z, pair=Q)
        else:
            good = RM.justified(text, z, h160=RS.hash160(RS.encode(Q, key.is_compressed())))
        if not good:
            rec.violation(accept_mech(text), case, True, False)
    return v


_KEYS = {}
NON_B64_CHARS = " \n\r\t!#$%&()*,-.:;<>?@[]^_`{|}~\"'\\\x00\x7f="
NON_ASCII = ["\u00e9", "\u00fc", "\uff11", "\uff21", "\u0663", "\U0001F600", "\u00a0", "\u2028", "\ufeff", "\ud800", "\udfff", "\u00ff", "\x80", "\xff", "\u65e5"]


def hostile_texts(rng, r, s, hdr, n_rand):
    """yield (class, text) for one valid signature (hdr, r, s)."""
    good = RM.compact(hdr, r, s)
    raw = RM.strict_b64(good)
    # A. every header byte
    for h in range(256):
        yield "header_sweep", RM.compact(h, r, s)
    # B. special r and s under all eight valid headers
    nox = [x for x in range(1, 40) if C.lift_x(x) is None][:3]
    withx = [x for x in range(1, 40) if C.lift_x(x) is not None][:2]
    hi_nox = next(x for x in range(N - 1, N - 60, -1) if C.lift_x(x) is None)
    for rr in [0, 1, N - 1, N, N + 1, P_ - 1, P_, P_ + 1, (1 << 256) - 1, 1 << 255, hi_nox] + nox + withx:
        for h in range(27, 35):
            yield "special_r", RM.compact(h, rr, s)
    for ss in [0, 1, N - 1, N, N + 1, (1 << 256) - 1, N // 2, N // 2 + 1]:
        for h in range(27, 35):
            yield "special_s", RM.compact(h, r, ss)
    for rr, ss in [(0, 0), (N, N), (0, N), ((1 << 256) - 1, (1 << 256) - 1)]:
        yield "special_rs", RM.compact(hdr, rr, ss)
    # C. every bit of the valid signature flipped
    for i in range(65):
        for b in range(8):
            x = bytearray(raw)
            x[i] ^= 1 << b
            yield "bit_flip", RM.compact(x[0], int.from_bytes(x[1:33], "big"), int.from_bytes(x[33:], "big"))
    import base64
    # D. base64 of every length 0..100
    for L in range(0, 101):
        for variant in range(3):
            if variant == 0:
                blob = bytes(rng.randrange(256) for _ in range(L))
            elif variant == 1:
                blob = (raw + bytes(rng.randrange(256) for _ in range(40)))[:L]
            else:
                blob = (bytes([rng.randrange(27, 35)]) + bytes(rng.randrange(256) for _ in range(L)))[:L]
            yield "b64_len_%s" % ("65" if L == 65 else "other"), base64.b64encode(blob).decode()
    # E. text-level damage of the valid signature
    variants = [good.rstrip("="), good + "=", good + "==", good + "====", "=" + good, good[:-2], good[:-3], good[1:], good + good, good + "A",
                good + "AAAA", " " + good, good + "\n", good[:30] + "\n" + good[30:], good[:30] + "\r\n" + good[30:], good.replace("+", "-").replace("/", "_"),
                good.lower(), good[::-1], good[:44], good[:43], good[:42], good[:41], "", " ", "=", "==", "A", "AA", "AAA", "AA==", "A===", good[:-1] + "!",
                good.replace("=", ""), "\x00" + good, good + "\x00", good.encode("ascii").hex(), "0x" + raw.hex(), raw.hex()]
    for v in variants:
        yield "text_damage", v
    for _ in range(n_rand):
        k = rng.randrange(6)
        pos = rng.randrange(len(good) + 1)
        if k == 0:
            yield "non_b64_char", good[:pos] + rng.choice(NON_B64_CHARS) + good[pos + 1:]
        elif k == 1:
            yield "non_b64_char", good[:pos] + rng.choice(NON_B64_CHARS) + good[pos:]
        elif k == 2:
            yield "non_ascii", good[:pos] + rng.choice(NON_ASCII) + good[pos + 1:]
        elif k == 3:
            yield "non_ascii", good[:pos] + rng.choice(NON_ASCII) + good[pos:]
        elif k == 4:
            L = rng.randrange(0, 121)
            alpha = RM.B64 + NON_B64_CHARS if rng.random() < 0.5 else RM.B64 + "="
            yield "random_text", "".join(rng.choice(alpha) for _ in range(L))
        else:
            L = rng.randrange(1, 100)
            yield "non_ascii", "".join(rng.choice(NON_ASCII + list("AQz9+/=")) for _ in range(L))


def crafted_aliases(rng, z):
    """yield (class, target description, text): signature encodings outside the canonical ranges together with the key that
    a recovery ignoring the ranges would produce, and canonical recid >= 2 signatures with the key they really recover."""
    # s = 0 / s = n: Q = -(z / r) G for every R
    for _ in range(2):
        x = rng.randrange(1, N)
        while C.lift_x(x) is None:
            x += 1
        d = (-z * pow(x, -1, N)) % N
        if d:
            for ss in (0, N):
                for h in (27, 28, 31, 32):
                    yield "alias_s_zero", {"se": d, "compressed": h >= 31}, RM.compact(h, x, ss)
    # a signature whose recovered key would be the point at infinity (s R = z G, i.e. "signed" with private key 0): unrecoverable
    for _ in range(2):
        k = rng.randrange(1, N)
        R = C.mul(k, C.G)
        r0, s0 = R[0] % N, z * pow(k, -1, N) % N
        if r0 and s0 and R[0] < N:
            assert RM.recover(z, r0, s0, R[1] & 1) is None
            for comp in (False, True):
                yield "recovers_infinity", {"se": rng.choice([1, 2, N - 1]), "compressed": comp}, RM.compact(27 + (R[1] & 1) + 4 * comp, r0, s0)
    # r field = r + n (same residue, R.x = r + n < p): canonical form is (r, s) with recid | 2
    small = [r0 for r0 in range(1, 200) if C.lift_x(r0 + N) is not None and r0 + N < P_]
    for r0 in rng.sample(small, 3):
        s0 = rng.randrange(1, N)
        for par in (0, 1):
            Q = RM.recover(z, r0, s0, 2 | par)
            assert Q is not None and RM.verify(Q, z, r0, s0)
            for comp in (False, True):
                pub = RS.encode(Q, comp)
                yield "alias_r_plus_n", {"pub": pub}, RM.compact(27 + par + 4 * comp, r0 + N, s0)
                yield "valid_recid_ge_2", {"pub": pub}, RM.compact(27 + 2 + par + 4 * comp, r0, s0)


SPECIAL_NONCES = [1, 2, 3, N - 1, N - 2, (N - 1) // 2, (N + 1) // 2]


def group_law_cases(rng, z, rec, few=False):
    """yield (class, target description, text, (Q, compressed)): VALID signatures over z, made with a chosen nonce k (ECDSA leaves the
    nonce to the signer) or chosen (r, s), in which the recovery Q = (s/r) R - (z/r) G, or the verification (z/s) G + (r/s) Q, meets
    each special case of the group law:
      recovery_terms_opposite   s k = -z, i.e. d = -2 z / r: the two terms are each other's negation, Q = 2 (s/r) R (a doubling, or -
                                in the form r^-1 (s R - z G) - the sum of two equal points)
      verification_terms_equal  d = z / r: (z/s) G = (r/s) Q, the verifier's sum is a doubling
      nonce_pm1_pm2             R = +-G, +-2G, G/2 ...: R coincides with the generator or a small multiple of it
      key_is_pm_nonce           Q = +-R
      s_is_pm_r                 s/r = +-1: the first term is +-R itself
      r_is_pm_digest            z/r = +-1: the second term is +-G itself
    (the remaining case - the two recovery terms equal, Q = infinity - is not a valid signature: class recovers_infinity.) Each
    comes with its high-s twin (r, n - s, other parity), which is a signature by the same key. The reference decides validity;
    when the reference does not confirm what the construction promises the case is dropped and counted as inconclusive."""
    zi = z % N
    ks = list(SPECIAL_NONCES) + [rng.randrange(1, N), (1 << 200) + 7]
    rng.shuffle(ks)
    out = []

    def known_key(cls, d, k):
        d %= N
        if not d:
            return
        R = C.mul(k, C.G)
        r = R[0] % N
        s = pow(k, -1, N) * (zi + r * d) % N
        if not r or not s or R[0] >= N:
            return
        out.append((cls, d, None, r, s, R[1] & 1))

    for k in ks[:1 if few else 4]:
        R = C.mul(k, C.G)
        r = R[0] % N
        if r and zi:
            ri = pow(r, -1, N)
            known_key("recovery_terms_opposite", -2 * zi * ri, k)
            known_key("verification_terms_equal", zi * ri, k)
    for k in rng.sample(SPECIAL_NONCES, 1 if few else 4):
        known_key("nonce_pm1_pm2", rng.randrange(1, N), k)
    k = rng.choice(ks)
    known_key("key_is_pm_nonce", k, k)
    if not few:
        known_key("key_is_pm_nonce", N - k, k)
    # chosen (r, s): the key is whatever the reference recovers (no private key known)
    x = rng.randrange(1, N)
    while C.lift_x(x) is None:
        x += 1
    for s0 in (x, N - x)[:1 if few else 2]:
        out.append(("s_is_pm_r", None, None, x, s0, rng.randrange(2)))
    for r0 in (zi, N - zi):
        if 0 < r0 < N and C.lift_x(r0) is not None:
            out.append(("r_is_pm_digest", None, None, r0, rng.randrange(1, N), rng.randrange(2)))
    for i, (cls, d, _, r, s, par) in enumerate(out):
        for twin in ((0, 1) if not few else (i & 1,)):
            ss, pp = (s, par) if not twin else (N - s, par ^ 1)
            Q = RM.recover(z, r, ss, pp)
            if Q is None or not RM.verify(Q, z, r, ss) or (d is not None and Q != C.mul(d, C.G)):
                rec.ev("inconclusive:group law construction not confirmed by the reference (%s)" % cls)
                rec.note("group_law_cases: %s z=%x r=%x s=%x par=%d d=%r not confirmed" % (cls, z, r, ss, pp, d))
                continue
            comp = bool((i + twin) & 1)
            tk = {"se": d, "compressed": comp} if d is not None else {"pub": RS.encode(Q, comp)}
            yield "grouplaw:" + cls, tk, RM.compact(27 + pp + 4 * comp, r, ss), (Q, comp)


GROUP_LAW_CLASSES = ["recovery_terms_opposite", "verification_terms_equal", "nonce_pm1_pm2", "key_is_pm_nonce", "s_is_pm_r", "r_is_pm_digest"]


def judge_pair(net, code, rec, text, msg, cls, want):
    """pair_for_message_hash on a constructed valid signature: exactly the signer's public key and key form."""
    z = RM.digest(net.network_name, msg)
    case = {"net": code, "sig_text": text, "msg": msg, "cls": cls, "op": "pair", "want_sec": RS.encode(want[0], want[1])}
    rec.case(("pair", code, text, msg))
    rec.ev("pair_for_message_hash(constructed valid signature)")
    st, v = observe(net.msg.pair_for_message_hash, text, z)
    if st != "ok" or tuple(v[0]) != tuple(want[0]) or bool(v[1]) is not want[1]:
        rec.violation("msg.pair_for_message_hash_mismatch", case, v, want)


def run_hostile(spec, rec, m):
    rng = shard_rng(spec["seed"], PROPERTY, spec["tier"], spec["shard"])
    codes = sorted(m.nets)
    idx = spec["idx"]
    n = spec["n"]
    done = 0
    rnd = 0
    pure = bool(spec.get("env"))
    while done < n:
        code = "BTC" if (idx == 0 and rnd == 0) else codes[(idx * 11 + rnd * 5 + spec["seed"]) % len(codes)]
        net = m.nets[code]
        se = rng.choice(boundary_exponents()) if rnd % 3 == 2 else rng.randrange(1, N)
        comp = bool((rnd + idx) & 1)
        msg = gen_message(rng, rng.randrange(0, 60))[0][:400]
        z = RM.digest(net.network_name, msg)
        r, s, recid = RM.sign(se, z)
        if rnd & 2 and s < N // 2:
            s = N - s
            recid ^= 1
        hdr = 27 + recid + 4 * comp
        good = RM.compact(hdr, r, s)
        tk = {"se": se, "compressed": comp}
        # the reference-made signature itself: must give a bool; not required True (foreign signer), but counted
        v = judge_hostile(net, code, dict(tk, target="key"), rec, good, msg, "reference_signature")
        rec.ev("reference_signature_accepted" if v else "reference_signature_not_accepted")
        judge_hostile(net, code, dict(tk, target="address"), rec, good, msg, "reference_signature")
        done += 2
        for k, (cls, text) in enumerate(hostile_texts(rng, r, s, hdr, 150 if not pure else 10)):
            if pure and ((cls in ("header_sweep", "bit_flip", "b64_len_other") and k % 16) or (cls in ("special_r", "special_s") and k % 3)):
                continue
            target = "key" if (k + rnd) & 1 else "address"
            judge_hostile(net, code, dict(tk, target=target), rec, text, msg, cls)
            done += 1
            if done >= n and rnd > 0:
                break
        for ai, (cls, tkd, text) in enumerate(crafted_aliases(rng, z)):
            if pure and ai % 3:
                continue
            for target in ("key", "address"):
                judge_hostile(net, code, dict(tkd, target=target), rec, text, msg, cls)
                done += 1
        # valid signatures at the special cases of the group law: must verify for their key and address, recover exactly that key,
        # and (only True is judged there) not verify for another message
        for ai, (cls, tkd, text, want) in enumerate(group_law_cases(rng, z, rec, few=pure)):
            for target in ("key", "address"):
                judge_hostile(net, code, dict(tkd, target=target), rec, text, msg, cls)
                done += 1
            judge_pair(net, code, rec, text, msg, cls, want)
            judge_hostile(net, code, dict(tkd, target=("key", "address")[ai & 1]), rec, text, msg + ".", "grouplaw_other_message")
            done += 1
        if rnd == 0 and idx == 0:
            rec.sample({"op": "verify(hostile)", "net": code, "examples": [RM.compact(hdr, 0, s), good.rstrip("="), good[:5] + "é" + good[6:]],
                        "expected": "False (a bool), never an exception"})
        rnd += 1
    rec.ev("networks_usable", len(codes))


# ---------------------------------------------------------------------------------------------
# call histories on reused signer objects

_NOX = []


def hostile_variant(rng, text):
    """a malformed relative of a well-formed signature text (a call that fails, between calls that must succeed)."""
    t = RM.split_compact(RM.strict_b64(text))
    if t is None:
        return "AAAA"
    h, r, s = t
    if not _NOX:
        _NOX.append(next(x for x in range(1, 60) if C.lift_x(x) is None))
    k = rng.randrange(12)
    return [RM.compact(h, 0, s), RM.compact(h, r, 0), RM.compact(h, N, s), RM.compact(h, r, N), RM.compact(26, r, s), RM.compact(35, r, s),
            RM.compact(h, _NOX[0], s), text[:-2], text.rstrip("="), text[:7] + "é" + text[8:], text[:40], "!" + text[1:]][k]


REFUSED_KINDS = ["sign:key without secret exponent", "sign:message None", "sign:message bytes", "sign:message int", "sign:key None",
                 "sign:verbose, message list", "sign_hash:exponent 0", "sign_hash:exponent n", "sign_hash:exponent None", "sign_hash:digest None",
                 "sign_hash:digest str", "sign_hash:digest float", "sign_hash:digest 0", "verify:signature None", "verify:signature int",
                 "verify:message int", "verify:message bytes", "verify:message list", "verify:address that does not parse", "verify:target None",
                 "verify:msg_hash float", "verify:msg_hash str", "verify:neither message nor digest", "pair:signature None", "pair:digest None",
                 "pair:digest str", "hash:bytes", "hash:None", "hash:int", "hash:lone surrogate", "parse:None", "parse:bytes", "parse:no marker",
                 "parse:truncated armour", "parse:armour without address", "parse:empty trailer"]


def _key(net, code, se, comp):
    ck = (code, se, None, comp)
    key = _KEYS.get(ck)
    if key is None:
        if len(_KEYS) > 2000:
            _KEYS.clear()
        key = _KEYS[ck] = net.keys.private(se, is_compressed=comp)
    return key


def refused_call(net, m, step, z):
    kind, se, comp, msg, sig = step["kind"], step["se"], step["compressed"], step["msg"], step["sig"]
    key = _key(net, step["net"], se, comp)
    s = net.msg
    fam, what = kind.split(":", 1)
    if fam == "sign":
        if what == "key without secret exponent":
            return s.sign(net.keys.public(m.refpub(se), is_compressed=comp), msg, verbose=bool(se & 1))
        if what == "key None":
            return s.sign(None, msg)
        if what == "verbose, message list":
            return s.sign(key, [msg], verbose=True)
        return s.sign(key, {"message None": None, "message bytes": msg.encode("utf8"), "message int": 5}[what], verbose=bool(se & 2))
    if fam == "sign_hash":
        if what.startswith("exponent"):
            return s.signature_for_message_hash({"exponent 0": 0, "exponent n": N, "exponent None": None}[what], z, comp)
        return s.signature_for_message_hash(se, {"digest None": None, "digest str": "%x" % z, "digest float": 1.5, "digest 0": 0}[what], comp)
    if fam == "verify":
        if what.startswith("signature"):
            return s.verify(key, None if what.endswith("None") else 5, msg)
        if what.startswith("message"):
            return s.verify(key, sig, {"message int": 5, "message bytes": msg.encode("utf8"), "message list": [msg]}[what])
        if what == "address that does not parse":
            return s.verify(key.address()[:-1] + "~", sig, msg)
        if what == "target None":
            return s.verify(None, sig, msg)
        if what == "neither message nor digest":
            return s.verify(key, sig)
        return s.verify(key.address(), sig, msg_hash=1.5 if what.endswith("float") else "%x" % z)
    if fam == "pair":
        if what == "signature None":
            return s.pair_for_message_hash(None, z)
        return s.pair_for_message_hash(sig, None if what.endswith("None") else "%x" % z)
    if fam == "hash":
        return s.hash_for_signing({"bytes": msg.encode("utf8"), "None": None, "int": 5, "lone surrogate": msg + "\ud800"}[what])
    arm = RM.armour(net.network_name, msg, key.address(), sig or "AAAA")
    return s.parse_signed({"None": None, "bytes": arm.encode("utf8"), "no marker": msg + "\n" + (sig or ""), "truncated armour": arm[:arm.index("-----BEGIN SIG") + 8],
                           "armour without address": arm.replace(key.address() + "\n", ""), "empty trailer": arm[:arm.index("SIGNATURE-----") + 15]}[what])


def history_step(m, rec, step, hist):
    """run one literal step on the real library and judge it by the reference alone. hist = the steps before it (for the witness)."""
    code = step["net"]
    net = m.nets[code]
    name = net.network_name
    op = step["op"]
    case = {"net": code, "history": hist + [step]}
    prev = hist[-1] if hist else None
    rec.case(("history", repr(prev), repr(step)))
    rec.ev("history:" + op)
    msg = step.get("msg")
    z = RM.digest(name, msg) if msg is not None else None
    if op == "hash":
        st, v = observe(net.msg.hash_for_signing, msg)
        if st != "ok" or v != z:
            rec.violation("msg.digest_mismatch", case, v, z)
        return None
    if op == "refused":
        # a call the library cannot serve (wrong type, missing part, a key without its secret): whether and how it refuses is not
        # judged - what the calls AFTER it return is. Made on the same signer object and the same (remembered) key object as the
        # judged calls around it
        st, v = observe(refused_call, net, m, step, z)
        rec.ev("history:refused:" + step["kind"])
        rec.ev("history:refused_call raised" if st != "ok" else "history:refused_call returned (not judged)")
        step["_failed"] = True
        return None
    if prev and prev["op"] == "refused" and prev["net"] == code:
        rec.ev("history:judged_call_after_refused_call")
    if op in ("sign", "sign_hash"):
        se, comp = step["se"], step["compressed"]
        if op == "sign_hash":
            st, sig = observe(net.msg.signature_for_message_hash, se, z, comp)
        else:
            key = net.keys.private(se, is_compressed=comp)
            st, sig = observe(net.msg.sign, key, msg, **({"verbose": True} if step.get("verbose") else {}))
        if st != "ok":
            rec.violation("msg.honest_call_raises." + op, case, sig, "no exception")
            return None
        if step.get("verbose") and op == "sign":
            st, parsed = observe(net.msg.parse_signed, sig)
            parsed = triple(parsed) if st == "ok" else parsed
            if st != "ok" or not (isinstance(parsed, tuple) and len(parsed) == 3 and parsed[0] == msg and parsed[1] == key.address()):
                rec.violation("msg.armour_roundtrip_mismatch", case, parsed, [msg, key.address(), "<signature>"])
                return None
            sig = parsed[2]
        if judge_signature(rec, case, m, sig, z, m.refpub(se), comp, ".sign_hash" if op == "sign_hash" else "") is None:
            return None
        return sig
    text = step["sig"]
    raw = RM.strict_b64(text)
    if op == "pair":
        st, v = observe(net.msg.pair_for_message_hash, text, z)
        so = m.signer_of(raw, z) if raw is not None and len(raw) == 65 else None
        if so is not None:
            rec.ev("history:pair_recoverable")
            if st != "ok" or tuple(v[0]) != so[0] or bool(v[1]) is not so[1]:
                rec.violation("msg.pair_for_message_hash_mismatch", case, v, so)
        else:
            rec.ev("history:failed_call" if st != "ok" else "history:pair_unjudged")
        return None
    # verify
    se, comp, kind, by = step["se"], step["compressed"], step["kind"], step["by"]
    Q = m.refpub(se)
    ck = (code, se, None, comp)
    key = _KEYS.get(ck)
    if key is None:
        if len(_KEYS) > 2000:
            _KEYS.clear()
        key = _KEYS[ck] = net.keys.private(se, is_compressed=comp)
    target = key if kind == "key" else net.keys.public(Q, is_compressed=comp) if kind == "public" else key.address()
    rec.ev("history:verify_by_" + by)
    if by == "text":
        st, v = observe(net.msg.verify, target, text, msg)
    elif by == "text_kw":
        st, v = observe(net.msg.verify, target, text, message=msg)
    else:
        st, v = observe(net.msg.verify, target, text, msg_hash=z)
    if prev and prev["op"] == "verify" and prev["sig"] == text and prev["by"] == by == "hash" and prev["net"] == code and prev["msg"] != msg:
        rec.ev("history:same_signature_other_digest_back_to_back")
    if prev and prev["op"] == "verify" and prev["net"] == code and prev.get("_failed"):
        rec.ev("history:verify_after_failed_call")
    if st != "ok":
        rec.violation(raise_mech(text), case, v, "a bool")
        return None
    if type(v) is not bool:
        rec.violation("msg.verify_returns_non_bool", case, v, "a bool")
        return None
    how = "msg_hash" if by == "hash" else "sequence"
    if raw is not None:
        # canonical base64: one decoding, so the verdict is determined
        so = m.signer_of(raw, z) if len(raw) == 65 else None
        if so is None:
            want = False
        elif kind == "address":
            want = RS.hash160(RS.encode(so[0], so[1])) == RS.hash160(RS.encode(Q, comp))
        else:
            want = (so[0] == Q) if so[1] is comp or so[0] != Q else None
        if want is None:
            rec.ev("history:unjudged(key object of the other compression)")
        else:
            rec.ev("history:expected_%s" % want)
            if so is None:
                step["_failed"] = True
            if v is not want:
                rec.violation("msg.%s.own_signature_rejected" % how if want else "msg.%s.verifies_for_other_message_or_signer" % how, case, v, want)
    else:
        rec.ev("history:malformed_text")
        step["_failed"] = True
        if v:
            good = RM.justified(text, z, h160=RS.hash160(RS.encode(Q, comp))) if kind == "address" else RM.justified(text, z, pair=Q)
            if not good:
                rec.violation(accept_mech(text), case, True, False)
    return None


COORDS = ["msg"] * 5 + ["sig"] * 4 + ["by"] * 3 + ["se"] * 3 + ["kind"] * 2 + ["compressed"] * 2 + ["net"] * 2


def run_episode(rng, rec, m, codes, steps, first):
    c0 = "BTC" if first and "BTC" in m.nets else rng.choice(codes)
    c1 = rng.choice(codes)
    nets = [c0, c1]
    se1 = rng.choice(boundary_exponents()) if rng.random() < 0.3 else rng.randrange(1, N)
    ses = [se1, N - se1, rng.randrange(1, N)]
    a, arm = gen_message(rng, rng.randrange(0, 90))
    armourable = set()      # messages known to be inside the armoured domain (the round trip is demanded for these only)
    if len(a) <= 300 and arm:
        armourable.add(a)
    a = a[:300]
    msgs = [a, other_messages(a, rng)[0], gen_template_message(rng)]
    armourable.add(msgs[2])
    if rng.random() < 0.6:
        msgs[2] = gen_message(rng, rng.randrange(0, 90))[0][:300]
    if msgs[2] in msgs[:2]:
        msgs[2] = a + "?"
    # another spelling of the same text (normal form, case, white space, newline style, invisible characters ...): a different message
    rs = [t for _, t in TE.respell(a, rng) if t not in msgs]
    msgs.append(rng.choice(rs) if rs else a + "\ufeff")
    if arm and len(msgs[3]) <= 300 and armour_domain(msgs[3]):
        armourable.add(msgs[3])
    sigs = []           # every well-formed signature text seen in this episode
    made = {}           # (net, se, compressed, msg) -> a signature text made for exactly these
    hist = []
    cur = {"net": c0, "se": se1, "compressed": bool(rng.randrange(2)), "kind": "key", "sig": None, "msg": a, "by": rng.choice(["text", "hash"])}

    def run(step):
        out = history_step(m, rec, step, hist)
        hist.append(step)
        return out

    def aligned():
        """a signature for the current (net, key, compression, message), signing now when there is none yet."""
        k = (cur["net"], cur["se"], cur["compressed"], cur["msg"])
        if k not in made:
            u = rng.random()
            if u < 0.25:
                # made by the reference (a foreign signer), high or low s
                z = RM.digest(m.nets[k[0]].network_name, k[3])
                r, s, recid = RM.sign(k[1], z)
                if rng.random() < 0.5:
                    s, recid = N - s, recid ^ 1
                sig = RM.compact(27 + recid + 4 * k[2], r, s)
            else:
                step = {"op": "sign_hash" if u < 0.45 else "sign", "net": k[0], "se": k[1], "compressed": k[2], "msg": k[3]}
                if step["op"] == "sign" and u > 0.7 and k[3] in armourable:
                    step["verbose"] = True
                sig = run(step)
            if sig is None:
                return None
            made[k] = sig
            sigs.append(sig)
        return made[k]

    while len(hist) < steps:
        u = rng.random()
        if cur["sig"] is None or u < 0.2:
            cur["sig"] = aligned()
            if cur["sig"] is None:
                return
        elif u < 0.3:
            pass                                    # the same call again
        else:
            for _ in range(1 if u < 0.85 else 2):
                co = rng.choice(COORDS)
                if co == "msg":
                    cur["msg"] = rng.choice([x for x in msgs if x != cur["msg"]])
                elif co == "sig":
                    v = rng.random()
                    wf = [x for x in sigs if x != cur["sig"]]
                    base = cur["sig"] if RM.strict_b64(cur["sig"]) is not None else sigs[0]
                    cur["sig"] = hostile_variant(rng, base) if v < 0.35 or not wf else rng.choice(wf)
                elif co == "by":
                    cur["by"] = rng.choice([x for x in ("text", "hash", "hash", "text_kw") if x != cur["by"]])
                elif co == "se":
                    cur["se"] = rng.choice([x for x in ses if x != cur["se"]])
                elif co == "kind":
                    cur["kind"] = rng.choice([x for x in ("key", "address", "address", "public") if x != cur["kind"]])
                elif co == "compressed":
                    cur["compressed"] = not cur["compressed"]
                else:
                    cur["net"] = nets[1] if cur["net"] == nets[0] else nets[0]
            if rng.random() < 0.25:
                # sign for the request as it now stands (one coordinate away from the last thing signed or verified)
                cur["sig"] = aligned()
                if cur["sig"] is None:
                    return
        if rng.random() < 0.14:
            # a call that cannot be served, made with the coordinates of the request as it stands, right before the judged call
            kinds = REFUSED_KINDS
            _REFUSED_SEQ[0] += 1
            run({"op": "refused", "kind": kinds[_REFUSED_SEQ[0] % len(kinds)], "net": cur["net"], "se": cur["se"], "compressed": cur["compressed"],
                 "msg": cur["msg"], "sig": cur["sig"]})
        w = rng.random()
        if w < 0.08:
            run({"op": "pair", "net": cur["net"], "sig": cur["sig"], "msg": cur["msg"]})
        elif w < 0.11:
            run({"op": "hash", "net": cur["net"], "msg": cur["msg"]})
        else:
            run(dict(cur, op="verify"))


_REFUSED_SEQ = [0]


def run_history(spec, rec, m):
    rng = shard_rng(spec["seed"], PROPERTY, spec["tier"], spec["shard"])
    _REFUSED_SEQ[0] = spec["idx"] * 17 + spec["seed"] * 5           # the kinds of refused calls are taken in turn
    codes = sorted(m.nets)
    for ep in range(spec["episodes"]):
        run_episode(rng, rec, m, codes, spec["steps"], ep == 0 and spec["idx"] == 0)
    rec.ev("networks_usable", len(codes))


def active_arithmetic():
    """which point arithmetic the generator under test uses in this process (evidence only, never a verdict)."""
    try:
        from pycoin.ecdsa.secp256k1 import secp256k1_generator as g
        mod = getattr(getattr(type(g), "multiply", None), "__module__", "") or ""
        return "openssl" if mod.endswith("native.openssl") else "libsecp256k1" if mod.endswith("native.secp256k1") else "pure"
    except Exception:
        return "unknown"


def run_shard(spec, rec):
    m = M(rec)
    kind = spec["kind"]
    # the configuration a shard was planned for must be the one that ran, and every kind of workload must have run in both
    want = "pure" if (spec.get("env") or {}).get("PYCOIN_NATIVE") == "none" else "openssl"
    rec.require("config:%s:%s" % (want, kind))
    rec.ev("config:%s:%s" % (active_arithmetic(), kind))
    if kind == "history":
        rec.require("history:verify", "history:verify_by_hash", "history:verify_by_text", "history:verify_by_text_kw", "history:expected_True",
                    "history:expected_False", "history:same_signature_other_digest_back_to_back", "history:verify_after_failed_call",
                    "history:sign", "history:sign_hash", "history:pair", "history:pair_recoverable", "history:hash", "history:malformed_text",
                    "history:refused", "history:refused_call raised", "history:judged_call_after_refused_call")
        if not spec.get("env"):
            rec.require(*["history:refused:" + k for k in REFUSED_KINDS])
        run_history(spec, rec, m)
    elif kind == "equiv":
        rec.require("sign", "verify(key)", "verify(address)", "verify(equivalent message)", "verify(equivalent message, key)",
                    "verify(equivalent message, address)", "verify(equivalent message, parsed armour)", "equiv:both sides signed", "parse_signed",
                    "equiv:canonical", "equiv:compat", "equiv:case", "equiv:whitespace", "equiv:newline", "equiv:invisible", "equiv:encoding")
        if not spec.get("light"):
            rec.require("equiv_shape:canonical:nfc>other", "equiv_shape:canonical:other>nfc", "equiv_shape:canonical:nfd>other",
                        "equiv_shape:canonical:other>nfd", "equiv_shape:compat:nfkc>other", "equiv_shape:compat:other>nfkc",
                        "equiv_shape:encoding:text>unencodable", "equiv_shape:encoding:text>bytes", "equiv_shape:encoding:text>text",
                        "equiv_shape:case:folded>other", "equiv_shape:case:other>folded", "equiv_shape:newline:lf>crlf", "equiv_shape:newline:crlf>lf",
                        "verify(equivalent message, public_key)", "equiv:control", "equiv:accents", "equiv:punct", "equiv:digits",
                        "equiv:confusable", "equiv:escape")
        run_equiv(spec, rec, m)
    elif kind == "syntax":
        rec.require("sign(verbose)", "parse_signed", "verify(parsed armour)", "syntax:nl:lf", "syntax:nl:crlf",
                    "syntax:two or three elements in one message", "verify(other network: nested names)",
                    "mutable:bytearray_signature", "mutable:parse_result_checked",
                    "flavour:bip32 signs > plain verifies", "flavour:plain signs > bip32 verifies", "flavour:bip32 signs > bip32_public verifies",
                    "flavour:bip32 signs > sibling node refused")
        rec.require(*["syntax:%s@%s" % (c, p) for c in AS.CLASSES for p in AS.POSITIONS])
        run_syntax(spec, rec, m)
    elif kind == "longrun":
        rec.require("longrun:sign", "longrun:hash_for_signing", "longrun:verify or recover", "longrun:signature judged by reference recovery",
                    "longrun:more than 2^16 signatures on one signer object in one process")
        if spec["tier"] != "quick":
            rec.require("longrun:more than 2^17 signatures on one signer object in one process")
        run_longrun(spec, rec, m)
    elif kind == "honest":
        # every clause of the statement's first sentence, every entry point, every usable network, both key forms, and the message
        # regions the quantifier names (empty, multi-line in both newline styles, the three length-prefix sizes, outside the BMP, and
        # messages outside the armoured domain, which are still signed and verified)
        rec.require("sign", "sign(verbose)", "signature_for_message_hash", "hash_for_signing", "pair_for_message_hash", "parse_signed",
                    "verify(key)", "verify(public_key)", "verify(address)", "verify(parsed armour)", "verify(msg_hash=)",
                    "verify(other message)", "verify(other spelling of the message)", "verify(other key)", "verify(other address)",
                    "verify(other address: script hash with the signer's key hash)", "verify(other network)",
                    "sign(verbose, outside armour domain)", "sign_recid:0", "sign_recid:1",
                    "key:compressed", "key:uncompressed", "key:at a range boundary", "key:random",
                    "msg:utf8_len:0", "msg:utf8_len:1..252 (1-byte length prefix)", "msg:utf8_len:253..65535 (3-byte length prefix)",
                    "msg:utf8_len:>65535 (5-byte length prefix)", "msg:utf8_len:at a length-prefix boundary", "msg:multi_line:lf_only",
                    "msg:multi_line:crlf_only", "msg:non_bmp", "msg:non_ascii_bmp", "msg:leading or trailing white space",
                    "msg:template_syntax", "msg:marker or marker look-alike", "msg:armour_domain:inside",
                    "msg:armour_domain:outside (signed and verified, not armoured)")
        rec.require(*["net:" + c for c in m.nets])
        run_honest(spec, rec, m)
    else:
        rec.require("verify(hostile)", "hostile:header_sweep", "hostile:special_r", "hostile:special_s", "hostile:special_rs", "hostile:bit_flip",
                    "hostile:b64_len_65", "hostile:b64_len_other", "hostile:text_damage", "hostile:random_text", "hostile:non_ascii",
                    "hostile:non_b64_char", "hostile:alias_s_zero", "hostile:alias_r_plus_n", "hostile:recovers_infinity",
                    "hostile:valid_recid_ge_2", "hostile:reference_signature", "hostile_target:key", "hostile_target:address",
                    "hostile_result:False", "hostile_result:True", "pair_for_message_hash(constructed valid signature)",
                    "hostile:grouplaw_other_message")
        rec.require(*["hostile:grouplaw:" + c for c in GROUP_LAW_CLASSES])
        run_hostile(spec, rec, m)


def _text(v):
    """undo probe.unjx on strings that merely look like its encodings."""
    if isinstance(v, (bytes, bytearray)):
        return "x:" + bytes(v).hex()
    return v if isinstance(v, str) else str(v)


def replay_case(case, rec):
    m = M(rec)
    case = dict(case)
    for k in ("sig_text", "msg"):
        if k in case:
            case[k] = _text(case[k])
    net = m.nets[case["net"]]
    if "equiv" in case:
        pair = dict(case["equiv"])
        pair["a"] = _text(pair["a"])
        if str(pair.get("form_b", "")).startswith("bytes_"):
            if isinstance(pair["b"], str) and pair["b"].startswith("x:"):
                pair["b"] = bytes.fromhex(pair["b"][2:])
        else:
            pair["b"] = _unsafe(pair["b"]) if isinstance(pair["b"], dict) else _text(pair["b"])
        more = []
        for form, t in pair.get("more", []):
            if str(form).startswith("bytes_"):
                t = bytes.fromhex(t[2:]) if isinstance(t, str) and t.startswith("x:") else t
            else:
                t = _unsafe(t) if isinstance(t, dict) else _text(t)
            more.append([form, t])
        pair["more"] = more
        check_equiv_pair(net, case["net"], int(case["se"]), bool(case["compressed"]), pair, rec, m)
    elif "history" in case:
        hist = []
        for step in case["history"]:
            step = {k: v for k, v in step.items() if k != "_failed"}
            for k in ("sig", "msg"):
                if k in step:
                    step[k] = _text(step[k])
            if "se" in step:
                step["se"], step["compressed"] = int(step["se"]), bool(step["compressed"])
            history_step(m, rec, step, hist)
            hist.append(step)
    elif "sig_text" in case and case.get("op") == "pair":
        sec = case["want_sec"]
        sec = bytes.fromhex(sec[2:]) if isinstance(sec, str) else bytes(sec)
        judge_pair(net, case["net"], rec, case["sig_text"], case["msg"], case.get("cls", "replay"), RS.strict_parse(sec))
    elif "sig_text" in case:
        tk = {"target": case["target"]}
        if "pub" in case:
            tk["pub"] = case["pub"]
        else:
            tk["se"], tk["compressed"] = int(case["se"]), bool(case["compressed"])
        judge_hostile(net, case["net"], tk, rec, case["sig_text"], case["msg"], case.get("cls", "replay"))
    elif "syntax" in case or case.get("mutable"):
        out = check_armour(net, case["net"], int(case["se"]), bool(case["compressed"]), case["msg"], rec, m, case.get("syntax"))
        if out and case.get("mutable"):
            check_mutable_arguments(net, case["net"], int(case["se"]), bool(case["compressed"]), case["msg"], out[0], out[1], out[2], out[3], rec)
    else:
        check_signed(net, case["net"], int(case["se"]), bool(case["compressed"]), case["msg"], bool(case.get("armour", True)), rec, m,
                     shard_rng(0, PROPERTY, "replay", 0), others=sorted(m.nets))
