"""C17 — signed text messages verify for the signer only and never crash the verifier."""
from vmon.probe import shard_rng, observe
from vmon.refs import b58 as RB, ec as REC, msgsign as RM, sec as RS

PROPERTY = "C17"
PRELOAD_NETWORK_ORDERS = [["btc", "xtn", "ltc", "bch", "grs", "doge", "dash", "btg"], ["btg", "grs", "bch", "doge", "ltc", "xtn", "btc"]]
LEVEL = "exploration"
TECHNIQUE = ("runtime monitor at network.msg.* vs an independent message-digest / compact-signature / public-key-recovery "
             "reference; totality oracle (bool, never an exception) over hostile signature text")
RULE = ("honest cases: (network, secret exponent, compression flag, message) with keys at the range boundaries and random, "
        "messages empty / ASCII / multi-line LF-only or CRLF-only / > 252 and > 65,535 bytes / non-BMP unicode / marker "
        "look-alikes / leading and trailing whitespace, on every usable registered network in the OpenSSL and pure-Python "
        "configurations: digest, signature layout, recovery by reference arithmetic, verify for key / public key / address, "
        "negatives (other message, negated and unrelated key, other-compression and unrelated address, other network), armoured "
        "round trip. hostile cases: (network, target key or address, signature text): header byte 0..255, r in {0, 1, n-1, n, "
        "n+1, p-1, p, p+1, 2^256-1, x without a curve point ...} x all 8 headers, s in {0, n, ...}, every bit of a valid signature "
        "flipped, base64 of every length 0..100 bytes, non-base64 and non-ASCII text, aliases (r+n, s=0) against the key they "
        "would recover. Distinct by (operation, network, key, text, message); every case is non-trivial.")
ASSUMPTIONS = [
    "references vmon/refs/msgsign.py, ec.py, sec.py, b58.py are correct (self-tested on every run: RFC 6979 A.2.5 vectors, "
    "exhaustive sign/verify/recover closure on toy curves, two real-world signed messages produced by other software, "
    "CompactSize boundaries)",
    "the network's magic is '<network_name> Signed Message:\\n' with network_name read from the network object (for Bitcoin this "
    "is the published constant; for the other networks the property only says the magic differs per network)",
    "a returned True for hostile text is required to be justified by some decoding of the text (canonical base64, or a tolerant "
    "decoding that drops characters outside the alphabet) that the reference recovers to the target key/address; tolerant "
    "acceptance of whitespace inside a valid signature is therefore not a violation; False is never a violation for hostile text",
    "r or s outside [1, n-1] is 'malformed' (SEC 1 4.1.4/4.1.6; libsecp256k1's compact parser refuses both)",
    "the armoured round trip is demanded only for messages whose lines are joined by LF only or CRLF only, contain no other CR, "
    "no exotic line separators and no line that is an armour marker; messages outside that domain are still signed and verified",
    "signatures are not required to equal the RFC 6979 signature byte for byte (the statement does not say so)",
    "networks GRS, GRSRT, TGRS need the absent groestlcoin_hash module and are reported as absent configurations",
]
EXPLANATION = ("every signature pycoin produces is decoded and its signer recovered by independent arithmetic over the reference "
               "digest; every verify() outcome is compared with the reference's verdict; any exception from verify() is a violation")
TIMEOUT = {"quick": 600, "thorough": 3 * 3600}

C = REC.SECP256K1
N, P_ = C.n, C.p


def exhaustive(tier):
    return False


def configurations(tier):
    return [{"name": "PYCOIN_NATIVE unset (OpenSSL libcrypto point multiplication)", "exercised": True},
            {"name": "PYCOIN_NATIVE=none (pure Python arithmetic)", "exercised": True},
            {"name": "libsecp256k1", "exercised": False, "why": "library not installed"},
            {"name": "networks GRS/GRSRT/TGRS", "exercised": False, "why": "groestlcoin_hash module absent"}]


def plan(tier, seed):
    q = tier == "quick"
    shards = []
    parts = 7 if q else 9
    for part in range(parts):
        shards.append({"kind": "honest", "part": part, "parts": parts, "per_net": 40 if q else 1600, "label": "honest-openssl-%d" % part})
    parts = 4
    for part in range(parts):
        shards.append({"kind": "honest", "part": part, "parts": parts, "per_net": 1 if q else 20, "light": True,
                       "env": {"PYCOIN_NATIVE": "none"}, "label": "honest-purepython-%d" % part})
    for i in range(4 if q else 10):
        shards.append({"kind": "hostile", "idx": i, "n": 5200 if q else 85000, "label": "hostile-openssl-%d" % i})
    shards.append({"kind": "hostile", "idx": 50, "n": 260 if q else 6000, "env": {"PYCOIN_NATIVE": "none"}, "label": "hostile-purepython"})
    return shards


def selftest(rec):
    return {"ec": REC.selftest(), "sec": RS.selftest(), "msgsign": RM.selftest(), "b58_vectors": RB.selftest()}


# ---------------------------------------------------------------------------------------------

class M:
    def __init__(self, rec):
        from pycoin.networks.registry import network_codes, network_for_netcode
        self.nets = {}
        for code in sorted(network_codes()):
            try:
                net = network_for_netcode(code)
                k = net.keys.private(1)
                k.wif(), k.address()
                self.nets[code] = net
            except ImportError as e:
                rec.note("network %s unusable here: %s" % (code, str(e)[:80]))
        self._pub = {}

    def refpub(self, se):
        if se not in self._pub:
            self._pub[se] = C.mul(se, C.G)
        return self._pub[se]


MARKER_LOOKALIKES = ["-----BEGIN SIGNATURE----", "----BEGIN SIGNATURE-----", "-----begin signature-----", " -----BEGIN SIGNATURE-----",
                     "-----BEGIN SIGNATURE-----x", "-----BEGIN BITCOIN SIGNED MESSAGE---", "BEGIN SIGNATURE", "-----BEGIN 2 SIGNATURE-----",
                     "-----END-----", "Address: 1BitcoinEaterAddressDontSendf59kuE", "-----BEGIN PGP SIGNED MESSAGE----", "x SIGNED MESSAGE-----"]
REAL_MARKERS = ["-----BEGIN SIGNATURE-----", "-----BEGIN BITCOIN SIGNATURE-----", "-----BEGIN BITCOIN SIGNED MESSAGE-----",
                "-----END BITCOIN SIGNED MESSAGE-----"]
WORDS = ["hello", "world", "Pay", "to", "Alice", "42", "BTC", "I", "agree", "the", "quick", "brown", "fox", "0", "=", "+/", "\t", "  ",
         "naïve", "Ω≈ç√", "日本語", "\U0001F600", "\U0001F468‍\U0001F469‍\U0001F467", "é", "\U00010348", "٣", "\x00", "\x7f", "%s", "{msg}", "{}"]


def gen_line(rng):
    k = rng.random()
    if k < 0.12:
        return ""
    if k < 0.22:
        return rng.choice(MARKER_LOOKALIKES)
    if k < 0.3:
        return rng.choice([" ", "  x", "x  ", "\t", " lead", "trail "])
    return " ".join(rng.choice(WORDS) for _ in range(rng.randrange(1, 8)))


def gen_message(rng, i):
    """-> (message, in_armour_domain)."""
    fixed = [("", True), ("a", True), ("hello world", True), ("\n", True), ("\r\n", True), (" ", True), ("x\n", True), ("\nx", True),
             ("x\r\n", True), (" padded ", True), ("a\nb", True), ("a\r\nb", True), ("a\n\nb\n", True), ("é" * 126, True), ("é" * 127, True),
             ("x" * 252, True), ("x" * 253, True), ("x" * 254, True), ("a\r\nb\nc", False), ("a\rb", False), ("x\r", False),
             ("head\n-----BEGIN SIGNATURE-----\ntail", False), (" line", False), ("a\x0bb\x0cc\x85d", False)]
    if i < len(fixed):
        return fixed[i]
    k = rng.random()
    if k < 0.03:
        n = rng.choice([65535, 65536, 65537, 70001])
        return (("long " + "y" * n)[:n] if rng.random() < 0.5 else "\U0001F600" * (n // 4 + 1)), True
    if k < 0.1:
        n = rng.choice([251, 252, 253, 254, 255, 256, 300, 1000])
        unit = rng.choice(["x", "é", "\U0001F600", "ab\n"])
        return (unit * n)[:n], True
    if k < 0.16:
        # outside the armoured domain: a real marker line, mixed newline styles, lone CR
        kind = rng.randrange(3)
        lines = [gen_line(rng) for _ in range(rng.randrange(1, 4))]
        if kind == 0:
            lines.insert(rng.randrange(len(lines) + 1), rng.choice(REAL_MARKERS))
            return "\n".join(lines), False
        if kind == 1:
            return "\r\n".join(lines) + "\n" + gen_line(rng) + "\r\n" + gen_line(rng), False
        return "\n".join(lines) + "\r" + gen_line(rng), False
    nl = "\n" if rng.random() < 0.6 else "\r\n"
    lines = [gen_line(rng) for _ in range(rng.choice([1, 1, 2, 3, 5]))]
    msg = nl.join(lines)
    if rng.random() < 0.2:
        msg += nl
    if rng.random() < 0.1:
        msg = nl + msg
    return msg, True


def other_messages(msg, rng):
    outs = [msg + " ", msg + "\n", " " + msg, msg.upper() if msg.upper() != msg else msg.lower(), msg[:-1], msg.replace("\r\n", "\n"),
            msg.replace("\n", "\r\n"), msg + "\x00", msg.strip(), "", msg[::-1], msg + msg]
    outs = [o for o in outs if o != msg]
    rng.shuffle(outs)
    return outs


def boundary_exponents():
    return [1, 2, 3, N - 1, N - 2, (N - 1) // 2, (N + 1) // 2, 1 << 255, 1 << 128, P_ - N, 0xff, int("7f" + "ff" * 31, 16)]


def call(rec, case, what, fn, *a, **kw):
    """an honest call: must not raise. Returns (ok, value)."""
    st, v = observe(fn, *a, **kw)
    if st != "ok":
        rec.violation("msg.honest_call_raises." + what, case, v, "no exception")
        return False, None
    return True, v


def check_signed(net, code, se, comp, msg, armour_ok, rec, m, rng, light=False, others=None):
    case = {"net": code, "se": se, "compressed": comp, "msg": msg, "armour": armour_ok}
    rec.case(("honest", code, se, comp, msg))
    name = net.network_name
    z = RM.digest(name, msg)
    Pref = m.refpub(se)
    key = net.keys.private(se, is_compressed=comp)
    # digest
    rec.ev("hash_for_signing")
    ok, hz = call(rec, case, "hash_for_signing", net.msg.hash_for_signing, msg)
    if ok and hz != z:
        rec.violation("msg.digest_mismatch", case, hz, z)
    # signature
    rec.ev("sign")
    ok, sig = call(rec, case, "sign", net.msg.sign, key, msg)
    if not ok:
        return None
    raw = RM.strict_b64(sig) if isinstance(sig, str) else None
    t = RM.split_compact(raw)
    if t is None:
        rec.violation("msg.signature_not_compact65", case, sig, "base64 of 65 bytes")
        return None
    h, r, s = t
    if not 27 <= h <= 34 or bool((h - 27) & 4) is not comp:
        rec.violation("msg.header_flag_mismatch", case, h, "27 + recid + 4*%d" % comp)
    so = RM.signer_of(raw, z)
    if so is None or so[0] != Pref:
        rec.violation("msg.signature_does_not_recover_signer", case, so, Pref)
    rec.ev("sign_recid:%d" % ((h - 27) & 3))
    # positive verifications
    addr = key.address()
    pub = net.keys.public(Pref, is_compressed=comp)
    for what, target in (("key", key), ("public_key", pub), ("address", addr)):
        rec.ev("verify(%s)" % what)
        ok, v = call(rec, case, "verify", net.msg.verify, target, sig, msg)
        if ok and v is not True:
            rec.violation("msg.own_signature_rejected." + what, case, v, True)
    rec.ev("pair_for_message_hash")
    ok, pr = call(rec, case, "pair_for_message_hash", net.msg.pair_for_message_hash, sig, z)
    if ok and (tuple(pr[0]) != Pref or bool(pr[1]) is not comp):
        rec.violation("msg.pair_for_message_hash_mismatch", case, pr, [Pref, comp])
    # negatives
    oms = other_messages(msg, rng)[:1 if light else 3]
    for om in oms:
        for what, target in (("key", key), ("address", addr)):
            rec.ev("verify(other message)")
            ok, v = call(rec, case, "verify", net.msg.verify, target, sig, om)
            if ok and v is not False:
                rec.violation("msg.verifies_for_other_message", dict(case, other_msg=om, target=what), v, False)
    other_ses = [N - se] + ([] if light else [rng.randrange(1, N), se % (N - 1) + 1])
    for ose in other_ses:
        if ose == se:
            continue
        ok_ = net.keys.private(ose, is_compressed=comp)
        rec.ev("verify(other key)")
        ok, v = call(rec, case, "verify", net.msg.verify, ok_, sig, msg)
        if ok and v is not False:
            rec.violation("msg.verifies_for_other_key", dict(case, other_se=ose), v, False)
        rec.ev("verify(other address)")
        ok, v = call(rec, case, "verify", net.msg.verify, ok_.address(), sig, msg)
        if ok and v is not False:
            rec.violation("msg.verifies_for_other_address", dict(case, other_se=ose), v, False)
    rec.ev("verify(other address)")
    ok, v = call(rec, case, "verify", net.msg.verify, key.address(is_compressed=not comp), sig, msg)
    if ok and v is not False:
        rec.violation("msg.verifies_for_other_address", dict(case, other="same key, other compression"), v, False)
    if others:
        ocode = rng.choice(others)
        onet = m.nets[ocode]
        if onet.network_name != name:
            rec.ev("verify(other network)")
            ok, v = call(rec, case, "verify", onet.msg.verify, onet.keys.private(se, is_compressed=comp), sig, msg)
            if ok and v is not False:
                rec.violation("msg.verifies_on_other_network", dict(case, other_net=ocode), v, False)
    # armoured form
    rec.ev("sign(verbose)")
    ok, text = call(rec, case, "sign_verbose", net.msg.sign, key, msg, verbose=True)
    if ok and armour_ok:
        rec.ev("parse_signed")
        st, parsed = observe(net.msg.parse_signed, text)
        if st != "ok" or tuple(parsed) != (msg, addr, sig):
            rec.violation("msg.armour_roundtrip_mismatch", case, parsed, [msg, addr, sig])
    elif ok:
        rec.ev("sign(verbose, outside armour domain)")
    return {"net": code, "magic": RM.magic_for(name), "secret_exponent": se, "compressed": comp, "message": msg[:60], "signature": sig,
            "address": addr}


def run_honest(spec, rec, m):
    rng = shard_rng(spec["seed"], PROPERTY, spec["tier"], spec["shard"])
    codes_all = sorted(m.nets)
    codes = [c for i, c in enumerate(codes_all) if i % spec["parts"] == spec["part"]]
    bounds = boundary_exponents()
    light = bool(spec.get("light"))
    for ci, code in enumerate(codes):
        net = m.nets[code]
        for j in range(spec["per_net"]):
            if light:
                se = bounds[(ci + spec["part"] * 5 + j) % len(bounds)] if (ci + j) % 2 == 0 else rng.randrange(1, N)
                mi = rng.randrange(0, 40)
            else:
                se = bounds[j % len(bounds)] if j < 2 * len(bounds) else (rng.randrange(1, N) if rng.random() < 0.8 else rng.randrange(1, 1 << 64))
                mi = j if ci % 2 == 0 else j + 12
            comp = bool((j + ci) & 1) if j >= len(bounds) or light else j % 2 == 0
            if not light and len(bounds) <= j < 2 * len(bounds):
                comp = j % 2 == 1
            msg, arm = gen_message(rng, mi)
            s = check_signed(net, code, se, comp, msg, arm, rec, m, rng, light=light, others=codes_all)
            if s and j == 13 + 2 * ci + spec["part"] and ci < 2:
                rec.sample(dict(s, op="sign / verify / recover / armour"))
        rec.ev("networks_usable")


# ---------------------------------------------------------------------------------------------

def raise_mech(text):
    raw = RM.lenient_b64(text)
    t = RM.split_compact(raw)
    if t is not None and 27 <= t[0] <= 34:
        return "msg.verify_raises.recovery"
    if RM.strict_b64(text) is None:
        return "msg.verify_raises.undecodable_text"
    return "msg.verify_raises.other"


def accept_mech(text):
    for raw in RM.decodings(text):
        t = RM.split_compact(raw)
        if t is not None and not (1 <= t[1] < N and 1 <= t[2] < N):
            return "msg.accepts_out_of_range_rs"
    return "msg.accepts_invalid_signature"


def judge_hostile(net, code, tk, rec, text, msg, cls):
    """tk = target description dict: {"se":..,"compressed":..} or {"pub": sec bytes}, plus "target": "key"|"address"."""
    case = dict(tk, net=code, sig_text=text, msg=msg, cls=cls)
    rec.case(("hostile", code, tk.get("se"), tk.get("pub"), tk.get("compressed"), tk["target"], text, msg))
    rec.ev("verify(hostile)")
    rec.ev("hostile:" + cls)
    ck = (code, tk.get("se"), tk.get("pub"), tk.get("compressed"))
    key = _KEYS.get(ck)
    if key is None:
        if len(_KEYS) > 2000:
            _KEYS.clear()
        key = _KEYS[ck] = net.keys.private(tk["se"], is_compressed=tk["compressed"]) if "se" in tk else net.keys.public(tk["pub"])
    target = key if tk["target"] == "key" else key.address()
    st, v = observe(net.msg.verify, target, text, msg)
    if st != "ok":
        rec.violation(raise_mech(text), case, v, "a bool")
        return None
    if type(v) is not bool:
        rec.violation("msg.verify_returns_non_bool", case, v, "a bool")
        return None
    rec.ev("hostile_result:%s" % v)
    if v:
        z = RM.digest(net.network_name, msg)
        Q = tuple(key.public_pair())
        if tk["target"] == "key":
            good = RM.justified(text, z, pair=Q)
        else:
            good = RM.justified(text, z, h160=RS.hash160(RS.encode(Q, key.is_compressed())))
        if not good:
            rec.violation(accept_mech(text), case, True, False)
    return v


_KEYS = {}
NON_B64_CHARS = " \n\r\t!#$%&()*,-.:;<>?@[]^_`{|}~\"'\\\x00\x7f="
NON_ASCII = ["\u00e9", "\u00fc", "\uff11", "\uff21", "\u0663", "\U0001F600", "\u00a0", "\u2028", "\ufeff", "\ud800", "\udfff", "\u00ff", "\x80", "\xff", "\u65e5"]


def hostile_texts(rng, r, s, hdr, n_rand):
    """yield (class, text) for one valid signature (hdr, r, s)."""
    good = RM.compact(hdr, r, s)
    raw = RM.strict_b64(good)
    # A. every header byte
    for h in range(256):
        yield "header_sweep", RM.compact(h, r, s)
    # B. special r and s under all eight valid headers
    nox = [x for x in range(1, 40) if C.lift_x(x) is None][:3]
    withx = [x for x in range(1, 40) if C.lift_x(x) is not None][:2]
    hi_nox = next(x for x in range(N - 1, N - 60, -1) if C.lift_x(x) is None)
    for rr in [0, 1, N - 1, N, N + 1, P_ - 1, P_, P_ + 1, (1 << 256) - 1, 1 << 255, hi_nox] + nox + withx:
        for h in range(27, 35):
            yield "special_r", RM.compact(h, rr, s)
    for ss in [0, 1, N - 1, N, N + 1, (1 << 256) - 1, N // 2, N // 2 + 1]:
        for h in range(27, 35):
            yield "special_s", RM.compact(h, r, ss)
    for rr, ss in [(0, 0), (N, N), (0, N), ((1 << 256) - 1, (1 << 256) - 1)]:
        yield "special_rs", RM.compact(hdr, rr, ss)
    # C. every bit of the valid signature flipped
    for i in range(65):
        for b in range(8):
            x = bytearray(raw)
            x[i] ^= 1 << b
            yield "bit_flip", RM.compact(x[0], int.from_bytes(x[1:33], "big"), int.from_bytes(x[33:], "big"))
    import base64
    # D. base64 of every length 0..100
    for L in range(0, 101):
        for variant in range(3):
            if variant == 0:
                blob = bytes(rng.randrange(256) for _ in range(L))
            elif variant == 1:
                blob = (raw + bytes(rng.randrange(256) for _ in range(40)))[:L]
            else:
                blob = (bytes([rng.randrange(27, 35)]) + bytes(rng.randrange(256) for _ in range(L)))[:L]
            yield "b64_len_%s" % ("65" if L == 65 else "other"), base64.b64encode(blob).decode()
    # E. text-level damage of the valid signature
    variants = [good.rstrip("="), good + "=", good + "==", good + "====", "=" + good, good[:-2], good[:-3], good[1:], good + good, good + "A",
                good + "AAAA", " " + good, good + "\n", good[:30] + "\n" + good[30:], good[:30] + "\r\n" + good[30:], good.replace("+", "-").replace("/", "_"),
                good.lower(), good[::-1], good[:44], good[:43], good[:42], good[:41], "", " ", "=", "==", "A", "AA", "AAA", "AA==", "A===", good[:-1] + "!",
                good.replace("=", ""), "\x00" + good, good + "\x00", good.encode("ascii").hex(), "0x" + raw.hex(), raw.hex()]
    for v in variants:
        yield "text_damage", v
    for _ in range(n_rand):
        k = rng.randrange(6)
        pos = rng.randrange(len(good) + 1)
        if k == 0:
            yield "non_b64_char", good[:pos] + rng.choice(NON_B64_CHARS) + good[pos + 1:]
        elif k == 1:
            yield "non_b64_char", good[:pos] + rng.choice(NON_B64_CHARS) + good[pos:]
        elif k == 2:
            yield "non_ascii", good[:pos] + rng.choice(NON_ASCII) + good[pos + 1:]
        elif k == 3:
            yield "non_ascii", good[:pos] + rng.choice(NON_ASCII) + good[pos:]
        elif k == 4:
            L = rng.randrange(0, 121)
            alpha = RM.B64 + NON_B64_CHARS if rng.random() < 0.5 else RM.B64 + "="
            yield "random_text", "".join(rng.choice(alpha) for _ in range(L))
        else:
            L = rng.randrange(1, 100)
            yield "non_ascii", "".join(rng.choice(NON_ASCII + list("AQz9+/=")) for _ in range(L))


def crafted_aliases(rng, z):
    """yield (class, target description, text): signature encodings outside the canonical ranges together with the key that
    a recovery ignoring the ranges would produce, and canonical recid >= 2 signatures with the key they really recover."""
    # s = 0 / s = n: Q = -(z / r) G for every R
    for _ in range(2):
        x = rng.randrange(1, N)
        while C.lift_x(x) is None:
            x += 1
        d = (-z * pow(x, -1, N)) % N
        if d:
            for ss in (0, N):
                for h in (27, 28, 31, 32):
                    yield "alias_s_zero", {"se": d, "compressed": h >= 31}, RM.compact(h, x, ss)
    # r field = r + n (same residue, R.x = r + n < p): canonical form is (r, s) with recid | 2
    small = [r0 for r0 in range(1, 200) if C.lift_x(r0 + N) is not None and r0 + N < P_]
    for r0 in rng.sample(small, 3):
        s0 = rng.randrange(1, N)
        for par in (0, 1):
            Q = RM.recover(z, r0, s0, 2 | par)
            assert Q is not None and RM.verify(Q, z, r0, s0)
            for comp in (False, True):
                pub = RS.encode(Q, comp)
                yield "alias_r_plus_n", {"pub": pub}, RM.compact(27 + par + 4 * comp, r0 + N, s0)
                yield "valid_recid_ge_2", {"pub": pub}, RM.compact(27 + 2 + par + 4 * comp, r0, s0)


def run_hostile(spec, rec, m):
    rng = shard_rng(spec["seed"], PROPERTY, spec["tier"], spec["shard"])
    codes = sorted(m.nets)
    idx = spec["idx"]
    n = spec["n"]
    done = 0
    rnd = 0
    pure = bool(spec.get("env"))
    while done < n:
        code = "BTC" if (idx == 0 and rnd == 0) else codes[(idx * 11 + rnd * 5 + spec["seed"]) % len(codes)]
        net = m.nets[code]
        se = rng.choice(boundary_exponents()) if rnd % 3 == 2 else rng.randrange(1, N)
        comp = bool((rnd + idx) & 1)
        msg = gen_message(rng, rng.randrange(0, 60))[0][:400]
        z = RM.digest(net.network_name, msg)
        r, s, recid = RM.sign(se, z)
        if rnd & 2 and s < N // 2:
            s = N - s
            recid ^= 1
        hdr = 27 + recid + 4 * comp
        good = RM.compact(hdr, r, s)
        tk = {"se": se, "compressed": comp}
        # the reference-made signature itself: must give a bool; not required True (foreign signer), but counted
        v = judge_hostile(net, code, dict(tk, target="key"), rec, good, msg, "reference_signature")
        rec.ev("reference_signature_accepted" if v else "reference_signature_not_accepted")
        judge_hostile(net, code, dict(tk, target="address"), rec, good, msg, "reference_signature")
        done += 2
        for k, (cls, text) in enumerate(hostile_texts(rng, r, s, hdr, 150 if not pure else 10)):
            if pure and ((cls in ("header_sweep", "bit_flip", "b64_len_other") and k % 16) or (cls in ("special_r", "special_s") and k % 3)):
                continue
            target = "key" if (k + rnd) & 1 else "address"
            judge_hostile(net, code, dict(tk, target=target), rec, text, msg, cls)
            done += 1
            if done >= n and rnd > 0:
                break
        for ai, (cls, tkd, text) in enumerate(crafted_aliases(rng, z)):
            if pure and ai % 3:
                continue
            for target in ("key", "address"):
                judge_hostile(net, code, dict(tkd, target=target), rec, text, msg, cls)
                done += 1
        if rnd == 0 and idx == 0:
            rec.sample({"op": "verify(hostile)", "net": code, "examples": [RM.compact(hdr, 0, s), good.rstrip("="), good[:5] + "é" + good[6:]],
                        "expected": "False (a bool), never an exception"})
        rnd += 1
    rec.ev("networks_usable", len(codes))


def run_shard(spec, rec):
    m = M(rec)
    if spec["kind"] == "honest":
        rec.require("sign", "sign(verbose)", "verify(key)", "verify(address)", "parse_signed", "pair_for_message_hash", "hash_for_signing",
                    "verify(other message)", "verify(other key)", "verify(other address)")
        run_honest(spec, rec, m)
    else:
        rec.require("verify(hostile)", "hostile:header_sweep", "hostile:special_r", "hostile:special_s", "hostile:bit_flip",
                    "hostile:non_ascii", "hostile:non_b64_char")
        run_hostile(spec, rec, m)


def _text(v):
    """undo probe.unjx on strings that merely look like its encodings."""
    if isinstance(v, (bytes, bytearray)):
        return "x:" + bytes(v).hex()
    return v if isinstance(v, str) else str(v)


def replay_case(case, rec):
    m = M(rec)
    case = dict(case)
    for k in ("sig_text", "msg"):
        if k in case:
            case[k] = _text(case[k])
    net = m.nets[case["net"]]
    if "sig_text" in case:
        tk = {"target": case["target"]}
        if "pub" in case:
            tk["pub"] = case["pub"]
        else:
            tk["se"], tk["compressed"] = int(case["se"]), bool(case["compressed"])
        judge_hostile(net, case["net"], tk, rec, case["sig_text"], case["msg"], case.get("cls", "replay"))
    else:
        check_signed(net, case["net"], int(case["se"]), bool(case["compressed"]), case["msg"], bool(case.get("armour", True)), rec, m,
                     shard_rng(0, PROPERTY, "replay", 0), others=sorted(m.nets))
